"""Per-property claims: the single source MANIFEST.json is generated from
(tools/gen_manifest.py).  A property appears in CLAIMS only once its check is
built, quiet on the reference tree and shown to fire on seeded variants."""

CLAIMS: dict[str, dict[str, str]] = {}

NOT_APPLICABLE: dict[str, str] = {}

PENDING_REASON = "check not built yet (work in progress; see DESIGN.md section 4 for the planned static rules)"
