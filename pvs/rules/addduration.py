"""Shared analysis of helpers.add_duration and of DateTime.add's two branches
(used by C03 and C04)."""
from __future__ import annotations

import ast

from .. import cfg, core
from ..core import nun, pmod, un
from . import recon

CARRIES = {  # variable -> (radix, carried into)
    "microseconds": (1000000, "seconds"),
    "seconds": (60, "minutes"),
    "minutes": (60, "hours"),
    "hours": (24, "days"),
    "months": (12, "years"),
}
F7 = recon.DATE_F + recon.TIME_F
ADD_PARAMS = ["years", "months", "weeks", "days", "hours", "minutes", "seconds", "microseconds"]


ADD_CASES = None


def _add_cases():
    """(base value, keyword arguments) - single-unit steps of both signs around every carry threshold, month counts that cross
    zero, one and several year boundaries, month-end starts (clamping, leap days), and mixed combinations"""
    import datetime as _dt
    import itertools
    bases = [_dt.datetime(2020, 1, 31, 23, 59, 59, 999999), _dt.datetime(2019, 1, 31, 0, 0, 0), _dt.datetime(2024, 2, 29, 12, 30, 45, 500000),
             _dt.datetime(2021, 12, 31, 6, 0, 0), _dt.datetime(2021, 3, 15, 12, 30, 45), _dt.datetime(2000, 2, 29, 0, 0, 1), _dt.datetime(2021, 10, 31, 1, 2, 3, 4)]
    singles = {"years": [1, -1, 4, 100, -21], "months": [1, -1, 2, -2, 11, -11, 12, -12, 13, -13, 24, 25, -25, 37], "weeks": [1, -1, 3], "days": [1, -1, 31, -366, 45],
               "hours": [1, -1, 23, 24, 25, -24, -25, 49], "minutes": [1, 59, 60, 61, -60, -61, 1441], "seconds": [1, 59, 60, 61, -59, -60, -61, 3661, 86401],
               "microseconds": [1, -1, 999999, 1000000, 1000001, -1000000, -2000001, 61000001]}
    out = []
    for b in bases:
        out.append((b, {}))
        for k, vs in singles.items():
            for v in vs:
                out.append((b, {k: v}))
    mixed = [{"years": 1, "months": 1}, {"years": -1, "months": -13}, {"months": 1, "days": -1}, {"months": -1, "days": 30, "hours": 25}, {"weeks": 1, "days": -7},
             {"hours": 23, "minutes": 59, "seconds": 59, "microseconds": 999999}, {"hours": -23, "minutes": -59, "seconds": -59, "microseconds": -999999},
             {"minutes": 7, "seconds": 75}, {"minutes": -7, "seconds": -75}, {"seconds": 59, "microseconds": 1000000}, {"years": 3, "months": 11, "weeks": 2, "days": 5, "hours": 30, "minutes": 90, "seconds": 100, "microseconds": 1500000},
             {"years": -3, "months": -11, "weeks": -2, "days": -5, "hours": -30, "minutes": -90, "seconds": -100, "microseconds": -1500000}, {"months": 14, "hours": -1}, {"months": -14, "hours": 1},
             {"seconds": 0.5}, {"seconds": 61.25}, {"seconds": -0.75}]
    for b, kw in itertools.product(bases[:4], mixed):
        out.append((b, kw))
    dates = [_dt.date(2020, 1, 31), _dt.date(2024, 2, 29), _dt.date(2021, 12, 31), _dt.date(2021, 3, 15)]
    for b in dates:
        for kw in ({}, {"years": 1}, {"months": 1}, {"months": -1}, {"months": 13}, {"months": -25}, {"weeks": 2}, {"days": -45}, {"years": 1, "months": -2, "weeks": 1, "days": 3}):
            out.append((b, kw))
        out.append((b, {"hours": 1}))
        out.append((b, {"days": 1, "microseconds": 1}))
    return out


def add_duration_tabulate(ctx) -> bool | None:
    """ADD.tabulated: helpers.add_duration run by the checker's interpreter on standard-library datetime / date values for single
    steps of every unit around each carry threshold (both signs), month counts crossing one and several year boundaries from
    month-end and leap-day starts, mixed and fractional amounts.  Expected: the month shifted on the proleptic calendar, the
    day clamped to the length of the target month, then the remaining units added as a fixed length (standard-library
    timedelta); time units on a plain date are refused."""
    import calendar
    import datetime as _dt
    import math
    from . import minieval
    if "ADD.tabulated" in ctx.analysed:
        return ctx.analysed["ADD.tabulated"]
    m = pmod("helpers")
    fn = m.func("add_duration")
    greg = lambda y: y % 4 == 0 and (y % 100 != 0 or y % 400 == 0)      # noqa: E731
    bad, n = [], 0
    try:
        glob = {**minieval.module_consts(m), "date": _dt.date, "datetime": _dt.datetime, "timedelta": _dt.timedelta, "copysign": math.copysign, "is_leap": greg,
                "DAYS_PER_MONTHS": core.const("constants", "DAYS_PER_MONTHS"), "RuntimeError": ValueError, "ValueError": ValueError, "math": minieval.Stub(copysign=math.copysign)}
        funcs = {st.name: st for st in m.top() if isinstance(st, ast.FunctionDef)}
        for base, kw in _add_cases():
            n += 1
            plain_date = not isinstance(base, _dt.datetime)
            label = f"add_duration({base.isoformat()}, {', '.join(f'{k}={v}' for k, v in kw.items())})"
            try:
                got = minieval.call(fn, [base], dict(kw), {**funcs, "$globals": glob})
            except minieval.Raised as e:
                if not (plain_date and any(kw.get(k) for k in ("hours", "minutes", "seconds", "microseconds"))):
                    bad.append(f"{label}: raises {e.exc_name}")
                continue
            if plain_date and any(kw.get(k) for k in ("hours", "minutes", "seconds", "microseconds")):
                bad.append(f"{label}: returns {got!r}; time units on a date must be refused")
                continue
            mi = base.year * 12 + base.month - 1 + kw.get("years", 0) * 12 + kw.get("months", 0)
            y, mo = divmod(mi, 12)
            mo += 1
            want = base.replace(year=y, month=mo, day=min(base.day, calendar.monthrange(y, mo)[1])) + _dt.timedelta(
                weeks=kw.get("weeks", 0), days=kw.get("days", 0), hours=kw.get("hours", 0), minutes=kw.get("minutes", 0), seconds=kw.get("seconds", 0),
                microseconds=kw.get("microseconds", 0))
            if got != want or type(got) is not type(want):
                bad.append(f"{label}: {got!r} (expected {want.isoformat()})")
    except (core.Unsupported, KeyError, TypeError, AttributeError, IndexError, RecursionError, ValueError, OverflowError) as e:
        ctx.unverified("ADD.tabulated", "add_duration", f"outside the checker's interpreter: {type(e).__name__}: {e}", m.loc(fn))
        ctx.analysed["ADD.tabulated"] = None
        return None
    ctx.ob("ADD.tabulated", "add_duration", not bad, f"{n} (start value, amount) cases: " + (f"wrong: {bad[:3]}" if bad else
           "month shift with the day clamped to the target month, then the fixed-length rest - on every case"), m.loc(fn))
    ctx.analysed["ADD.tabulated"] = not bad
    if not bad:
        # how add_duration writes its carries, its month wrap and the clamp is then not a property
        ctx.established(("UNITS.carry", "ORDER.clamp"), "add_duration", "ADD.tabulated")
    return not bad


def shift_tabulate(ctx) -> bool | None:
    """SHIFT.tabulated: DateTime.add / subtract and Date.add / subtract run by the checker's interpreter in the wall-clock world of
    rules/wallstub.py (add_duration interpreted from helpers.py, the zone by one scenario transition): instances before, inside
    and after a skipped / repeated hour, both folds, amounts of every unit and sign that land in, cross or leave the
    transition.  Expected: amounts with a calendar unit (years, months, weeks, days) move the wall clock - month shift, day
    clamp, then the rest - and the wall time reached is read by the construction rules (skipped: forward, repeated: the
    later occurrence); amounts of clock units only move the instant exactly (the wall time and the occurrence follow)."""
    import calendar
    import datetime as _dt
    from . import minieval, wallstub
    if "SHIFT.tabulated" in ctx.analysed:
        return ctx.analysed["SHIFT.tabulated"]
    dm, dam = pmod("datetime"), pmod("date")
    H = _dt.timedelta(hours=1)
    scen = [(None, [_dt.datetime(2021, 1, 31, 12, 0), _dt.datetime(2024, 2, 29, 23, 59, 59, 999999)]),
            (("skip", _dt.datetime(2021, 3, 28, 2), H), [_dt.datetime(2021, 3, 27, 2, 30), _dt.datetime(2021, 3, 28, 1, 30), _dt.datetime(2021, 2, 28, 2, 30),
                                                          _dt.datetime(2021, 3, 28, 3, 30), _dt.datetime(2021, 3, 29, 2, 15), _dt.datetime(2020, 3, 28, 2, 0)]),
            (("skip", _dt.datetime(2021, 10, 3, 2), H // 2), [_dt.datetime(2021, 10, 2, 2, 15), _dt.datetime(2021, 10, 3, 1, 45), _dt.datetime(2021, 10, 3, 2, 45)]),
            (("repeat", _dt.datetime(2021, 10, 31, 3), H), [_dt.datetime(2021, 10, 30, 2, 30), _dt.datetime(2021, 10, 31, 1, 30), _dt.datetime(2021, 10, 31, 2, 30),
                                                           _dt.datetime(2021, 10, 31, 3, 30), _dt.datetime(2021, 11, 1, 2, 30), _dt.datetime(2021, 9, 30, 2, 0)])]
    amounts = [{"days": 1}, {"days": -1}, {"weeks": 1}, {"months": 1}, {"months": -1}, {"years": 1}, {"years": -1}, {"days": 1, "hours": 1}, {"months": 1, "minutes": -45},
               {"hours": 1}, {"hours": -1}, {"hours": 2}, {"hours": -2}, {"hours": 24}, {"hours": -24}, {"minutes": 30}, {"minutes": -30}, {"minutes": 90}, {"seconds": 3600},
               {"seconds": -5400}, {"microseconds": 1}, {"microseconds": -1}, {"seconds": 0.5}, {"hours": 1, "minutes": 30, "seconds": 15, "microseconds": 7}, {}]

    def cal(w, kw):
        mi = w.year * 12 + w.month - 1 + kw.get("years", 0) * 12 + kw.get("months", 0)
        y, mo = divmod(mi, 12)
        mo += 1
        return w.replace(year=y, month=mo, day=min(w.day, calendar.monthrange(y, mo)[1])) + _dt.timedelta(
            weeks=kw.get("weeks", 0), days=kw.get("days", 0), hours=kw.get("hours", 0), minutes=kw.get("minutes", 0), seconds=kw.get("seconds", 0),
            microseconds=kw.get("microseconds", 0))
    ok_all = True
    for cls, m in (("DateTime", dm), ("Date", dam)):
        for meth in ("add", "subtract"):
            if meth not in m.methods(cls):
                continue
            bad, n = [], 0
            try:
                for (tr, walls), base in [(sc, None) for sc in scen] + [(sc, _dt.timedelta(0)) for sc in scen[:2] + scen[3:]]:
                    for w0 in walls:
                        if base is not None and cls == "Date":
                            continue
                        # base None: the zone is at +02:00 before the transition; timedelta(0): at +00:00 (a zone like Europe/London)
                        wld = wallstub.World(m, cls, transition=tr, extra=dam.methods("Date") if cls == "DateTime" else None, interpret_add=True, base_offset=base)
                        if cls == "Date":
                            insts = [wld.date(w0.date())]
                        elif wld.skipped(w0):
                            continue
                        else:
                            insts = [wld.datetime(w0, f) for f in (0, 1)]
                        for x in insts:
                            for kw in amounts:
                                if cls == "Date" and (set(kw) - {"years", "months", "weeks", "days"} or (tr is not None and w0 is not walls[0])):
                                    continue
                                eff = kw if meth == "add" else {k: -v for k, v in kw.items()}
                                n += 1
                                label = f"{w0.isoformat(' ') if cls == 'DateTime' else w0.date()}" + (f" fold={vars(x)['fold']}" if cls == "DateTime" and wld.ambiguous(w0) else "") \
                                    + f" .{meth}({', '.join(f'{k}={v}' for k, v in kw.items())})" + (f" [{tr[0]} {tr[1].isoformat(' ')} +{tr[2]}]" if tr else "") \
                                    + (" [offset 00:00 before the transition]" if base is not None else "")
                                try:
                                    got = wld.call(x, meth, [], dict(kw))
                                except minieval.Raised as e:
                                    bad.append(f"{label}: raises {e.exc_name}")
                                    continue
                                g = vars(got) if isinstance(got, minieval.Obj) else {}
                                if cls == "Date":
                                    want_d = cal(_dt.datetime.combine(w0.date(), _dt.time()), eff).date()
                                    if g.get("_date") != want_d:
                                        bad.append(f"{label}: {g.get('_date')} (expected {want_d})")
                                    continue
                                if any(eff.get(k) for k in ("years", "months", "weeks", "days")):
                                    w1 = cal(w0, eff)
                                    want_w = wld.resolve(w1, 1)
                                    want_f = 1 if wld.ambiguous(want_w) else None
                                else:
                                    want_w, f2 = wld.from_instant(wld.instant(x) + _dt.timedelta(**eff))
                                    want_f = f2 if wld.ambiguous(want_w) else None
                                if g.get("tz") is not wld.tz:
                                    bad.append(f"{label}: the result is in the zone {getattr(g.get('tz'), 'name', g.get('tz'))!r}, not in the instance's")
                                elif g.get("_wall") != want_w:
                                    bad.append(f"{label}: {g.get('_wall')} (expected {want_w.isoformat(' ')})")
                                elif want_f is not None and g.get("fold") != want_f:
                                    bad.append(f"{label}: the {'second' if g.get('fold') else 'first'} occurrence of the repeated {want_w.time()} (expected the "
                                               f"{'second' if want_f else 'first'})")
                # amounts given by position: add(*a) and subtract(*-a) must be the same value (the two signatures list the units in one order)
                if meth == "subtract" and "add" in m.methods(cls):
                    wld = wallstub.World(m, cls, transition=None, extra=dam.methods("Date") if cls == "DateTime" else None, interpret_add=True)
                    x = wld.date(_dt.date(2021, 1, 31)) if cls == "Date" else wld.datetime(_dt.datetime(2021, 1, 31, 12, 0), 0)
                    pos = [1, 2, 3, 4] + ([5, 6, 7, 8] if cls == "DateTime" else [])
                    for k in range(1, len(pos) + 1):
                        a, b = wld.call(x, "add", pos[:k], {}), wld.call(x, "subtract", [-v for v in pos[:k]], {})
                        n += 1
                        key = "_date" if cls == "Date" else "_wall"
                        if vars(a).get(key) != vars(b).get(key):
                            bad.append(f"add{tuple(pos[:k])} -> {vars(a).get(key)} but subtract{tuple(-v for v in pos[:k])} -> {vars(b).get(key)} (amounts by position)")
            except wallstub.ERRORS + (ValueError,) as e:
                ctx.unverified("SHIFT.tabulated", f"{cls}.{meth}", f"outside the checker's interpreter: {type(e).__name__}: {e}", m.loc(m.func(f"{cls}.{meth}")))
                ok_all = None if ok_all is not False else False
                continue
            ctx.ob("SHIFT.tabulated", f"{cls}.{meth}", not bad, f"{n} (instance, amount, zone transition) cases: " + (f"wrong: {bad[:3]}" if bad else
                   "calendar amounts move the wall clock (re-read by the construction rules), clock amounts move the instant"), m.loc(m.func(f"{cls}.{meth}")))
            if bad:
                ok_all = False
    ctx.analysed["SHIFT.tabulated"] = ok_all
    if ok_all:
        # how DateTime.add / Date.add are written (the two exits, what is forwarded to add_duration, the negation in subtract) is then not a property
        ctx.established(("ADD.", "NEGSYM", "ADD.forward"), "DateTime.", "SHIFT.tabulated")
        ctx.established(("ADD.", "NEGSYM", "ADD.forward"), "Date.", "SHIFT.tabulated")
    return ok_all


def carry_blocks(ctx, rule: str = "UNITS.carry") -> None:
    add_duration_tabulate(ctx)
    m = pmod("helpers")
    fn = m.func("add_duration")
    seen = set()
    for st in core.body_no_doc(fn):
        if not isinstance(st, ast.If):
            continue
        t = st.test
        if not (isinstance(t, ast.Compare) and len(t.ops) == 1 and isinstance(t.left, ast.Call)
                and nun(t.left.func) == "abs" and isinstance(t.left.args[0], ast.Name)):
            continue
        x = t.left.args[0].id
        if x not in CARRIES:
            ctx.unverified(rule, f"add_duration/{x}", "normalisation block for an unexpected variable", m.loc(st))
            continue
        radix, target = CARRIES[x]
        seen.add(x)
        thr = t.comparators[0]
        thr_ok = isinstance(t.ops[0], ast.Gt) and core.is_const(thr, radix - 1) or \
            isinstance(t.ops[0], ast.GtE) and core.is_const(thr, radix)
        ctx.ob(rule, f"add_duration/{x}/threshold", thr_ok,
               f"block guarded by `{un(t)}`; a carry out of {x} starts at |{x}| >= {radix}", m.loc(st))
        src = [nun(s) for s in st.body]
        sign = None
        for s in st.body:
            if isinstance(s, ast.Assign) and isinstance(s.value, ast.Call) and nun(s.value.func) == "_sign" \
                    and nun(s.value.args[0]) == x:
                sign = nun(s.targets[0])
        if sign is None:
            # no sign juggling: quotient and remainder must then come from one (floor) division
            q_mode = r_mode = None
            for s_ in st.body:
                if isinstance(s_, ast.AugAssign) and nun(s_.target) == target and isinstance(s_.op, ast.Add):
                    v = nun(s_.value)
                    if v == f"{x} // {radix}":
                        q_mode = "floor"
                    elif v in (f"int({x} / {radix})", f"math.trunc({x} / {radix})"):
                        q_mode = "trunc"
                if (isinstance(s_, ast.AugAssign) and nun(s_.target) == x and isinstance(s_.op, ast.Mod) and core.is_const(s_.value, radix)) \
                        or (isinstance(s_, ast.Assign) and nun(s_.targets[0]) == x and nun(s_.value) == f"{x} % {radix}"):
                    r_mode = "floor"
            if q_mode and r_mode:
                ctx.ob(rule, f"add_duration/{x}/pairing", q_mode == r_mode,
                       f"block {src}: the carry is a {q_mode} quotient but the remainder a {r_mode} remainder; for negative {x} the two "
                       f"do not add up to the original value (one whole {target[:-1]} is lost)", m.loc(st))
            else:
                ctx.unverified(rule, f"add_duration/{x}", "block does not take the sign of its variable", m.loc(st))
            continue
        dm = None
        for s in st.body:
            if isinstance(s, ast.Assign) and isinstance(s.value, ast.Call) and nun(s.value.func) == "divmod" \
                    and isinstance(s.targets[0], ast.Tuple) and len(s.targets[0].elts) == 2:
                dm = s
        if dm is None:
            ctx.unverified(rule, f"add_duration/{x}", "no divmod in the block", m.loc(st))
            continue
        q, r = (nun(e) for e in dm.targets[0].elts)
        a0, a1 = dm.value.args
        ctx.ob(rule, f"add_duration/{x}/radix", nun(a0) in (f"{x} * {sign}", f"{sign} * {x}", f"abs({x})")
               and core.is_const(a1, radix),
               f"`{nun(dm)}`; |{x}| must be split by the radix {radix}", m.loc(dm))
        ctx.ob(rule, f"add_duration/{x}/remainder", f"{x} = {r} * {sign}" in src or f"{x} = {sign} * {r}" in src,
               f"block {src}; the remainder (with the sign) must stay in {x}", m.loc(st))
        ctx.ob(rule, f"add_duration/{x}/carry", f"{target} += {q} * {sign}" in src or f"{target} += {sign} * {q}" in src,
               f"block {src}; the quotient (with the sign) must be carried into {target}", m.loc(st))
    # weeks -> days
    wk = [nun(s) for s in core.body_no_doc(fn)]
    ctx.ob(rule, "add_duration/weeks", "days += weeks * 7" in wk or "days += 7 * weeks" in wk
           or "days = days + weeks * 7" in wk, "weeks must be folded into days with factor 7 (`days += weeks * 7`)",
           m.loc(fn))
    # the final timedelta carries every remaining unit into the same-named argument
    rets = core.returns(fn)
    if len(rets) != 1:
        ctx.unverified(rule, "add_duration/timedelta", "several returns", m.loc(fn))
    else:
        rv = core.strip_casts(rets[0].value)
        tds = [c for c in core.calls(rv) if nun(c.func) in ("timedelta", "datetime.timedelta")]
        if isinstance(rv, ast.BinOp) and isinstance(rv.op, ast.Add) and len(tds) == 1 and not tds[0].args:
            k = {a: nun(v) for a, v in core.kw(tds[0]).items()}
            want = {u: u for u in ("days", "hours", "minutes", "seconds", "microseconds")}
            ctx.ob(rule, "add_duration/timedelta", k == want,
                   f"final timedelta({k}); every remaining unit must be passed under its own name", m.loc(rets[0]))
            ctx.ob(rule, "add_duration/timedelta-base", nun(rv.left) == "dt" or nun(rv.right) == "dt",
                   f"`{nun(rv)[:80]}`; the timedelta must be added to the month-shifted dt", m.loc(rets[0]))
        elif isinstance(rv, ast.BinOp) and isinstance(rv.op, ast.Sub) and len(tds) == 1:
            ctx.ob(rule, "add_duration/timedelta", False,
                   f"returns `{nun(rv)[:100]}`; the remaining units must be *added* to dt", m.loc(rets[0]))
        else:
            ctx.unverified(rule, "add_duration/timedelta", f"unrecognised return `{nun(rv)[:80]}`", m.loc(rets[0]))
    if "months" not in seen:
        ctx.unverified(rule, "add_duration/months", "no |months| > 11 normalisation block found", m.loc(fn))


def month_clamp_order(ctx, rule: str = "ORDER.clamp") -> None:
    add_duration_tabulate(ctx)
    """year/month shift -> overflow fix -> clamp with the *post-overflow* year/month
    -> dt.replace(year, month, day) -> + timedelta."""
    m = pmod("helpers")
    fn = m.func("add_duration")
    body = core.body_no_doc(fn)
    idx = {}
    for i, st in enumerate(body):
        s = nun(st)
        if s.startswith("year = "):
            idx["year"] = i
            ctx.ob(rule, "add_duration/year", s in ("year = dt.year + years", "year = years + dt.year"),
                   f"`{s}`; the target year is dt.year + years", m.loc(st))
        elif s == "month = dt.month":
            idx["month"] = i
        elif isinstance(st, ast.If) and nun(st.test) == "months":
            idx["shift"] = i
            _month_shift(ctx, rule, m, st)
        elif s.startswith("day = "):
            idx["clamp"] = i
            ok = s in ("day = min(DAYS_PER_MONTHS[int(is_leap(year))][month], dt.day)",
                       "day = min(dt.day, DAYS_PER_MONTHS[int(is_leap(year))][month])",
                       "day = min(DAYS_PER_MONTHS[is_leap(year)][month], dt.day)",
                       "day = min(dt.day, DAYS_PER_MONTHS[is_leap(year)][month])")
            ctx.ob(rule, "add_duration/clamp", ok,
                   f"`{s}`; the day must be clamped to min(length of the *target* month in the *target* year, dt.day)",
                   m.loc(st))
        elif s.startswith("dt = dt.replace("):
            idx["replace"] = i
            c = st.value
            k = {a: nun(v) for a, v in core.kw(c).items()}
            ctx.ob(rule, "add_duration/replace", k == {"year": "year", "month": "month", "day": "day"} and not c.args,
                   f"`{s}`; must install the shifted year, month and clamped day", m.loc(st))
        elif isinstance(st, ast.Return):
            idx["return"] = i
    order = ["year", "month", "shift", "clamp", "replace", "return"]
    if any(k not in idx for k in order):
        ctx.unverified(rule, "add_duration/order", f"steps found: {sorted(idx)}", m.loc(fn))
        return
    seq = [idx[k] for k in order]
    ctx.ob(rule, "add_duration/order", seq == sorted(seq) and len(set(seq)) == len(seq),
           f"statement order {dict(zip(order, seq))}; the clamp must come after the month overflow fix and before "
           f"replace(), and the timedelta is added last", m.loc(fn))


def _month_shift(ctx, rule: str, m: core.Mod, st: ast.If) -> None:
    src = [nun(s) for s in st.body]
    ctx.ob(rule, "add_duration/month-shift", src[:1] in (["month += months"], ["month = month + months"]),
           f"`{src[:1]}`; month += months", m.loc(st))
    wraps = [s for s in st.body if isinstance(s, ast.If)]
    if len(wraps) != 1:
        ctx.unverified(rule, "add_duration/month-wrap", "wrap ladder not found", m.loc(st))
        return
    w = wraps[0]
    arms = [(nun(w.test), sorted(nun(s) for s in w.body))]
    if len(w.orelse) == 1 and isinstance(w.orelse[0], ast.If):
        arms.append((nun(w.orelse[0].test), sorted(nun(s) for s in w.orelse[0].body)))
    want = {"month > 12": ["month -= 12", "year += 1"], "month < 1": ["month += 12", "year -= 1"]}
    alt = {"month >= 13": "month > 12", "month <= 0": "month < 1", "12 < month": "month > 12", "1 > month": "month < 1"}
    got = {alt.get(t, t): b for t, b in arms}
    ctx.ob(rule, "add_duration/month-wrap", got == want,
           f"wrap arms {got}; month beyond 12 pairs year+1 with month-12, month below 1 pairs year-1 with month+12",
           m.loc(w))


def datetime_add_shape(ctx, rule: str = "ADD") -> None:
    shift_tabulate(ctx)
    """DateTime.add: classification list, forwarding into add_duration, both exits."""
    m = pmod("datetime")
    fn = m.func("DateTime.add")
    prm = core.params(fn)
    ctx.ob(f"{rule}.signature", "DateTime.add", prm == ADD_PARAMS, f"parameters {prm}", m.loc(fn))
    # classification: the local defined as any([...]) / `a or b ...` over parameters of add()
    cvar = None
    cl = []
    for n in core.body_no_doc(fn):
        if isinstance(n, ast.Assign) and len(n.targets) == 1 and isinstance(n.targets[0], ast.Name):
            v = n.value
            names_in = {x.id for x in ast.walk(v) if isinstance(x, ast.Name)}
            is_any = isinstance(v, ast.Call) and nun(v.func) in ("any", "bool")
            is_or = isinstance(v, ast.BoolOp) and isinstance(v.op, ast.Or)
            if (is_any or is_or) and names_in & set(prm):
                cvar, cl = n.targets[0].id, [v]
                break
    if cvar is None:
        ctx.unverified(f"{rule}.classify", "DateTime.add", "classification variable not found", m.loc(fn))
        cvar = "units_of_variable_length"
    else:
        e = cl[0]
        names = None
        if isinstance(e, ast.Call) and nun(e.func) == "any" and isinstance(e.args[0], (ast.List, ast.Tuple)):
            names = [nun(x) for x in e.args[0].elts]
        elif isinstance(e, ast.BoolOp) and isinstance(e.op, ast.Or):
            names = [nun(x) for x in e.values]
        elif isinstance(e, ast.Call) and nun(e.func) == "bool" and isinstance(e.args[0], ast.BoolOp):
            names = [nun(x) for x in e.args[0].values]
        if names is None:
            ctx.unverified(f"{rule}.classify", "DateTime.add", f"`{nun(e)}`", m.loc(e))
        else:
            fixed = {"hours", "minutes", "seconds", "microseconds"}
            want = [p for p in prm if p not in fixed]
            ctx.ob(f"{rule}.classify", "DateTime.add/variable-length-units", sorted(names) == sorted(want),
                   f"units treated as calendar units: {names}; must be exactly the parameters other than "
                   f"{sorted(fixed)}: {want}", m.loc(e))
    # add_duration forwarding
    for c in core.calls(fn):
        if nun(c.func) == "add_duration":
            k = {a: nun(v) for a, v in core.kw(c).items()}
            ctx.ob(f"{rule}.forward", "DateTime.add/add_duration", k == {p: p for p in ADD_PARAMS} and len(c.args) == 1,
                   f"add_duration receives {k}; every unit must be forwarded under its own name", m.loc(c))
    # exits
    ps = cfg.paths(fn)
    for p in ps:
        ex = p.exit()
        if ex[1] != "return":
            continue
        ret = core.strip_casts(ex[2].value)
        var = p.holds(cvar)
        if not isinstance(ret, ast.Call):
            ctx.unverified(f"{rule}.exit", "DateTime.add", f"returns `{un(ret)[:60]}`", m.loc(ex[2]))
            continue
        callee = nun(ret.func)
        srcs = {un(a.value) for a in ret.args if isinstance(a, ast.Attribute)}
        sv = nun(cfg.subst_path(p, ast.Name(id=srcs.pop(), ctx=ast.Load()), set())) if len(srcs) == 1 else "?"
        naive_copy = "datetime.datetime(" + ", ".join(f"self.{f}" for f in F7) + ")"
        fwd = ", ".join(f"{q}={q}" for q in ADD_PARAMS)
        if callee.endswith("create"):
            k = core.kw(ret)
            fd = k.get("fold")
            ctx.ob(f"{rule}.calendar-exit", "DateTime.add/create/fold", fd is None or core.is_const(fd, 1),
                   f"create(fold={nun(fd)}): a result landing in a gap or overlap is normalised by the construction rules "
                   f"(default: later occurrence / forward), not by the fold the start value happens to carry", m.loc(ex[2]))
            ctx.ob(f"{rule}.calendar-exit", "DateTime.add/create/tz", "tz" in k and nun(k["tz"]) in ("self.tz", "self.tzinfo"),
                   f"tz={nun(k.get('tz'))}; the wall-clock result is re-created in the instance's zone", m.loc(ex[2]))
            want = f"add_duration({naive_copy}, {fwd})"
            if var is True:
                ctx.ob(f"{rule}.calendar-exit", "DateTime.add/create/source", sv == want,
                       f"calendar branch re-creates `{sv[:140]}`; must be add_duration(<wall clock of self>, ...) "
                       f"with no offset applied", m.loc(ex[2]))
            else:
                ok = sv in (want, f"add_duration({naive_copy} - self.utcoffset(), {fwd})")
                ctx.ob(f"{rule}.naive-exit", "DateTime.add/create/source", ok, f"naive branch re-creates `{sv[:140]}`",
                       m.loc(ex[2]), nontrivial=False)
        else:
            # fixed branch: must be reached only without calendar units and with a zone
            ctx.ob(f"{rule}.fixed-exit", "DateTime.add/fixed/guard", var is False and p.holds("self.tz is None") is False,
                   f"UTC-arithmetic exit reached with {cvar}={var}, self.tz is None="
                   f"{p.holds('self.tz is None')}; it is only valid without calendar units and with a zone", m.loc(ex[2]))
            off = p.holds("offset")
            utc = f"add_duration({naive_copy} - self.utcoffset(), {fwd})" if off is not False else None
            fields = lambda b: ", ".join(f"{b}.{f}" for f in F7)  # noqa: E731
            wants = []
            for base in ([utc] if utc else []) + ([f"add_duration({naive_copy}, {fwd})"] if off is False else []):
                wants.append(f"self.tz.convert(datetime.datetime({fields(base)}, tzinfo=UTC))")
                wants.append(f"self.tz.convert({base}.replace(tzinfo=UTC))")      # same tagging of a native, naive value
            if sv not in wants and not (sv.startswith("self.tz.convert(") and "add_duration(" in sv):
                # another way of getting from the UTC clock to the zone: no verdict from the way it is written (SHIFT.tabulated decides the values)
                ctx.unverified(f"{rule}.fixed-exit", "DateTime.add/fixed/source", f"fixed-length branch rebuilds from `{sv[:100]}...`: not the form this rule reads", m.loc(ex[2]))
                continue
            ctx.ob(f"{rule}.fixed-exit", "DateTime.add/fixed/source", sv in wants,
                   f"fixed-length branch rebuilds from `{sv[:100]}...`; must be self.tz.convert(<add_duration(wall clock "
                   f"- utcoffset) tagged tzinfo=UTC>)", m.loc(ex[2]))


def neg_symmetry(ctx, m: core.Mod, cls: str, rule: str = "NEGSYM") -> None:
    add = m.func(f"{cls}.add")
    sub = m.func(f"{cls}.subtract")
    ap, sp = core.params(add), core.params(sub)
    ctx.ob(rule, f"{cls}.subtract/signature", ap == sp, f"subtract{sp} vs add{ap}", m.loc(sub))
    rets = core.returns(sub)
    if len(rets) != 1 or not isinstance(core.strip_casts(rets[0].value), ast.Call):
        ctx.unverified(rule, f"{cls}.subtract", "not a single call", m.loc(sub))
        return
    c = core.strip_casts(rets[0].value)
    if nun(c.func) != "self.add":
        ctx.unverified(rule, f"{cls}.subtract", f"delegates to {nun(c.func)}", m.loc(sub))
        return
    b = core.bind(c, ap)
    for p in ap:
        got = nun(b[p]) if p in b else "<not passed>"
        ctx.ob(rule, f"{cls}.subtract/{p}", got in (f"-{p}", f"-1 * {p}", f"{p} * -1"),
               f"add({p}={got}); subtract must forward every unit negated exactly once", m.loc(c))
