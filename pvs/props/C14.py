"""C14 — pickle, copy and deepcopy reproduce every pendulum value (state completeness)."""
from __future__ import annotations

import ast

from .. import core
from ..core import nun, pmod, un
from ..rules import recon

EXPLANATION = (
    "Decided statically: for every serialisation path written by hand (__reduce__/__reduce_ex__ + state "
    "function, __deepcopy__, __getinitargs__) the rebuilt constructor call is bound against the constructor's "
    "parameters and must carry every state component of the type (DateTime: 7 fields + tzinfo + fold; Time: 4 + "
    "tzinfo + fold; Duration: years, months, weeks, days, hours, minutes, seconds, microseconds; Interval: "
    "start, end, absolute with the absolute swap undone; FixedTimezone: offset, name), each component from its "
    "own accessor and tzinfo from the lossless attribute; types that inherit a hand-written path must be "
    "constructible by it (CTOR-LSP); Date/Timezone rely on the C base's reduce, which is complete for their "
    "state. NOT decided: byte encodings of the pickle protocols (stdlib)."
    ' As built: for Duration, STATE-COMPLETE.tabulated runs __reduce__ and __deepcopy__ on instance stubs (both signs, every unit boundary, years/months) and requires the constructor arguments they produce to describe the same years, months and microseconds; the accessor-by-accessor comparison only decides when they are outside the interpreter.'
)

F7 = recon.DATE_F + recon.TIME_F
DUR_CTOR = ["days", "seconds", "microseconds", "milliseconds", "minutes", "hours", "weeks", "years", "months"]
DUR_ACC = {"days": "self.remaining_days", "seconds": "self.remaining_seconds", "microseconds": "self.microseconds",
           "minutes": "self.minutes", "hours": "self.hours", "weeks": "self.weeks", "years": "self.years", "months": "self.months"}


def _reduce_target(m: core.Mod, cls: str, state_fn: str):
    """(callable expr, state expr) returned by __reduce_ex__."""
    fn = m.func(f"{cls}.__reduce_ex__") if m.has_func(f"{cls}.__reduce_ex__") else m.func(f"{cls}.__reduce__")
    r = core.returns(fn)
    if len(r) != 1 or not isinstance(r[0].value, ast.Tuple) or len(r[0].value.elts) < 2:
        raise core.Unsupported(f"{cls}.__reduce_ex__ does not return a (callable, args) tuple literal")
    return fn, r[0].value.elts[0], r[0].value.elts[1]


def _state_tuple(m: core.Mod, cls: str, fname: str) -> list[str]:
    fn = m.func(f"{cls}.{fname}")
    r = core.returns(fn)
    if len(r) != 1 or not isinstance(r[0].value, ast.Tuple):
        raise core.Unsupported(f"{cls}.{fname} does not return a tuple literal")
    env = {}
    for n in core.walk_fn(fn):
        if isinstance(n, ast.Assign) and isinstance(n.targets[0], ast.Name):
            env[n.targets[0].id] = nun(n.value)
    return [env.get(nun(e), nun(e)) for e in r[0].value.elts]


def _temporal(ctx, modname: str, cls: str, state_fn: str, fields: list[str]) -> None:
    m = pmod(modname)
    params = fields + ["tzinfo"]          # positional constructor parameters, fold is keyword-only
    try:
        fn, callee, state = _reduce_target(m, cls, state_fn)
        st = _state_tuple(m, cls, state_fn)
    except core.Unsupported as e:
        ctx.unverified("STATE-COMPLETE", f"{cls}.__reduce_ex__", str(e), m.rel)
        return
    ctx.ob("STATE.call", f"{cls}.__reduce_ex__/state", nun(state) in (f"self.{state_fn}(protocol)", f"self.{state_fn}()"),
           f"state expression `{nun(state)}`", m.loc(fn))
    carried: dict[str, str] = {}
    for p, v in zip(params, st):
        carried[p] = v
    kws: dict[str, str] = {}
    c = core.strip_casts(callee)
    if isinstance(c, ast.Call) and nun(c.func) in ("functools.partial", "partial") and c.args and nun(c.args[0]) == "self.__class__":
        kws = {k: nun(v) for k, v in core.kw(c).items()}
        target_ok = True
    else:
        target_ok = nun(c) == "self.__class__"
    ctx.ob("STATE.class", f"{cls}.__reduce_ex__/callable", target_ok, f"reconstructing callable `{nun(callee)}`; must rebuild self.__class__", m.loc(fn))
    carried.update(kws)
    for comp in fields + ["tzinfo", "fold"]:
        got = carried.get(comp)
        ok = got == f"self.{comp}"
        why = f"pickle/copy state carries {comp}={got}" if got else \
            f"{comp} is not part of the pickle/copy state ({'keyword-only in the constructor, ' if comp == 'fold' else ''}the reconstructed value falls back to the default)"
        if comp == "tzinfo" and got in ("self.tz", "self.timezone"):
            why = f"tzinfo={got} drops a non-pendulum tzinfo; use self.tzinfo"
        ctx.ob("STATE-COMPLETE", f"{cls}.pickle/{comp}", ok, why, m.loc(fn))
    if len(st) > len(params):
        ctx.ob("STATE-COMPLETE", f"{cls}.pickle/arity", False, f"state has {len(st)} items but the constructor takes {len(params)} positionally", m.loc(fn))
    if m.has_func(f"{cls}.__reduce__"):
        r = core.returns(m.func(f"{cls}.__reduce__"))
        ctx.ob("STATE.call", f"{cls}.__reduce__", len(r) == 1 and nun(r[0].value).startswith("self.__reduce_ex__("), f"{[nun(x.value) for x in r]}", m.rel)


def _temporal_tabulate(ctx) -> None:
    """STATE-COMPLETE.tabulated (DateTime, Time, FixedTimezone): __reduce_ex__ / __reduce__ / __deepcopy__ / __getinitargs__ run by the
    checker's interpreter on instance stubs (rules/wallstub.py); functools.partial is recorded.  Calling the reduce callable with
    its arguments, and the deep copy itself, must give back every field, the very tzinfo object and the fold - for both folds,
    an aware and a naive value, protocols 2 and 4."""
    import datetime as _dt
    from ..rules import minieval, wallstub
    dm, tm, zm = pmod("datetime"), pmod("time"), pmod("tz.timezone")
    part = lambda f, *a, **k: minieval.Stub(_partial=(f, a, k))       # noqa: E731

    def rebuild(red, ctor=None):
        if not (isinstance(red, tuple) and len(red) >= 2):
            raise core.Unsupported("reduce does not return (callable, args)")
        fn_, args = red[0], tuple(red[1])
        kw = {}
        while isinstance(fn_, minieval.Stub) and hasattr(fn_, "_partial"):
            f2, a2, k2 = fn_._partial
            args, kw, fn_ = tuple(a2) + args, {**k2, **kw}, f2
        if ctor is not None and fn_ is not ctor and callable(fn_) and not isinstance(fn_, minieval.Stub) and any(a is ctor for a in args):
            # a reconstructor function of the module that is handed the class: run it (interpreted) with a class that records how it is called
            rec = minieval.ClassStub(_new=lambda *a_, **k_: ("rebuilt", a_, k_), _isa=lambda v: False)
            out = fn_(*[rec if a is ctor else a for a in args], **kw)
            if isinstance(out, tuple) and len(out) == 3 and out[0] == "rebuilt":
                return ctor, tuple(out[1]), dict(out[2])
        return fn_, args, kw
    # DateTime
    bad, n = [], 0
    try:
        w = wallstub.World(dm, "DateTime", extra=pmod("date").methods("Date"))
        w.glob["$globals"]["functools"] = minieval.Stub(partial=part)
        w.glob["$globals"]["copy"] = minieval.Stub(deepcopy=lambda v, memo=None: v, copy=lambda v: v)
        for wall in (_dt.datetime(2021, 10, 31, 2, 30, 15, 123456), _dt.datetime(2024, 2, 29, 0, 0, 0)):
            for fold in (0, 1):
                foreign = w.other_zone("a tzinfo that is not a pendulum timezone")
                for zone in (None, w.other_zone(None), foreign):
                    x = w.datetime(wall, fold, zone=zone)
                    # the instance is of a subclass: `self.__class__` is not the name `DateTime` of the module - a copy built with the
                    # hard-coded class loses the type
                    def _tagged(*a_, **k_):
                        o_ = w.ctor(*a_, **k_)
                        vars(o_)["_of_subclass"] = True
                        return o_
                    sub = minieval.ClassStub(**{**vars(w.ctor), "_new": _tagged})
                    vars(x)["_ctor"] = sub
                    if zone is foreign:
                        vars(x)["tz"] = vars(x)["timezone"] = None       # DateTime.tz / .timezone answer None for a tzinfo that is not pendulum's
                    elif zone is not None:
                        vars(x)["tzinfo"] = vars(x)["tz"] = vars(x)["timezone"] = None       # a naive value
                    for meth, args in (("__reduce_ex__", [2]), ("__reduce_ex__", [4]), ("__reduce__", []), ("__deepcopy__", [{}])):
                        if meth not in w.meths:
                            continue
                        n += 1
                        label = f"DateTime({wall.isoformat(' ')}, fold={fold}, {'aware' if zone is None else 'foreign tzinfo' if zone is foreign else 'naive'}).{meth}"
                        got = w.call(x, meth, list(args))
                        if meth != "__deepcopy__":
                            fn_, a, kw = rebuild(got, sub)
                            if fn_ is not sub:
                                bad.append(f"{label}: the callable is not the instance's class" + (" (it is the DateTime class itself: a subclass instance comes back as a plain DateTime)" if fn_ is w.ctor else ""))
                                continue
                            names = ["year", "month", "day", "hour", "minute", "second", "microsecond", "tzinfo"]
                            f = dict(zip(names, a))
                            f.update(kw)
                            g = {"_wall": _dt.datetime(*[f.get(k, 0) for k in names[:7]]) if all(k in f for k in names[:3]) else None, "fold": f.get("fold", 0), "tzinfo": f.get("tzinfo")}
                        else:
                            g = vars(got) if isinstance(got, minieval.Obj) else {}
                            if isinstance(got, minieval.Obj) and not g.get("_of_subclass"):
                                bad.append(f"{label}: the copy is built with the DateTime class itself, not with the instance's class (a subclass instance comes back as a plain DateTime)")
                                continue
                            g = {"_wall": g.get("_wall"), "fold": g.get("fold"), "tzinfo": None if (zone is not None and zone is not foreign and getattr(g.get("tzinfo"), "name", "") == "None") else g.get("tzinfo")}
                        want_tz = vars(x)["tzinfo"]
                        if g["_wall"] != wall:
                            bad.append(f"{label}: rebuilds the fields {g['_wall']}")
                        elif g["fold"] != fold:
                            bad.append(f"{label}: rebuilds fold={g['fold']}")
                        elif g["tzinfo"] is not want_tz:
                            bad.append(f"{label}: rebuilds tzinfo={getattr(g['tzinfo'], 'name', g['tzinfo'])!r} instead of the instance's own tzinfo object")
        ctx.ob("STATE-COMPLETE.tabulated", "DateTime.pickle/deepcopy", not bad, f"{n} evaluations: " + (f"wrong: {bad[:3]}" if bad else "fields, tzinfo object and fold come back"), dm.rel)
        if not bad:
            ctx.established(("STATE", "DEEPCOPY"), "DateTime.", "STATE-COMPLETE.tabulated")
    except wallstub.ERRORS + (ValueError, minieval.Raised) as e:
        ctx.unverified("STATE-COMPLETE.tabulated", "DateTime", f"outside the checker's interpreter: {type(e).__name__}: {e}", dm.rel)
    # Time
    bad, n = [], 0
    try:
        tw = wallstub.TimeWorld(tm)
        tw.glob["$globals"]["functools"] = minieval.Stub(partial=part)
        tzo = minieval.Stub(name="some tzinfo")
        for t in (_dt.time(1, 2, 3, 4), _dt.time(23, 59, 59, 999999)):
            for fold in (0, 1):
                for tzinfo in (None, tzo):
                    x = tw.time(t.hour, t.minute, t.second, t.microsecond, tzinfo, fold)
                    for meth, args in (("__reduce_ex__", [2]), ("__reduce_ex__", [4]), ("__reduce__", [])):
                        if meth not in tw.meths:
                            continue
                        n += 1
                        label = f"Time({t}, fold={fold}, tzinfo={'set' if tzinfo else None}).{meth}"
                        fn_, a, kw = rebuild(tw.call(x, meth, list(args)), tw.ctor)
                        if fn_ is not tw.ctor:
                            bad.append(f"{label}: the callable is not the instance's class")
                            continue
                        f = dict(zip(["hour", "minute", "second", "microsecond", "tzinfo"], a))
                        f.update(kw)
                        if (f.get("hour", 0), f.get("minute", 0), f.get("second", 0), f.get("microsecond", 0)) != (t.hour, t.minute, t.second, t.microsecond):
                            bad.append(f"{label}: rebuilds the fields {f}")
                        elif f.get("fold", 0) != fold or f.get("tzinfo") is not tzinfo:
                            bad.append(f"{label}: rebuilds fold={f.get('fold', 0)} tzinfo={f.get('tzinfo')!r}")
        ctx.ob("STATE-COMPLETE.tabulated", "Time.pickle", not bad, f"{n} evaluations: " + (f"wrong: {bad[:3]}" if bad else "fields, tzinfo object and fold come back"), tm.rel)
        if not bad:
            ctx.established(("STATE",), "Time.", "STATE-COMPLETE.tabulated")
    except wallstub.ERRORS + (ValueError, minieval.Raised) as e:
        ctx.unverified("STATE-COMPLETE.tabulated", "Time", f"outside the checker's interpreter: {type(e).__name__}: {e}", tm.rel)
    # FixedTimezone
    try:
        meths = zm.methods("FixedTimezone")
        props = {k for k, f in meths.items() if any(core.dotted(d) == "property" for d in f.decorator_list)}
        bad = []
        for off, name in ((3600, "+01:00"), (-12600, "-03:30"), (0, "+00:00")):
            o = minieval.Obj(_methods=meths, _props=props, _ctor=None, _natives={}, _offset=off, _name=name, _utcoffset=_dt.timedelta(seconds=off))
            got = minieval.call(meths["__getinitargs__"], [o], {}, {"$globals": {"_datetime": minieval.Stub(timedelta=_dt.timedelta)}})
            if tuple(got) != (off, name):
                bad.append(f"FixedTimezone({off}, {name!r}).__getinitargs__() = {got!r}")
        ctx.ob("STATE-COMPLETE.tabulated", "FixedTimezone.__getinitargs__", not bad, "; ".join(bad) if bad else "(offset, name) as given to the constructor", zm.rel)
        if not bad:
            ctx.established(("STATE",), "FixedTimezone.", "STATE-COMPLETE.tabulated")
    except (core.Unsupported, KeyError, TypeError, AttributeError, ValueError) as e:
        ctx.unverified("STATE-COMPLETE.tabulated", "FixedTimezone", f"outside the checker's interpreter: {type(e).__name__}: {e}", zm.rel)


def _fixed_timezone_state(ctx) -> None:
    from . import C01
    C01.fixed_timezone_tabulate(ctx)


def _deepcopy_temporal(ctx) -> None:
    m = pmod("datetime")
    sites = recon.sites_in(m, ["DateTime.__deepcopy__"])
    for s in sites:
        recon.check_site(ctx, s, rule="DEEPCOPY")
        ctx.ob("DEEPCOPY.class", "DateTime.__deepcopy__", s.callee == "self.__class__", f"rebuilds through {s.callee}", s.loc)
    if not sites:
        # alternative: rebuilt from the same state tuple as pickle / copy (checked by STATE-COMPLETE), fold passed on
        fn = m.func("DateTime.__deepcopy__")
        r = core.returns(fn)
        ok = False
        if len(r) == 1 and isinstance(r[0].value, ast.Call) and nun(r[0].value.func) == "self.__class__":
            c = r[0].value
            star = [a for a in c.args if isinstance(a, ast.Starred)]
            kws = {k.arg: nun(k.value) for k in c.keywords}
            ok = len(star) == 1 and len(c.args) == 1 and nun(star[0].value) in ("self._getstate()", "copy.deepcopy(self._getstate(), memo)", "copy.deepcopy(self._getstate(), _)") \
                and kws.get("fold") == "self.fold"
        if ok:
            ctx.ob("DEEPCOPY.class", "DateTime.__deepcopy__", True, "rebuilt from the pickle state tuple (field list checked by STATE-COMPLETE), fold passed on", m.rel)
        elif len(r) == 1 and isinstance(r[0].value, ast.Call) and isinstance(r[0].value.func, ast.Attribute) and r[0].value.func.attr == "instance" \
                and [nun(a) for a in r[0].value.args][:1] == ["self"]:
            # copied through the conversion constructor: it re-reads the value in a timezone - its `tz` default applies to a naive value
            c = r[0].value
            d = core.defaults(m.func("DateTime.instance")).get("tz")
            tzarg = core.kw(c).get("tz") if "tz" in core.kw(c) else (c.args[1] if len(c.args) > 1 else None)
            passes_none = tzarg is not None and core.is_const(tzarg, None)
            ctx.ob("DEEPCOPY.class", "DateTime.__deepcopy__", passes_none or (d is not None and core.is_const(d, None)),
                   f"returns `{nun(c)[:60]}`: instance() gives a naive value the timezone tz={nun(tzarg) if tzarg is not None else nun(d) + ' (its default)'} - "
                   f"the copy of a naive DateTime is then aware and no longer equal to it", m.loc(r[0]))
        elif len(r) == 1:
            ctx.unverified("DEEPCOPY.class", "DateTime.__deepcopy__", f"returns `{nun(r[0].value)[:80]}`", m.rel)
        else:
            ctx.ob("DEEPCOPY.class", "DateTime.__deepcopy__", False, "no field-by-field reconstruction found", m.rel)


def duration_stub(m: core.Mod, years: int, months: int, total_us: int, record):
    """instance stub of Duration for the checker's interpreter: the fields Duration.__new__ leaves for (years, months, a signed
    number of microseconds) - the normalisation itself is C09's subject (UNITS.new / DIVMOD.tabulated) - plus what the C
    base class answers; `self.__class__(...)` calls `record`."""
    import datetime as _dt
    from ..rules import minieval
    cls = m.cls("Duration")
    fields = {}
    for st in cls.body:
        if isinstance(st, (ast.Assign, ast.AnnAssign)) and st.value is not None and isinstance(st.value, ast.Constant):
            t = st.targets[0] if isinstance(st, ast.Assign) else st.target
            if isinstance(t, ast.Name):
                fields[t.id] = st.value.value
        elif isinstance(st, (ast.Assign, ast.AnnAssign)) and st.value is not None:
            # a class-level table of the analysed class (names of accessors, ...): evaluated, not executed
            t = st.targets[0] if isinstance(st, ast.Assign) else st.target
            if isinstance(t, ast.Name):
                try:
                    fields[t.id] = minieval.ev(st.value, dict(fields), {"$globals": minieval.module_consts(m)})
                except Exception:       # noqa: BLE001 - not a table of constants: reading it is Unsupported
                    pass
    sg = -1 if total_us < 0 else 1
    a = abs(total_us)
    days = a // 10**6 // 86400 * sg
    fields.update(_years=years, _months=months, _total=total_us / 10**6, _microseconds=a % 10**6 * sg, _seconds=a // 10**6 % 86400 * sg,
                  _days=days, _remaining_days=abs(days) % 7 * sg, _weeks=abs(days) // 7 * sg)
    native = _dt.timedelta(days=years * 365 + months * 30, microseconds=total_us)
    meths = m.methods("Duration")
    props = {k for k, f in meths.items() if any(core.dotted(d) == "property" for d in f.decorator_list)}
    return minieval.Obj(_methods=meths, _props=props, _ctor=record,
                        _natives={"days": native.days, "seconds": native.seconds, "total_seconds": native.total_seconds}, **fields)


def _duration_tabulate(ctx, m: core.Mod) -> bool:
    """STATE-COMPLETE.tabulated: __reduce__ and __deepcopy__ of Duration are evaluated with the checker's interpreter on instance stubs
    covering both signs and every unit boundary; the constructor arguments they produce must describe the same duration:
    the same years, the same months and, weighted by their units, the same number of microseconds.  Returns False when a
    construct is outside the interpreter (the syntactic rule then decides)."""
    from ..rules import minieval
    US = {"days": 86400 * 10**6, "seconds": 10**6, "microseconds": 1, "milliseconds": 1000, "minutes": 60 * 10**6, "hours": 3600 * 10**6,
          "weeks": 7 * 86400 * 10**6}
    totals = [0, 1, 999_999, 10**6, 59_999_999, 60 * 10**6, 3599 * 10**6 + 7, 3600 * 10**6, 86399 * 10**6 + 999_999, 86400 * 10**6,
              6 * 86400 * 10**6 + 3723 * 10**6 + 4, 7 * 86400 * 10**6, 10 * 86400 * 10**6 + 11045 * 10**6 + 6, 400 * 86400 * 10**6 + 86399 * 10**6]
    totals += [-t for t in totals if t]
    meths = m.methods("Duration")
    glob = {"$globals": {"timedelta": minieval.Stub(
        days=minieval.Stub(__get__=lambda o, *a: vars(o)["_natives"]["days"]),
        seconds=minieval.Stub(__get__=lambda o, *a: vars(o)["_natives"]["seconds"]),
        microseconds=minieval.Stub(__get__=lambda o, *a: vars(o)["_natives"]["total_seconds"].__self__.microseconds))}}
    glob.update({st.name: st for st in m.top() if isinstance(st, ast.FunctionDef)})
    paths = [(k, meths[k]) for k in ("__reduce__", "__reduce_ex__", "__deepcopy__") if k in meths]
    if not any(k in meths for k in ("__reduce__", "__reduce_ex__")):
        return False
    bad: dict[str, str] = {}
    n = 0
    try:
        for name, fn in paths:
            for years, months in ((0, 0), (2, 5), (-3, 0), (0, -7), (1, -2)):
                for t in totals:
                    def record(*a, **k):
                        return minieval.Stub(_rebuilt=(a, k))
                    o = duration_stub(m, years, months, t, record)
                    extra = [4] if name == "__reduce_ex__" else [{}] if name == "__deepcopy__" else []
                    got = minieval.call(fn, [o] + extra, {}, glob)
                    if name == "__deepcopy__":
                        if not (isinstance(got, minieval.Stub) and hasattr(got, "_rebuilt")):
                            raise core.Unsupported("__deepcopy__ does not return self.__class__(...)")
                        a, k = got._rebuilt
                    else:
                        if not (isinstance(got, tuple) and len(got) >= 2 and got[0] is record):
                            bad.setdefault(name, f"{name} of a duration does not return (self.__class__, args)")
                            continue
                        a, k = tuple(got[1]), {}
                    if len(a) > len(DUR_CTOR) or set(k) - set(DUR_CTOR):
                        bad.setdefault(name, f"{name} passes arguments the constructor does not take")
                        continue
                    b = dict(zip(DUR_CTOR, a))
                    b.update(k)
                    us = sum(v * US[p] for p, v in b.items() if p in US)
                    n += 1
                    if (b.get("years", 0), b.get("months", 0), us) != (years, months, t):
                        bad.setdefault(name, f"for years={years} months={months} and {t} microseconds {name} rebuilds with "
                                             f"{ {p: v for p, v in b.items() if v} }: years={b.get('years', 0)} months={b.get('months', 0)} and {us} microseconds")
    except (core.Unsupported, KeyError, TypeError, AttributeError, ValueError, ZeroDivisionError, RecursionError) as e:
        ctx.unverified("STATE-COMPLETE.tabulated", "Duration.__reduce__ / __deepcopy__", f"outside the checker's interpreter: {type(e).__name__}: {str(e)[:160]}", m.rel)
        return False
    if not bad:
        ctx.established(("STATE",), "Duration.", "STATE-COMPLETE.tabulated")
    for name, fn in paths:
        ctx.ob("STATE-COMPLETE.tabulated", f"Duration.{name}", name not in bad,
               bad.get(name, f"the constructor arguments describe the same (years, months, microseconds) on every stub ({n} evaluations in all)"),
               m.loc(fn))
    return True


def _rebuilt_duration_tabulate(ctx, m: core.Mod) -> None:
    """STATE-COMPLETE.tabulated (whole state): instances of Duration and of AbsoluteDuration are built by the analysed constructor (in the
    world of rules/durstub.py) from a table of argument tuples, their __reduce__ and __deepcopy__ are evaluated, and the constructor call
    these produce is evaluated in turn: the instance that comes back must have the same timedelta value (what == compares), the same
    years, months, weeks, days, seconds and microseconds, and the same sign (invert).  An absolute duration built from a negative amount -
    what Time.diff() returns for an earlier time - has absolute components and still remembers its sign."""
    from ..rules import durstub
    from . import C09
    keys = ("_native", "_years", "_months", "_weeks", "_remaining_days", "_days", "_seconds", "_microseconds")
    for cls in ("Duration", "AbsoluteDuration"):
        if not m.has_cls(cls):
            continue
        bad: dict[str, str] = {}
        n = 0
        try:
            w = durstub.World(m, cls)
            table = [kw for kw in C09.NEW_ARGS if cls == "Duration" or (kw.get("years", 0) >= 0 and kw.get("months", 0) >= 0)]
            # (the absolute class adds the signed years and months to an absolute number of days: negative ones are not values the library builds)
            for kw in table:
                o = w.call("__new__", [w.duration_cls], dict(kw))
                f0 = vars(o)
                for name in ("__reduce__", "__deepcopy__"):
                    if name not in w.meths:
                        continue
                    got = w.call(name, [o] + ([{}] if name == "__deepcopy__" else []))
                    if name == "__reduce__":
                        if isinstance(got, tuple) and len(got) == 2 and got[0] is w.duration_cls:
                            # the class named in the module instead of the instance's own: a subclass instance comes back as a plain Duration
                            bad.setdefault(name, f"__reduce__ rebuilds through the class `Duration` instead of self.__class__: "
                                                 f"{'an absolute duration' if cls != 'Duration' else 'an instance of a subclass'} comes back as another type")
                            continue
                        if not (isinstance(got, tuple) and len(got) == 2 and got[0] is w.ctor):
                            raise core.Unsupported("__reduce__ does not return (self.__class__, args)")
                        a, k = tuple(got[1]), {}
                    else:
                        if not isinstance(got, durstub.Rebuilt):
                            raise core.Unsupported("__deepcopy__ does not return self.__class__(...)")
                        a, k = got._args, got._kws
                    o2 = w.call("__new__", [w.duration_cls, *a], dict(k))
                    f1 = vars(o2)
                    n += 1
                    diff = {x.lstrip("_").replace("native", "timedelta value"): (f0.get(x), f1.get(x)) for x in keys if f0.get(x) != f1.get(x)}
                    if (f0.get("_total", 0) < 0) != (f1.get("_total", 0) < 0):
                        diff["invert"] = (f0.get("_total", 0) < 0, f1.get("_total", 0) < 0)
                    if diff:
                        bad.setdefault(name, f"{cls}({', '.join(f'{p_}={v}' for p_, v in kw.items())}) comes back through {name} as {cls}({', '.join(map(str, a))}"
                                             f"{''.join(f', {p_}={v}' for p_, v in k.items())}): " + "; ".join(f"{x}: {v0!r} -> {v1!r}" for x, (v0, v1) in diff.items()))
        except durstub.ERRORS + (minieval_errors()) as e:
            ctx.unverified("STATE-COMPLETE.tabulated", f"{cls}.__reduce__", f"outside the checker's interpreter: {type(e).__name__}: {str(e)[:160]}", m.rel)
            continue
        for name in ("__reduce__", "__deepcopy__"):
            if name in w.meths:
                ctx.ob("STATE-COMPLETE.tabulated", f"{cls}.{name}", name not in bad,
                       bad.get(name, f"the instance rebuilt from the state has the same timedelta value, components and sign ({n} evaluations)"), m.loc(w.meths[name]))


def minieval_errors():
    from ..rules import minieval
    return (minieval.Raised, IndexError)


def _duration(ctx) -> None:
    m = pmod("duration")
    ctx.step(_rebuilt_duration_tabulate, ctx, m)
    if _duration_tabulate(ctx, m):
        return
    # deepcopy
    fn = m.func("Duration.__deepcopy__")
    r = core.returns(fn)
    if len(r) == 1 and isinstance(r[0].value, ast.Call) and nun(r[0].value.func) == "self.__class__":
        try:
            b = {k: nun(v) for k, v in core.bind(r[0].value, DUR_CTOR).items()}
        except core.Unsupported as e:
            b = None
            ctx.unverified("STATE-COMPLETE", "Duration.__deepcopy__", str(e), m.loc(fn))
        if b is not None:
            for comp, acc in DUR_ACC.items():
                got = b.get(comp)
                alt = {"days": "self._remaining_days", "seconds": "self._seconds", "microseconds": "self._microseconds",
                       "weeks": "self._weeks", "years": "self._years", "months": "self._months"}.get(comp)
                ok = got == acc or (alt is not None and got == alt and comp not in ("seconds",))
                ctx.ob("STATE-COMPLETE", f"Duration.deepcopy/{comp}", ok,
                       f"__deepcopy__ passes {comp}={got}; the component must come from {acc}" if got else
                       f"__deepcopy__ does not pass {comp}: a duration using it is copied without it", m.loc(r[0]))
            extra = set(b) - set(DUR_ACC)
            ctx.ob("STATE-COMPLETE", "Duration.deepcopy/extra", not extra, f"unexpected arguments {sorted(extra)}", m.loc(r[0]), nontrivial=False)
    else:
        ctx.unverified("STATE-COMPLETE", "Duration.__deepcopy__", "not a single self.__class__(...) call", m.loc(fn))
    # pickle
    meths = m.methods("Duration")
    if "__reduce__" not in meths and "__reduce_ex__" not in meths:
        for comp in ("years", "months"):
            ctx.ob("STATE-COMPLETE", f"Duration.pickle/{comp}", False,
                   f"Duration inherits timedelta.__reduce__, which rebuilds from (days, seconds, microseconds) only: "
                   f"{comp} are folded into days and come back as 0", m.rel)
        return
    rfn = meths.get("__reduce__") or meths["__reduce_ex__"]
    r = core.returns(rfn)
    if len(r) != 1 or not isinstance(r[0].value, ast.Tuple):
        ctx.unverified("STATE-COMPLETE", "Duration.__reduce__", "unrecognised form", m.loc(rfn))
        return
    callee, state = r[0].value.elts[:2]
    ctx.ob("STATE.class", "Duration.__reduce__/callable", nun(callee) == "self.__class__", f"`{nun(callee)}`", m.loc(rfn))
    try:
        st = _state_tuple(m, "Duration", "_getstate") if nun(state).startswith("self._getstate(") else \
            [nun(e) for e in state.elts] if isinstance(state, ast.Tuple) else None
    except core.Unsupported:
        st = None
    if st is None:
        ctx.unverified("STATE-COMPLETE", "Duration.__reduce__", f"state `{nun(state)}`", m.loc(rfn))
        return
    carried = dict(zip(DUR_CTOR, st))
    for comp, acc in DUR_ACC.items():
        got = carried.get(comp)
        ctx.ob("STATE-COMPLETE", f"Duration.pickle/{comp}", got == acc,
               f"pickle state binds constructor parameter {comp} to `{got}`; must be {acc}", m.loc(rfn))
    ms = carried.get("milliseconds")
    ctx.ob("STATE-COMPLETE", "Duration.pickle/milliseconds", ms in ("0", None), f"milliseconds={ms}; already contained in microseconds", m.loc(rfn),
           nontrivial=False)


def _interval(ctx) -> None:
    m = pmod("interval")
    try:
        fn, callee, state = _reduce_target(m, "Interval", "_getstate")
    except core.Unsupported as e:
        ctx.unverified("STATE-COMPLETE", "Interval.__reduce_ex__", str(e), m.rel)
        return
    ctx.ob("STATE.class", "Interval.__reduce_ex__/callable", nun(callee) == "self.__class__", f"`{nun(callee)}`", m.loc(fn))
    gs = m.func("Interval._getstate")
    src = [nun(s) for s in core.body_no_doc(gs)]
    want = ["start, end = (self.start, self.end)", "if self._invert and self._absolute:\n    end, start = (start, end)",
            "return (start, end, self._absolute)"]
    ctx.ob("STATE-COMPLETE", "Interval._getstate", src == want,
           f"{src}; the state must be (start, end, absolute) with the absolute swap undone so that the constructor swaps again",
           m.loc(gs))
    params = core.params(m.func("Interval.__new__"))
    ctx.ob("STATE-COMPLETE", "Interval.__new__/signature", params == ["start", "end", "absolute"], f"{params}", m.rel)
    # swap in __init__ that _getstate undoes
    from . import C06
    C06.init_tabulate(ctx)
    init = m.func("Interval.__init__")
    ifs = [n for n in core.walk_fn(init) if isinstance(n, ast.If) and nun(n.test) in ("start > end", "_is_after(start, end)")]
    ok = len(ifs) == 1 and nun(ifs[0]) == (f"if {nun(ifs[0].test)}:\n    self._invert = True\n    if absolute:\n        end, start = (start, end)\n"
                                           "        _end, _start = (_start, _end)")
    ctx.ob("STATE-COMPLETE", "Interval.__init__/swap", ok, "the swap recorded by _invert/_absolute is the one _getstate undoes", m.loc(init))
    # deepcopy
    meths = m.methods("Interval")
    if "__deepcopy__" not in meths:
        dm = pmod("duration")
        dc = dm.func("Duration.__deepcopy__")
        calls = [c for c in core.calls(dc) if nun(c.func) == "self.__class__"]
        kws = [k.arg for c in calls for k in c.keywords]
        bad = [k for k in kws if k not in params]
        ctx.ob("CTOR-LSP", "Interval inherits Duration.__deepcopy__", not bad,
               f"the inherited __deepcopy__ calls self.__class__({', '.join(kws)}) but Interval.__new__ takes {tuple(params)}: "
               f"copy.deepcopy(interval) raises TypeError", dm.loc(dc))
    else:
        fn = meths["__deepcopy__"]
        r = core.returns(fn)
        ok = False
        detail = "unrecognised"
        if len(r) == 1 and isinstance(r[0].value, ast.Call) and nun(r[0].value.func) == "self.__class__":
            args = [nun(a) for a in r[0].value.args]
            env = {}
            whole = False
            for n in core.walk_fn(fn):
                if isinstance(n, ast.Assign) and isinstance(n.targets[0], ast.Tuple) and nun(n.value) == "self._getstate()":
                    for i, e in enumerate(n.targets[0].elts):
                        env[nun(e)] = ["<start>", "<end>", "<absolute>"][i]
                elif isinstance(n, ast.Assign) and isinstance(n.targets[0], ast.Tuple) and isinstance(n.value, ast.Call) \
                        and nun(n.value.func) == "copy.deepcopy" and n.value.args and nun(n.value.args[0]) == "self._getstate()":
                    # the whole (start, end, absolute) state is deep-copied at once
                    for i, e in enumerate(n.targets[0].elts):
                        env[nun(e)] = ["<start>", "<end>", "<absolute>"][i]
                    whole = True
            import re
            res = [re.sub(r"\b(\w+)\b", lambda mo: env.get(mo.group(1), mo.group(1)), a) for a in args]
            detail = f"self.__class__({', '.join(res)})"
            ok = len(res) == 3 and "<start>" in res[0] and "<end>" in res[1] and res[2] == "<absolute>" and \
                "<end>" not in res[0] and "<start>" not in res[1]
        ctx.ob("STATE-COMPLETE", "Interval.__deepcopy__", ok, f"{detail}; must rebuild (start, end, absolute) from _getstate()", m.loc(fn))


def _fixed_timezone(ctx) -> None:
    m = pmod("tz.timezone")
    fn = m.func("FixedTimezone.__getinitargs__")
    r = core.returns(fn)
    params = core.params(m.func("FixedTimezone.__init__"))
    init = m.func("FixedTimezone.__init__")
    attrs = {}
    for st in core.walk_fn(init):
        if isinstance(st, ast.Assign) and un(st.targets[0]).startswith("self."):
            attrs[un(st.targets[0])] = nun(st.value)
    got = [nun(e) for e in r[0].value.elts] if len(r) == 1 and isinstance(r[0].value, ast.Tuple) else None
    ok = got is not None and len(got) == len(params) and all(attrs.get(g) == p for g, p in zip(got, params))
    ctx.ob("STATE-COMPLETE", "FixedTimezone.__getinitargs__", ok,
           f"returns {got} for __init__{tuple(params)} (attributes {attrs}); each init argument must come back from the "
           f"attribute that stores it", m.loc(fn))


def run(ctx) -> None:
    ctx.explanation = EXPLANATION
    ctx.step(_temporal_tabulate, ctx)
    ctx.step(_fixed_timezone_state, ctx)
    ctx.step(_temporal, ctx, "datetime", "DateTime", "_getstate", F7)
    ctx.step(_temporal, ctx, "time", "Time", "_get_state", recon.TIME_F)
    ctx.step(_deepcopy_temporal, ctx)
    ctx.step(_duration, ctx)
    ctx.step(_interval, ctx)
    ctx.step(_fixed_timezone, ctx)
    # Date / Timezone must not define a partial hand-written path
    for modname, cls in (("date", "Date"), ("tz.timezone", "Timezone")):
        m = pmod(modname)
        hand = {"__reduce__", "__reduce_ex__", "__deepcopy__", "__copy__", "__getstate__"} & set(m.methods(cls))
        ctx.ob("STATE.inherited", f"{cls}", not hand, f"{cls} defines {sorted(hand)}; it is expected to rely on the complete reduce of its C base",
               m.rel, nontrivial=False)
    ctx.expect_min("STATE-COMPLETE", 22)
    ctx.expect_min("STATE-COMPLETE.tabulated", 2)
    ctx.expect_min("DEEPCOPY", 9)
    ctx.assumptions += ["date.__reduce__/ZoneInfo.__reduce__/tzinfo.__reduce__ (C) are complete for their own state and class-preserving",
                        "copy.copy uses __reduce_ex__(4) when the class defines it"]
