"""C04 — calendar-unit arithmetic with end-of-month clamping."""
from __future__ import annotations

import ast

from .. import cfg, core
from ..core import nun, pmod, un
from ..rules import addduration as AD
from ..rules import recon

EXPLANATION = (
    "Decided statically: (1) add_duration shifts year/month, fixes the month overflow, clamps the day with the "
    "post-overflow year/month, installs them with replace() and only then adds the timedelta (weeks folded x7); "
    "(2) DateTime.add's calendar branch re-creates the wall time through create(tz=self.tz); Date.add rebuilds "
    "both ways without loss; (3) subtract() negates every unit (DateTime and Date); (4) for every kind of "
    "operand the `- delta` helper passes subtract() exactly the components the `+ delta` helper passes add() "
    "(so dt - d == dt + (-d) == dt.subtract(d's components)); each Duration arm covers all components; "
    "(5) Duration.__neg__ negates each stored component once and _signature records every constructor "
    "argument; (6) every constructor in the Duration hierarchy that does not chain to Duration.__new__ sets "
    "the private attributes the operator helpers read. NOT decided: the clamp table values (C15), "
    "normalisation in gaps/overlaps (C02)."
    ' Also: the DAYS_PER_MONTHS rows / is_leap rule the clamp relies on, and the weeks/remaining_days breakdown of Duration.__new__ that `+ Duration` consumes.'
    ' As built: ADD.tabulated and SHIFT.tabulated (see C03) decide add_duration and DateTime.add/Date.add on values; the operand-kind arms of + and - are read off function leaves.'
)

COMP = {  # add()/subtract() parameter -> Duration accessor
    "years": "years", "months": "months", "weeks": "weeks", "days": "remaining_days", "hours": "hours",
    "minutes": "minutes", "seconds": "remaining_seconds", "microseconds": "microseconds",
}
SUPER = {"pendulum.Interval": "pendulum.Duration", "Interval": "Duration"}


def ladder(m: core.Mod, qual: str) -> list[tuple[str, str, dict[str, str] | str]]:
    """[(operand kind: 'pendulum.Interval' | 'pendulum.Duration' | 'plain', method called, {kw: expr} | '**expr')]: what the helper
    calls for an operand of exactly that kind, read off the leaves of the function (pvs/sem.py: the way the branches are
    written - elif ladder, early returns, a helper building the keyword mapping - does not matter); arguments equal to the
    0 default of add()/subtract() are left out."""
    from .. import sem
    fn = m.func(qual)
    dp = core.params(fn)[0]
    try:
        arms = sem.call_arms(m, qual)
    except sem.Giveup as e:
        raise core.Unsupported(f"{qual}: {e}")
    out = []
    for kind, assign in (("pendulum.Interval", {"Interval": True, "Duration": True}), ("pendulum.Duration", {"Interval": False, "Duration": True}),
                         ("plain", {"Interval": False, "Duration": False})):
        want = {f"isinstance({dp}, {c})": v for c, v in assign.items()}
        # the negated operand is of the operand's class (timedelta.__neg__; Duration.__neg__ / Interval.__neg__ build self.__class__)
        want.update({f"isinstance(-1*{dp}, {c})": v for c, v in assign.items()})
        hit = [a for a in arms if sem.conds_compatible(a[0], want)]
        if not hit:
            continue
        if len(hit) > 1:
            raise core.Unsupported(f"{qual}: {len(hit)} outcomes for a {kind} operand (conditions other than the operand's class)")
        _, callee, kws, star = hit[0]
        kws = {k: v for k, v in kws.items() if v != "0"}
        if star is not None and not kws:
            args: dict[str, str] | str = "**" + star
        else:
            args = dict(kws)
            if star is not None:
                args["**"] = star
        out.append((kind, callee, args))
    return out


def _arm_for(lad, klass: str):
    k = klass
    while k:
        for a in lad:
            if a[0] == k:
                return a
        k = SUPER.get(k, "")
    for a in lad:
        if a[0] == "plain":
            return a
    return None


def _delta_tabulate(ctx, m: core.Mod, cls: str, addq: str, subq: str, units: list[str]) -> bool | None:
    """DELTA.tabulated: the `+ delta` / `- delta` helpers run by the checker's interpreter with the three kinds of operand - an Interval stub
    and a Duration stub whose eight components, native days / seconds and recorded constructor arguments are all distinct numbers, a
    native timedelta - on an instance stub whose add() / subtract() record what they are given.  Expected: the `+` helper calls add(),
    the `-` helper subtract(), both with the same amounts: the operand's own components for an Interval (its constructor arguments are
    the elapsed length, not the calendar components) and for a Duration (DateTime: its components or the arguments it was built from),
    the elapsed length for a native timedelta (DateTime: in clock units only; Date: its days)."""
    import datetime as _dt
    from ..rules import minieval
    from ..rules.minieval import ClassStub, Obj, Stub
    vals = dict(zip(COMP, (1, 2, 3, 4, 5, 6, 7, 8)))
    comp = {u: vals[u] for u in units}
    given = {u: 10 + vals[u] for u in units}                  # what the Duration was built from (Duration._signature)
    elapsed = {"years": 0, "months": 0, "weeks": 0, "days": 99, "hours": 0, "minutes": 0, "seconds": 98, "microseconds": 97}
    meths = m.methods(cls, inherited=True) if cls == "Date" else {**pmod("date").methods("Date", inherited=True), **m.methods(cls, inherited=True)}
    props = {k for k, f in meths.items() if any(core.dotted(d) == "property" for d in f.decorator_list)}
    funcs = {st.name: st for st in m.top() if isinstance(st, ast.FunctionDef)}
    native = _dt.timedelta(days=2, seconds=5, microseconds=7)

    def private(kind, acc, k):
        """the private fields Duration.__new__ leaves: for a Duration its own breakdown; for an Interval that of the elapsed length it hands to
        Duration.__new__ (its calendar components live in its PreciseDiff and are only reached through the public properties)"""
        if kind == "Interval":
            return {"_years": 0, "_months": 0, "_weeks": 99 * k // 7 if k > 0 else -(99 * -k // 7), "_remaining_days": (99 % 7) * k, "_days": 99 * k, "_seconds": 98 * k, "_microseconds": 97 * k}
        return {"_years": acc["years"], "_months": acc["months"], "_weeks": acc["weeks"], "_remaining_days": acc["remaining_days"],
                "_days": acc["weeks"] * 7 + acc["remaining_days"], "_seconds": acc["hours"] * 3600 + acc["minutes"] * 60 + acc["remaining_seconds"], "_microseconds": acc["microseconds"]}

    def operand(kind, k=1, rebuilt=False):
        if kind == "timedelta":
            return native * k
        acc = {COMP[u]: v * k for u, v in vals.items()}
        if kind == "Duration" and rebuilt:
            # a Duration that went through __neg__ / __mul__ was rebuilt from its stored components: that is what it was "built from"
            sig = {"years": acc["years"], "months": acc["months"], "weeks": acc["weeks"], "days": acc["remaining_days"], "hours": 0, "minutes": 0,
                   "seconds": acc["hours"] * 3600 + acc["minutes"] * 60 + acc["remaining_seconds"], "microseconds": acc["microseconds"]}
            sig = {u: v for u, v in sig.items() if u in units}
        elif kind == "Duration":
            sig = {u: v * k for u, v in given.items()}
        else:
            sig = {u: v * k for u, v in elapsed.items() if u in units}
        # (negation / scaling by an integer give an operand of the same kind with every amount scaled: Duration.__neg__ / __mul__, C10)
        return Stub(_kind=kind, _types=(_dt.timedelta,), _truth=True, days=99 * k, seconds=98 * k, total_seconds=lambda: (99 * 86400 + 98.000097) * k, _total=(99 * 86400 + 98.000097) * k,
                    _signature=sig, **acc, **private(kind, acc, k), _neg=lambda: operand(kind, -k, True),
                    _mul=lambda j: operand(kind, k * j, True) if isinstance(j, int) else (_ for _ in ()).throw(core.Unsupported("operand scaled by a non-integer")))
    glob = {**minieval.module_consts(m), "timedelta": _dt.timedelta, "datetime": Stub(timedelta=_dt.timedelta, datetime=_dt.datetime, date=_dt.date), "date": _dt.date,
            "TypeError": TypeError, "ValueError": ValueError,
            "pendulum": Stub(Interval=ClassStub(_new=None, _isa=lambda v: getattr(v, "_kind", None) == "Interval"),
                             Duration=ClassStub(_new=None, _isa=lambda v: getattr(v, "_kind", None) in ("Interval", "Duration")))}
    glob["Interval"], glob["Duration"] = glob["pendulum"].Interval, glob["pendulum"].Duration
    bad, n = [], 0

    def norm(kw):
        """amounts as add() / subtract() take them: weeks are seven days, the clock units one fixed length"""
        if not all(isinstance(v, (int, float)) for v in kw.values()) or set(kw) - set(COMP):
            return ("?", sorted(kw.items(), key=str))
        return (kw.get("years", 0), kw.get("months", 0), kw.get("weeks", 0) * 7 + kw.get("days", 0),
                ((kw.get("hours", 0) * 60 + kw.get("minutes", 0)) * 60 + kw.get("seconds", 0)) * 10**6 + kw.get("microseconds", 0))
    try:
        for kind in ("Interval", "Duration", "timedelta", "timedelta (negative, with a part of a day)", "timedelta (negative, with a part of a second)"):
            if kind.startswith("timedelta"):
                # (standard library: date + timedelta shifts by timedelta.days, which rounds toward minus infinity; the seconds / microseconds fields of a
                # negative timedelta belong to that floored form: -1.5 s is days=-1, seconds=86398, microseconds=500000)
                native = _dt.timedelta(days=2, seconds=5, microseconds=7) if kind == "timedelta" else _dt.timedelta(days=-2, seconds=5) if "day" in kind else _dt.timedelta(seconds=-1, microseconds=-500000)
            seen = {}
            for q, verb in ((addq, "add"), (subq, "subtract")):
                calls = []
                me = Obj(_methods=meths, _props=props, _natives={}, _ctor=ClassStub(_new=None, _isa=lambda v: False, _methods=lambda: meths),
                         add=lambda *a, **k: (calls.append(("add", a, k)), Stub(_result=len(calls)))[1],
                         subtract=lambda *a, **k: (calls.append(("subtract", a, k)), Stub(_result=len(calls)))[1])
                got = minieval.call(meths[q], [me, native if kind.startswith("timedelta") else operand(kind)], {}, {**funcs, "$globals": dict(glob)})
                n += 1
                label = f"{cls}.{q}(<{kind}>)"
                if len(calls) != 1 or getattr(got, "_result", None) != 1 or calls[0][1]:
                    raise core.Unsupported(f"{label} does not return one add() / subtract() call with keyword amounts")
                name, _, kw = calls[0]
                kw = {k: v for k, v in kw.items() if v != 0}
                if name != verb and all(isinstance(v, (int, float)) for v in kw.values()):
                    # add(-x) for subtract(x) (or the reverse): the same shift - compared in the verb of the helper
                    name, kw = verb, {k: -v for k, v in kw.items()}
                seen[verb] = kw
                if name != verb:
                    bad.append(f"{label} goes through {name}() instead of {verb}()")
                    continue
                if kind.startswith("timedelta"):
                    if cls == "Date":
                        ok = _dt.timedelta(**{k: v for k, v in kw.items() if k in ("weeks", "days")}) == _dt.timedelta(days=native.days) and set(kw) <= {"weeks", "days"}
                        want = f"days={native.days}"
                    else:
                        ok = set(kw) <= {"hours", "minutes", "seconds", "microseconds"} and _dt.timedelta(**kw) == native
                        want = f"its elapsed length in clock units (seconds={native.total_seconds()})"
                elif kind == "Interval":
                    ok, want = norm(kw) == norm(comp), f"its components {comp}"
                else:
                    ok = norm(kw) == norm(comp) or (cls == "DateTime" and norm(kw) == norm(given))
                    want = f"its components {comp}" + (f" or the arguments it was built from {given}" if cls == "DateTime" else "")
                if not ok:
                    bad.append(f"{label} passes {kw}; a {kind} operand stands for {want}")
            if len(seen) == 2 and norm(seen["add"]) != norm(seen["subtract"]):
                bad.append(f"for a {kind} operand `+` passes add({seen['add']}) but `-` passes subtract({seen['subtract']})")
    except (core.Unsupported, KeyError, TypeError, AttributeError, ValueError, IndexError, RecursionError, minieval.Raised) as e:
        ctx.unverified("DELTA.tabulated", f"{cls}.{subq}", f"outside the checker's interpreter: {type(e).__name__}: {str(e)[:160]}", m.loc(m.func(f"{cls}.{subq}")))
        return None
    ctx.ob("DELTA.tabulated", f"{cls}.{addq} / {subq}", not bad, f"{n} (helper, operand kind) calls: " + (f"wrong: {bad[:3]}" if bad else
           "add() / subtract() receive the operand's own components (Interval, Duration) or its elapsed length (native timedelta), the same for + and -"),
           m.loc(m.func(f"{cls}.{subq}")))
    if not bad:
        ctx.established(("SIBLING", "TDARM"), f"{cls}.{addq}", "DELTA.tabulated")
        ctx.established(("SIBLING", "TDARM"), f"{cls}.{subq}", "DELTA.tabulated")
    return not bad


def _siblings(ctx, m: core.Mod, cls: str, addq: str, subq: str, units: list[str]) -> None:
    _delta_tabulate(ctx, m, cls, addq, subq, units)
    try:
        la, ls = ladder(m, f"{cls}.{addq}"), ladder(m, f"{cls}.{subq}")
    except core.Unsupported as e:
        ctx.unverified("SIBLING.arms", f"{cls}.{subq}", str(e), m.loc(m.func(f"{cls}.{subq}")))
        return
    dp = core.params(m.func(f"{cls}.{addq}"))[0]
    kinds = ["pendulum.Interval", "pendulum.Duration", "plain"]
    for k in kinds:
        a, s = _arm_for(la, k), _arm_for(ls, k)
        if a is None or s is None:
            ctx.ob("SIBLING.arms", f"{cls}.{subq}/{k}", False, f"no arm handles {k} (add: {a}, subtract: {s})",
                   m.loc(m.func(f"{cls}.{subq}")))
            continue
        name = k.split(".")[-1]
        ctx.ob("SIBLING.method", f"{cls}.{addq}/{name}-arm", a[1] == "self.add", f"calls {a[1]}", m.loc(m.func(f"{cls}.{addq}")),
               nontrivial=False)
        ctx.ob("SIBLING.method", f"{cls}.{subq}/{name}-arm", s[1] == "self.subtract",
               f"calls {s[1]}; the `-` helper must go through subtract()", m.loc(m.func(f"{cls}.{subq}")))
        ctx.ob("SIBLING.arms", f"{cls}.{subq}/{name}-arm", a[2] == s[2],
               f"for a {name} operand `+` passes add({a[2]}) but `-` passes subtract({s[2]}); they must take the "
               f"same components so that dt - d == dt + (-d) == dt.subtract(<d's components>)",
               m.loc(m.func(f"{cls}.{subq}")))
        # component completeness of each arm
        for which, arm, q in (("add", a, addq), ("sub", s, subq)):
            if k == "plain":
                continue
            args = arm[2]
            if isinstance(args, str):
                ok = args == f"**{dp}._signature" and k != "pendulum.Interval"
                ctx.ob("SIBLING.components", f"{cls}.{q}/{name}-arm", ok,
                       f"passes {args}" + ("; an Interval's calendar components live in its PreciseDiff, not in "
                                           "_signature" if k == "pendulum.Interval" else ""),
                       m.loc(m.func(f"{cls}.{q}")))
            else:
                want = {u: f"{dp}.{COMP[u]}" for u in units}
                ctx.ob("SIBLING.components", f"{cls}.{q}/{name}-arm", args == want,
                       f"passes {args}; a {name}'s components are {want}", m.loc(m.func(f"{cls}.{q}")))


def _neg_and_signature(ctx) -> None:
    m = pmod("duration")
    neg = m.func("Duration.__neg__")
    r = core.returns(neg)
    if len(r) != 1 or not isinstance(r[0].value, ast.Call):
        ctx.unverified("NEG.components", "Duration.__neg__", "unrecognised form", m.loc(neg))
    else:
        c = r[0].value
        k = {a: nun(v) for a, v in core.kw(c).items()}
        full = {"years": "-self._years", "months": "-self._months", "weeks": "-self._weeks",
                "days": "-self._remaining_days", "seconds": "-self._seconds", "microseconds": "-self._microseconds"}
        alt = {"years": "-self._years", "months": "-self._months", "days": "-self._days",
               "seconds": "-self._seconds", "microseconds": "-self._microseconds"}
        ok = nun(c.func) == "self.__class__" and not c.args and k in (full, alt)
        ctx.ob("NEG.components", "Duration.__neg__", ok,
               f"__neg__ builds {nun(c.func)}({k}); every stored component (years, months, weeks+remaining days, "
               f"seconds, microseconds) must be negated exactly once", m.loc(c))
    new = m.func("Duration.__new__")
    sig = None
    for n in core.walk_fn(new):
        if isinstance(n, ast.Assign) and nun(n.targets[0]) == "self._signature":
            sig = n.value
    if not isinstance(sig, ast.Dict):
        ctx.unverified("SIGNATURE", "Duration.__new__", "_signature dict literal not found", m.loc(new))
        return
    got = {nun(k_): nun(v) for k_, v in zip(sig.keys, sig.values)}
    want = {repr(u): u for u in AD.ADD_PARAMS}
    us = got.pop("'microseconds'", None)
    want.pop("'microseconds'")
    ctx.ob("SIGNATURE", "Duration._signature/units", got == want,
           f"_signature = {got}; must record every add() unit under its own constructor argument", m.loc(sig))
    ctx.ob("SIGNATURE", "Duration._signature/microseconds",
           us in ("microseconds + milliseconds * 1000", "milliseconds * 1000 + microseconds"),
           f"microseconds entry is `{us}`; add() has no milliseconds parameter, so it must be "
           f"microseconds + milliseconds * 1000", m.loc(sig))


def _init_complete(ctx) -> None:
    """Private attributes read from a Duration operand by the DateTime/Date helpers
    must be assigned by every __new__ that does not chain to Duration.__new__."""
    dm = pmod("duration")
    readers = [(pmod("datetime"), "DateTime._add_timedelta_"), (pmod("datetime"), "DateTime._subtract_timedelta"),
               (pmod("date"), "Date._add_timedelta"), (pmod("date"), "Date._subtract_timedelta")]
    private: set[str] = set()
    for m, q in readers:
        fn = m.func(q)
        dp = core.params(fn)[0]
        for n in core.walk_fn(fn):
            if isinstance(n, ast.Attribute) and nun(n.value) == dp and n.attr.startswith("_") and not n.attr.startswith("__"):
                private.add(n.attr)
        try:        # ... and the ones a helper of the function reads for it (seen in the outcomes of the function)
            import re as _re
            for _, _, args in ladder(m, q):
                for txt in ([args] if isinstance(args, str) else args.values()):
                    private.update(_re.findall(rf"\b{dp}\.(_[A-Za-z]\w*)", txt))
        except core.Unsupported:
            pass
    ctx.count("private_attrs_read", len(private))
    for cls, home in (("Duration", dm), ("AbsoluteDuration", dm), ("Interval", pmod("interval"))):
        if "__new__" not in home.methods(cls):
            continue
        new = home.methods(cls)["__new__"]
        chains = any(nun(c.func) in ("super().__new__", "Duration.__new__") for c in core.calls(new))
        assigned = {n.targets[0].attr for n in core.walk_fn(new)
                    if isinstance(n, ast.Assign) and isinstance(n.targets[0], ast.Attribute)
                    and nun(n.targets[0].value) == "self"}
        for n in core.walk_fn(new):
            if isinstance(n, ast.Assign) and isinstance(n.targets[0], ast.Tuple):
                for e in n.targets[0].elts:
                    if isinstance(e, ast.Attribute) and nun(e.value) == "self":
                        assigned.add(e.attr)
        # ... and what the private methods the constructor calls on the new instance assign (self._helper(...), transitively)
        allm = home.methods(cls, inherited=True)
        todo, seen_m = [new], set()
        while todo:
            f_ = todo.pop()
            for c in core.calls(f_):
                if isinstance(c.func, ast.Attribute) and nun(c.func.value) == "self" and c.func.attr in allm and c.func.attr not in seen_m:
                    seen_m.add(c.func.attr)
                    h_ = allm[c.func.attr]
                    me = h_.args.args[0].arg if h_.args.args else "self"
                    for n in core.walk_fn(h_):
                        tg = n.targets if isinstance(n, ast.Assign) else [n.target] if isinstance(n, (ast.AnnAssign, ast.AugAssign)) else []
                        for t in tg:
                            for e in (t.elts if isinstance(t, ast.Tuple) else [t]):
                                if isinstance(e, ast.Attribute) and nun(e.value) == me:
                                    assigned.add(e.attr)
                    if me == "self":
                        todo.append(h_)
        class_level = {t.id for st in home.cls(cls).body if isinstance(st, (ast.Assign, ast.AnnAssign))
                       for t in ([st.target] if isinstance(st, ast.AnnAssign) else st.targets) if isinstance(t, ast.Name)}
        for a in sorted(private):
            ok = chains or a in assigned
            ctx.ob("INIT-COMPLETE", f"{cls}.__new__/{a}", ok,
                   f"{cls}.__new__ {'chains to Duration.__new__' if chains else 'builds the value itself'}; "
                   f"`{a}` (read by the +/- helpers under isinstance(delta, Duration)) is "
                   f"{'set' if ok else 'never set'}" + (" (only a class-level default exists)" if a in class_level and not ok else ""),
                   home.loc(new))


def run(ctx) -> None:
    ctx.explanation = EXPLANATION
    dtm, dm = pmod("datetime"), pmod("date")
    ctx.step(AD.month_clamp_order, ctx)
    from . import C15
    ctx.step(C15.clamp_dependencies, ctx)
    from . import C09
    ctx.step(C09._duration_new, ctx)      # `+ Duration` shifts by d.years/months/weeks/remaining_days: the breakdown computed in Duration.__new__
    ctx.step(AD.carry_blocks, ctx)
    ctx.step(AD.datetime_add_shape, ctx)
    ctx.step(AD.neg_symmetry, ctx, dtm, "DateTime")
    ctx.step(AD.neg_symmetry, ctx, dm, "Date")
    # Date.add: rebuild both ways + forwarding
    fn = dm.func("Date.add")
    for c in core.calls(fn):
        if nun(c.func) == "add_duration":
            k = {a: nun(v) for a, v in core.kw(c).items()}
            ctx.ob("ADD.forward", "Date.add/add_duration", k == {p: p for p in core.params(fn)} and len(c.args) == 1,
                   f"add_duration receives {k}", dm.loc(c))
    for s in recon.sites_in(dm, ["Date.add"]):
        recon.check_site(ctx, s)
    ctx.step(_siblings, ctx, dtm, "DateTime", "_add_timedelta_", "_subtract_timedelta", AD.ADD_PARAMS)
    ctx.step(_siblings, ctx, dm, "Date", "_add_timedelta", "_subtract_timedelta", ["years", "months", "weeks", "days"])
    from . import C10
    ctx.step(C10._arith_tabulate, ctx)       # `- Duration` goes through Duration.__neg__: decided on values (every stored component negated) before the way it is written
    ctx.step(_neg_and_signature, ctx)
    ctx.step(_init_complete, ctx)
    ctx.expect_min("ORDER.clamp", 6)
    ctx.expect_min("SIBLING.arms", 6)
    ctx.expect_min("NEGSYM", 14)
    ctx.expect_min("INIT-COMPLETE", 3)
