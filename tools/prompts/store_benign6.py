import json, subprocess, glob, os, shutil, tempfile
# where the first evaluation raised an alarm under another property than the one the refactoring was written for
extra = {"C04-v1":["C09","C13","C20"],"C20-v1":["C04","C09","C13"],"C05-v1":["C06","C14"],"C07-v1":["C02"],"C13-v1":["C17"],"C14-v1":["C09","C18","C20"],"C18-v1":["C09","C14","C20"],"C15-v1":["C08","C16"],"C02-v1":["C01","C11"]}
first = {"C03-v1":"C03 TDARM.plain (keyword arguments from a NamedTuple's _asdict())","C04-v1":"C04 / C09 / C13 / C20 DIVMOD.sign, DIVMOD.pair (breakdown by a helper returning a NamedTuple)","C20-v1":"C04 / C09 / C13 / C20 DIVMOD.*, UNITS.new (the same, shared by both constructors)",
         "C05-v1":"C06 INTERVAL.delta, C14 STATE-COMPLETE Interval.__init__/swap (end points as NamedTuple pairs)","C07-v1":"C02 FRACTION py:parse_iso8601 (time of day parsed by a helper)","C08-v1":"C08 MERIDIEM parse/meridiem (12-hour conversion in a static method)",
         "C10-v1":"C10 DUNDER.guard (operand-type guards hoisted into a decorator factory)","C12-v1":"C12 WEEK.setter (both setters through one helper using setattr)","C13-v1":"C13 / C17 ATTRS.rust-to-py, CAST-UNION, UNBOUNDED-INT.sources (interval branch in a helper, validation as a method of the record class)",
         "C16-v1":"C16 DISPATCH.units (unit tuple and error template at module level, try / except / else in nth_of)"}
n=0
for d in sorted(glob.glob('/tmp/wt/V[0-9][0-9]/out/[0-9]*/')):
    pid = "C"+d.split('/')[3][1:]; k=d.split('/')[5]
    bid = f"{pid}-v{k}"
    tmp = tempfile.mkdtemp(prefix="pvs-store-")
    try:
        for sub in ("src/pendulum","rust/src"):
            shutil.copytree(f"/repo/{sub}", f"{tmp}/{sub}", ignore=shutil.ignore_patterns("*.so","__pycache__"))
        subprocess.run(["git","init","-q","."],cwd=tmp); subprocess.run(["git","add","-A"],cwd=tmp); subprocess.run(["git","-c","user.email=a@b","-c","user.name=x","commit","-qm","base"],cwd=tmp)
        r = subprocess.run(["git","apply",d+"patch.diff"],capture_output=True,text=True,cwd=tmp)
        if r.returncode: print(bid,"APPLY FAILED",r.stderr[:200]); continue
        diff = subprocess.run(["git","diff"],capture_output=True,text=True,cwd=tmp).stdout
        dst=f"/verif/benign/{bid}"; os.makedirs(dst, exist_ok=True)
        open(dst+"/patch.diff","w").write(diff)
        meta = json.load(open(d+"meta.json"))
        if os.path.exists(d+"equiv.py"): shutil.copy(d+"equiv.py", dst+"/equiv.py")
        out = {"property": pid, "round": 6, "kind": meta.get("kind"), "functions": meta.get("functions"), "why_equivalent": meta.get("why_equivalent"), "env": meta.get("env") or {},
               "author": "independent sub-agent given only the property text, the earlier refactorings to avoid, and a private worktree (nothing from /verif); asked for structural behaviour-preserving refactorings of a whole area of a file (NamedTuple results of helpers, decorators, closures, try / else, chained comparisons, %-formatting, module-level tuples driving loops)",
               "verified_by_author": meta.get("verified"), "also_run_under": extra.get(bid, []), "first_evaluation": first.get(bid, "quiet"),
               "expected": "every check stays quiet (exit 0, no VIOLATION, no ANALYSIS-ERROR); UNVERIFIED lines are acceptable"}
        json.dump(out, open(dst+"/meta.json","w"), indent=1)
        n+=1
    finally:
        shutil.rmtree(tmp, ignore_errors=True)
print("stored",n)
