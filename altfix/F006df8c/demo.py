"""
pendulum.instance() of an aware datetime must denote the same instant
(and show the UTC offset the zone has at that instant), whatever way
the foreign tzinfo has of storing its offset.
"""
import datetime
import sys

from zoneinfo import ZoneInfo

import pendulum

failures = []
utc = datetime.timezone.utc


class PytzLike(datetime.tzinfo):
    """
    What pytz does, with the standard library only: one tzinfo object per
    (zone, offset) pair; the offset lives in the object, fold is never used.
    """

    def __init__(self, zone, offset_hours, name):
        self.zone = zone
        self._offset = datetime.timedelta(hours=offset_hours)
        self._name = name

    def localize(self, dt):  # pytz API marker
        return dt.replace(tzinfo=self)

    def utcoffset(self, dt):
        return self._offset

    def dst(self, dt):
        return None

    def tzname(self, dt):
        return self._name


def check(label, dt, zone):
    got = pendulum.instance(dt)
    want_utc = dt.astimezone(utc)
    want_local = want_utc.astimezone(ZoneInfo(zone))
    got_fields = (got.year, got.month, got.day, got.hour, got.minute, got.second,
                  got.microsecond)
    want_fields = (want_local.year, want_local.month, want_local.day, want_local.hour,
                   want_local.minute, want_local.second, want_local.microsecond)
    if got.timezone_name != zone:
        failures.append(f"{label}: timezone {got.timezone_name}, expected {zone}")
    if got_fields != want_fields or got.utcoffset() != want_local.utcoffset():
        failures.append(
            f"{label}: got {got.isoformat()}, expected {want_local.isoformat()}"
        )
    # and as a plain instant
    if got.timestamp() != dt.timestamp():
        failures.append(f"{label}: timestamp {got.timestamp()} != {dt.timestamp()}")


EDT = PytzLike("US/Eastern", -4, "EDT")
EST = PytzLike("US/Eastern", -5, "EST")
# the repeated hour of 2013-11-03 in US/Eastern, both passes, and its surroundings
check("stdlib 00:30 EDT", datetime.datetime(2013, 11, 3, 0, 30, tzinfo=EDT), "US/Eastern")
check("stdlib 01:30 EDT", datetime.datetime(2013, 11, 3, 1, 30, tzinfo=EDT), "US/Eastern")
check("stdlib 01:30 EST", datetime.datetime(2013, 11, 3, 1, 30, tzinfo=EST), "US/Eastern")
check("stdlib 02:30 EST", datetime.datetime(2013, 11, 3, 2, 30, tzinfo=EST), "US/Eastern")
check("stdlib summer", datetime.datetime(2013, 7, 3, 1, 30, 5, 7, tzinfo=EDT), "US/Eastern")

# hand-computed: 01:30 EST on 2013-11-03 is 06:30 UTC
got = pendulum.instance(datetime.datetime(2013, 11, 3, 1, 30, tzinfo=EST))
if got.in_tz("UTC").to_datetime_string() != "2013-11-03 06:30:00":
    failures.append(f"01:30 EST in UTC: {got.in_tz('UTC')}")
if got.utcoffset() != datetime.timedelta(hours=-5):
    failures.append(f"01:30 EST offset: {got.utcoffset()}")

# zoneinfo input (offset selected by fold): both passes of the Paris repeated hour
paris = ZoneInfo("Europe/Paris")
for fold in (0, 1):
    check(f"zoneinfo 02:30 fold={fold}",
          datetime.datetime(2013, 10, 27, 2, 30, tzinfo=paris, fold=fold), "Europe/Paris")
check("zoneinfo normal", datetime.datetime(2013, 5, 27, 2, 30, tzinfo=paris), "Europe/Paris")

# the real pytz, when it is installed
try:
    import pytz
except ImportError:
    pytz = None

if pytz is not None:
    eastern = pytz.timezone("US/Eastern")
    for is_dst in (True, False):
        dt = eastern.localize(datetime.datetime(2013, 11, 3, 1, 30), is_dst=is_dst)
        check(f"pytz 01:30 is_dst={is_dst}", dt, "US/Eastern")
    check("pytz normal", eastern.localize(datetime.datetime(2013, 6, 3, 1, 30)), "US/Eastern")
    check("pytz now", datetime.datetime.now(pytz.timezone("Europe/Paris")), "Europe/Paris")

# naive input: unchanged, the fields are read in the given timezone
n = pendulum.instance(datetime.datetime(2013, 10, 27, 2, 30, fold=1), tz="Europe/Paris")
if n.isoformat() != "2013-10-27T02:30:00+01:00":
    failures.append(f"naive fold=1: {n.isoformat()}")
n = pendulum.instance(datetime.datetime(2013, 10, 27, 2, 30), tz="Europe/Paris")
if n.isoformat() != "2013-10-27T02:30:00+02:00":
    failures.append(f"naive fold=0: {n.isoformat()}")

if failures:
    print("\n".join(failures))
    sys.exit(1)
print("ok")
