"""from_format() with a quarter token next to a full date must keep the parsed date;
a quarter without a month still means the first day of that quarter.
Expected values: standard library datetime / hand-computed.  Exit 0 = right."""
import datetime as dt
import sys

import pendulum

failures = []


def check(label, got, want):
    if got != want:
        failures.append(f"{label}: got {got!r}, want {want!r}")


# headline case, hand-computed
p = pendulum.from_format(
    "2021-03-07 Q1 14:05:09.123456 +00:00", "YYYY-MM-DD [Q]Q HH:mm:ss.SSSSSS Z"
)
check(
    "headline",
    (p.year, p.month, p.day, p.hour, p.minute, p.second, p.microsecond, p.utcoffset()),
    (2021, 3, 7, 14, 5, 9, 123456, dt.timedelta(0)),
)

# round trip for every day of two years (one leap), several layouts holding a full date + quarter
formats = [
    "YYYY-MM-DD [Q]Q HH:mm:ss.SSSSSS Z",
    "Q YYYY-MM-DD",
    "YYYY [Q]Q MM DD",
    "DD/MM/YYYY Q",
    "D MMMM YYYY, [quarter] Q",
    "YY-M-D Q HH",
]
day = dt.date(2020, 1, 1)
while day < dt.date(2022, 1, 1):
    src = pendulum.datetime(day.year, day.month, day.day, 14, 5, 9, 123456)
    for fmt in formats:
        back = pendulum.from_format(src.format(fmt), fmt)
        check(f"{fmt!r} {day}", dt.date(back.year, back.month, back.day), day)
    day += dt.timedelta(days=1)

# quarter without a month: first day of the quarter (unchanged behaviour)
for q, month in ((1, 1), (2, 4), (3, 7), (4, 10)):
    back = pendulum.from_format(f"2021 {q}", "YYYY Q")
    check(f"YYYY Q -> {q}", (back.year, back.month, back.day), (2021, month, 1))
    back = pendulum.from_format(f"2021 {q} 17", "YYYY Q DD")
    check(f"YYYY Q DD -> {q}", (back.year, back.month, back.day), (2021, month, 1))
    back = pendulum.from_format(f"Q{q} 09:30", "[Q]Q HH:mm")
    this_year = dt.date.today().year
    check(f"[Q]Q HH:mm -> {q}", (back.year, back.month, back.day, back.hour, back.minute),
          (this_year, month, 1, 9, 30))

if failures:
    print(f"FAIL ({len(failures)})")
    for f in failures[:15]:
        print("  ", f)
    sys.exit(1)
print("OK")
