"""nth_of(unit, n, weekday) at the end of the calendar: a missing occurrence must raise
PendulumException (not OverflowError), an existing one must be returned.
Expected values are enumerated with the standard library (datetime.date)."""
import datetime as dt
import sys

import pendulum
from pendulum.exceptions import PendulumException

failures = []


def unit_days(day, unit):
    if unit == "month":
        months = [day.month]
    elif unit == "quarter":
        first = 3 * ((day.month - 1) // 3) + 1
        months = [first, first + 1, first + 2]
    else:
        months = list(range(1, 13))
    cur = dt.date(day.year, months[0], 1)
    one = dt.timedelta(days=1)
    while True:
        if cur.month in months:
            yield cur
        if cur == dt.date.max or (cur + one).year != day.year or (cur + one).month > months[-1]:
            return
        cur += one


def expected(day, unit, nth, weekday):
    hits = [d for d in unit_days(day, unit) if d.weekday() == weekday]
    return hits[nth - 1] if nth <= len(hits) else None


makers = {
    "Date": lambda y, m, d: pendulum.date(y, m, d),
    "DateTime UTC": lambda y, m, d: pendulum.datetime(y, m, d, 13, 30, 15),
    "DateTime Europe/Paris": lambda y, m, d: pendulum.datetime(y, m, d, 13, 30, 15, tz="Europe/Paris"),
}
cases = [
    (dt.date(9999, 12, 17), "month", range(1, 8)),
    (dt.date(9999, 12, 31), "month", range(1, 8)),
    (dt.date(9999, 10, 5), "quarter", range(1, 17)),
    (dt.date(9999, 12, 17), "quarter", range(1, 17)),
    (dt.date(9999, 1, 1), "year", [1, 2, 26, 51, 52, 53, 54, 60, 400]),
    (dt.date(9999, 12, 17), "year", [1, 2, 26, 51, 52, 53, 54, 60, 400]),
    # ordinary places in the calendar (regression)
    (dt.date(2024, 2, 10), "month", range(1, 8)),
    (dt.date(2023, 8, 31), "quarter", range(1, 17)),
    (dt.date(2024, 6, 1), "year", [1, 2, 26, 51, 52, 53, 54, 60]),
    (dt.date(9998, 12, 20), "month", range(1, 8)),
]
for name, make in makers.items():
    for day, unit, nths in cases:
        obj = make(day.year, day.month, day.day)
        for nth in nths:
            for weekday in range(7):
                want = expected(day, unit, nth, weekday)
                label = f"{name} {day} nth_of({unit!r}, {nth}, {weekday})"
                try:
                    got = obj.nth_of(unit, nth, pendulum.WeekDay(weekday))
                except PendulumException:
                    if want is not None:
                        failures.append(f"{label}: PendulumException, want {want}")
                    continue
                except Exception as e:  # OverflowError before the fix
                    failures.append(f"{label}: {type(e).__name__}: {e}, want {want or 'PendulumException'}")
                    continue
                if want is None:
                    failures.append(f"{label}: got {got}, want PendulumException")
                elif (got.year, got.month, got.day) != (want.year, want.month, want.day):
                    failures.append(f"{label}: got {got}, want {want}")
                elif name != "Date" and (got.hour, got.minute, got.second, got.microsecond) != (0, 0, 0, 0):
                    failures.append(f"{label}: got {got}, want midnight")

# hand-computed headline values: 9999-12-31 is a Friday
d = pendulum.date(9999, 12, 17)
if d.nth_of("month", 5, pendulum.FRIDAY) != dt.date(9999, 12, 31):
    failures.append("5th Friday of December 9999 must be 9999-12-31")
for unit, nth in (("month", 5), ("quarter", 14), ("year", 53)):
    for obj in (d, pendulum.datetime(9999, 12, 17, 8)):
        try:
            obj.nth_of(unit, nth, pendulum.MONDAY)
            failures.append(f"{type(obj).__name__} nth_of({unit!r}, {nth}, MONDAY): no exception")
        except PendulumException:
            pass
        except OverflowError as e:
            failures.append(f"{type(obj).__name__} nth_of({unit!r}, {nth}, MONDAY): OverflowError {e}")

if failures:
    print(f"FAIL ({len(failures)})")
    for f in failures[:15]:
        print("  ", f)
    sys.exit(1)
print("OK")
