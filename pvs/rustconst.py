"""Evaluator for `pub const NAME: T = expr;` items of rust/src/constants.rs."""
from __future__ import annotations

import ast
import re
from typing import Any

from . import core


def load(rel: str = "rust/src/constants.rs", strict: bool = True, env: dict[str, Any] | None = None) -> dict[str, Any]:
    p = core.REPO / rel
    if not p.exists():
        raise core.AnchorMissing(f"{rel} not found")
    text = re.sub(r"//.*", "", p.read_text())
    text = re.sub(r"#\[[^\]]*\]", "", text)
    out: dict[str, Any] = dict(env or {})
    for m in re.finditer(r"(?:pub(?:\([a-z]+\))? )?const (\w+)\s*:\s*([^=]+?)\s*=\s*(.*?);", text, re.S):
        name, _ty, expr = m.group(1), m.group(2), m.group(3)
        expr = re.sub(r"\s+as\s+\w+", "", expr)
        expr = re.sub(r"(?<=\d)_(?=[iu]\d+\b|usize\b|isize\b)", "", expr)
        expr = re.sub(r"(\d)(?:[iu](?:8|16|32|64|128)|usize|isize)\b", r"\1", expr)
        try:
            tree = ast.parse(expr.strip(), mode="eval").body
            out[name] = _ev(tree, out)
        except (SyntaxError, core.NotConst) as e:
            if strict:
                raise core.Unsupported(f"rust constant {name}: {e}")
    return out


def load_all() -> dict[str, Any]:
    """the literal constants of every module of the crate (constants.rs first: the others may refer to it); items that are not
    literal arithmetic are left out"""
    out = dict(load())
    for f in sorted((core.REPO / "rust/src").rglob("*.rs")):
        rel = str(f.relative_to(core.REPO))
        if rel.endswith("constants.rs"):
            continue
        try:
            for k, v in load(rel, strict=False, env=out).items():
                out.setdefault(k, v)
        except (core.AnchorMissing, core.Unsupported):
            continue
    return out


def _ev(n: ast.AST, env: dict[str, Any]) -> Any:
    if isinstance(n, ast.Constant):
        return n.value
    if isinstance(n, ast.Name):
        if n.id in env:
            return env[n.id]
        raise core.NotConst(n.id)
    if isinstance(n, (ast.List, ast.Tuple)):
        return tuple(_ev(e, env) for e in n.elts)
    if isinstance(n, ast.UnaryOp) and isinstance(n.op, ast.USub):
        return -_ev(n.operand, env)
    if isinstance(n, ast.BinOp):
        a, b = _ev(n.left, env), _ev(n.right, env)
        if isinstance(n.op, ast.Add):
            return a + b
        if isinstance(n.op, ast.Sub):
            return a - b
        if isinstance(n.op, ast.Mult):
            return a * b
        if isinstance(n.op, (ast.Div, ast.FloorDiv)):
            return a // b
        if isinstance(n.op, ast.Mod):
            return a % b
    raise core.NotConst(ast.unparse(n))
