"""C07 — ISO 8601 strings parse to the value they denote (structural clauses)."""
from __future__ import annotations

import ast
import re

from .. import cfg, core, mirfront, mirsym
from ..core import nun, pmod, un
from ..rules import recon
from ..rules.canon import Canon

EXPLANATION = (
    "Decided statically: (1) every search over the cumulative days-before-month table uses the comparison "
    "that the table's meaning requires - forward `first i with ordinal <= T[i]` giving (month i-1, day "
    "ordinal-T[i-1]) in the Python parser and in Rust ordinal_to_ymd (MIR), backward `day > T[m]` in both "
    "local_time implementations; (2) the week-date ordinal formula week*7 + weekday - (week_day(y,1,4)+3), the "
    "week/weekday range guards and the previous/next-year wrap are the same expressions in the Python parser and "
    "in the MIR of the Rust parser; (3) fractions are cut to 6 digits and right-padded in both; (4) the UTC "
    "offset is ((h*60)+m)*60 with the sign of the string in the Python parser, its clone in formatter.py and "
    "the Rust parser; (5) parser._parse / _normalize rebuild the parsed value field by field, exact=True returns "
    "it unchanged, both arms of the back-end switch bind the same names. NOT decided: the regex / recursive "
    "descent grammar as a whole, rejection of impossible dates (delegated to datetime)."
    " Also: the compiled parser tests the two date/time separators 'T' and ' ' together wherever it tests one, and skips the digits beyond the sixth at every fraction site."
    " As built (value rules on the compiled parser): RSISO.tabulated evaluates the MIR of python::parsing::parse_iso8601 and of everything it reaches (Parser::new / parse / parse_datetime / parse_time / parse_integer / iso_to_ymd / ordinal_to_ymd, the calendar helpers and tables) with the checker's MIR evaluator pvs/mirexec.py on the table of PYISO.tabulated; the pyo3 constructors stand for the standard library's date / time / datetime. Two strings are excluded with the reason (a year alone, a basic time without T: the compiled parser leaves them to parse()'s common fallback, with the same outcome in both back ends). RSWEEK.tabulated evaluates the path summaries of iso_to_ymd on (year, week, weekday) triples. In the offset tabulation a valid offset that no accepting path admits counts as rejected."
)


def E(can: Canon, src: str) -> str:
    return can.s(ast.parse(src, mode="eval").body)


def EC(can: Canon, src: str, pol: bool = True) -> tuple[str, bool]:
    return can.cond(ast.parse(src, mode="eval").body, pol)


def _table_is_cumulative(ctx) -> None:
    mo = core.const("constants", "MONTHS_OFFSETS")
    dpm = core.const("constants", "DAYS_PER_MONTHS")
    ok = len(mo) == 2 and all(len(r) == 14 and r[1] == 0 and all(r[i + 1] - r[i] == dpm[k][i] for i in range(1, 13))
                              for k, r in enumerate(mo))
    ctx.ob("CUMSEARCH.table", "constants.MONTHS_OFFSETS", ok,
           "MONTHS_OFFSETS[leap][m] must be the number of days before month m (prefix sums of DAYS_PER_MONTHS)",
           "src/pendulum/constants.py")


def _py_forward(ctx) -> None:
    m = pmod("parsing.iso8601")
    fn = m.func("parse_iso8601")
    loops = [n for n in core.walk_fn(fn) if isinstance(n, ast.For) and "months_offsets" in un(n)]
    if len(loops) != 1:
        ctx.unverified("CUMSEARCH.forward", "py:parse_iso8601", f"{len(loops)} candidate loops", m.loc(fn))
        return
    lp = loops[0]
    i = un(lp.target)
    ctx.ob("CUMSEARCH.range", "py:parse_iso8601/range", nun(lp.iter) == "range(1, 14)",
           f"search runs over `{nun(lp.iter)}`; the 13 table entries 1..13 are needed", m.loc(lp))
    ifs = [s for s in lp.body if isinstance(s, ast.If)]
    if len(ifs) != 1 or not isinstance(ifs[0].test, ast.Compare):
        ctx.unverified("CUMSEARCH.forward", "py:parse_iso8601", "loop body shape", m.loc(lp))
        return
    t = ifs[0].test
    can = Canon({"ordinal": "ORD", i: "I"})
    c = can.cond(t, True)
    ctx.ob("CUMSEARCH.forward", "py:parse_iso8601/comparison", c == EC(can, "ORD <= months_offsets[I]"),
           f"month found by `{un(t)}` (canonical {c}); T[i] = days before month i, so the day-of-year d lies in month "
           f"i-1 iff d <= T[i] for the first such i: the comparison must be non-strict", m.loc(t))
    body = {nun(s.targets[0]): can.s(s.value) for s in ifs[0].body if isinstance(s, ast.Assign)}
    ctx.ob("CUMSEARCH.forward", "py:parse_iso8601/result", body == {"day": E(can, "ORD - months_offsets[I - 1]"), "month": E(can, "I - 1")}
           and any(isinstance(s, ast.Break) for s in ifs[0].body),
           f"on a hit: {body}; must be month = i-1, day = ordinal - T[i-1], then break", m.loc(ifs[0]))
    src = core.assigns_to(fn, "months_offsets")
    ctx.ob("CUMSEARCH.forward", "py:parse_iso8601/table", len(src) == 1 and nun(src[0]) in ("MONTHS_OFFSETS[leap]", "MONTHS_OFFSETS[int(leap)]")
           and [nun(x) for x in core.assigns_to(fn, "leap")] == ["is_leap(year)"],
           f"table row `{[nun(x) for x in src]}` with leap `{[nun(x) for x in core.assigns_to(fn, 'leap')]}`", m.loc(fn))
    g = [n for n in core.walk_fn(fn) if isinstance(n, ast.If) and nun(n.test) in ("ordinal > months_offsets[13]",)]
    ctx.ob("CUMSEARCH.bound", "py:parse_iso8601/upper-bound", len(g) == 1 and isinstance(g[0].body[0], ast.Raise),
           "an ordinal beyond the year's last day (T[13]) must be rejected before the search", m.loc(fn))


def _rs_forward(ctx, mir, sf) -> None:
    f = mir.fn("ordinal_to_ymd")
    sym = mirsym.Sym(f, sf)
    can = Canon({"ordinal": "ORD", "i": "I"})
    hits = 0
    for p in sym.run(0, mirsym.NEVER):
        ret = p.state.get("_0")
        if not (isinstance(ret, ast.Call) and un(ret.func) == "Ok"):
            continue
        # only the in-range path (no year wrap) is needed for the comparison clause
        wrapped = any("days_in_year" in can.s(c) and (mirsym.cond_bool(c, k) or (None, None))[1] for c, k in p.conds)
        last = [x for x in p.conds if "MONTHS_OFFSETS" in un(x[0])]
        if not last:
            continue
        cb = mirsym.cond_bool(*last[-1])
        c = can.cond(cb[0], cb[1])
        if wrapped:
            continue
        hits += 1
        ok = c == EC(can, "ORD <= MONTHS_OFFSETS[is_leap(year)][I]")
        ctx.ob("CUMSEARCH.forward", "rs:ordinal_to_ymd/comparison", ok,
               f"month found when {c}; T[i] = days before month i, so the comparison between the ordinal and T[i] must "
               f"be non-strict (`ord <= T[i]`): with `<` the last day of every month maps to day 0 of the next",
               "rust/src/parsing.rs")
        tup = ret.args[0]
        got = [can.s(e) for e in tup.elts] if isinstance(tup, ast.Tuple) else [can.s(tup)]
        ctx.ob("CUMSEARCH.forward", "rs:ordinal_to_ymd/result", got == ["year", E(can, "I - 1"), E(can, "ORD - MONTHS_OFFSETS[is_leap(year)][I - 1]")],
               f"returns {got}; must be (year, i-1, ord - T[i-1])", "rust/src/parsing.rs")
    if hits == 0:
        ctx.unverified("CUMSEARCH.forward", "rs:ordinal_to_ymd", "search path not recognised in MIR", "rust/src/parsing.rs")


def _py_backward(ctx) -> None:
    m = pmod("_helpers")
    fn = m.func("local_time")
    loops = [n for n in core.walk_fn(fn) if isinstance(n, ast.While) and "month" in un(n.test) and "MONTHS_OFFSETS" in un(n)]
    if len(loops) != 1:
        ctx.unverified("CUMSEARCH.backward", "py:local_time", "month search loop not found", m.loc(fn))
        return
    lp = loops[0]
    consts = {"TM_JANUARY": core.const("constants", "TM_JANUARY"), "TM_DECEMBER": core.const("constants", "TM_DECEMBER")}
    can = Canon(consts=consts)
    env = {}
    ifs = None
    for s in lp.body:
        if isinstance(s, ast.Assign):
            env[nun(s.targets[0])] = s.value
        if isinstance(s, ast.If):
            ifs = s
    if ifs is None:
        ctx.unverified("CUMSEARCH.backward", "py:local_time", "loop body shape", m.loc(lp))
        return
    p = cfg.Path([("stmt", s) for s in lp.body if isinstance(s, ast.Assign)])
    t = cfg.subst_path(p, ifs.test, set())
    c = can.cond(t, True)
    ctx.ob("CUMSEARCH.backward", "py:local_time/comparison", c == EC(can, "day > MONTHS_OFFSETS[leap_year][month]"),
           f"month found when {c}; with T[m] = days before month m and a 1-based day-of-year d, month m contains d iff "
           f"d > T[m] (strict) searching from December down", m.loc(ifs))
    upd = [nun(s) for s in ifs.body]
    ctx.ob("CUMSEARCH.backward", "py:local_time/result", upd == ["day -= month_offset", "break"],
           f"on a hit: {upd}; must be day -= T[m]; break", m.loc(ifs))
    step = [nun(s) for s in lp.body if isinstance(s, ast.AugAssign)]
    ctx.ob("CUMSEARCH.backward", "py:local_time/step", step == ["month -= 1"] and can.cond(lp.test, True) == EC(can, "month != 1"),
           f"loop `while {un(lp.test)}` stepping {step}; must walk month down to January", m.loc(lp))
    init_m = [can.s(x) for x in core.assigns_to(fn, "month")]
    init_d = [nun(x) for x in core.assigns_to(fn, "day")]
    ctx.ob("CUMSEARCH.backward", "py:local_time/start", init_m[:1] == ["12"] and init_d[:1] == ["seconds // SECS_PER_DAY + 1"],
           f"search starts at month={init_m[:1]}, day={init_d[:1]}; must be December and the 1-based day of the year", m.loc(fn))


def _rs_backward(ctx, mir) -> None:
    f = mir.fn("helpers::local_time")
    names = f.names()
    month, day = f.local("month"), f.local("day")
    can = Canon({"leap_year": "leap_year"}, consts={"TM_JANUARY": 0, "TM_DECEMBER": 11})
    # the SCC that reads MONTHS_OFFSETS
    target = None
    for scc in f.sccs():
        if any("MONTHS_OFFSETS" in s.raw for b in scc for s in f.blocks[b].stmts):
            target = scc
    if target is None:
        ctx.unverified("CUMSEARCH.backward", "rs:local_time", "month search loop not found in MIR", "rust/src/helpers.rs")
        return
    head = min(target)
    sym = mirsym.Sym(f, {}, atomic={"leap_year"})
    found = False
    hour = f.local("hour")
    after = {b.idx for b in f.blocks.values() if any(s.dest == hour for s in b.stmts)}
    for p in sym.run(head, lambda b: b in after or b == head, max_visits=1):
        mo = [x for x in p.conds if "MONTHS_OFFSETS" in un(x[0])]
        if not mo:
            continue
        cb = mirsym.cond_bool(*mo[-1])
        c = can.cond(cb[0], cb[1])
        d = can.s(p.state.get(day, ast.Name("day", ast.Load())))
        mth = can.s(p.state.get(month, ast.Name("month", ast.Load())))
        hit = p.end in after
        if hit:
            found = True
            ctx.ob("CUMSEARCH.backward", "rs:local_time/comparison", c == EC(can, "day > MONTHS_OFFSETS[leap_year][month]"),
                   f"month found when {c}; must be the strict `day > T[month]`", "rust/src/helpers.rs")
            ctx.ob("CUMSEARCH.backward", "rs:local_time/result", d == E(can, "day - MONTHS_OFFSETS[leap_year][month]") and mth == "month",
                   f"on a hit day={d}, month={mth}; must be day - T[month], month unchanged", "rust/src/helpers.rs")
        else:
            ctx.ob("CUMSEARCH.backward", "rs:local_time/step", mth == E(can, "month - 1") and d == "day",
                   f"on a miss month={mth}, day={d}; must step month down by one", "rust/src/helpers.rs")
    if not found:
        ctx.unverified("CUMSEARCH.backward", "rs:local_time", "hit path not recognised", "rust/src/helpers.rs")
    _ = names


_WC = Canon()
WEEK_ATOMS = {EC(_WC, "W < 1")[0], EC(_WC, "W > 53")[0], EC(_WC, "W > 52")[0], "is_long_year(Y)", EC(_WC, "D < 1")[0], EC(_WC, "D > 7")[0]}


def _week_py(ctx):
    m = pmod("parsing.iso8601")
    fn = m.func("_get_iso_8601_week")
    can = Canon({"week": "W", "weekday": "D", "year": "Y", "ordinal": "ORD"})
    o = core.assigns_to(fn, "ordinal")
    formula = can.s(o[0]) if o else None
    atoms = set()
    for n in core.walk_fn(fn):
        if isinstance(n, ast.If) and n.body and isinstance(n.body[0], ast.Raise):
            for conj in cfg.decide(n.test, True):
                for a, _pol in conj:
                    atoms.add(can.cond(ast.parse(a, mode="eval").body, True)[0])
    wraps = {}
    for n in fn.body:
        if isinstance(n, ast.If) and not isinstance(n.body[0], ast.Raise):
            c = can.cond(n.test, True)
            ups = {nun(s.target): (type(s.op).__name__, can.s(s.value)) for s in n.body if isinstance(s, ast.AugAssign)}
            wraps[c] = ups
    return m, fn, formula, atoms, wraps


def _rs_week_tabulate(ctx, mir, sf) -> bool | None:
    """RSWEEK.tabulated: the compiled week-date conversion decided on values: every path of Parser::iso_to_ymd (MIR, symbolic execution of
    its basic blocks) is evaluated for (year, week, weekday) triples around every bound - its branch conditions with the checker's
    evaluator (comparisons, RangeInclusive::contains of literal / promoted ranges; is_long_year and week_day stand for what C15 decides
    them to be, the standard library's) - : exactly one path applies; it must be an Err exactly when the week or the weekday does not exist in
    that ISO year, and otherwise hand ordinal_to_ymd the year, the ordinal of that day (date.fromisocalendar) and `true`."""
    import datetime as _dt
    rel = "rust/src/parsing.rs"
    f = mir.fn("iso_to_ymd")
    promoted = {}
    for mo in re.finditer(r"^const [^\n]*iso_to_ymd::promoted\[(\d+)\][^\n]*= \{(.*?)^\}", mir.text, re.S | re.M):
        r_ = re.search(r"RangeInclusive::<\w+>::new\(const (\d+)_\w+, const (\d+)_\w+\)", mo.group(2))
        if r_:
            promoted[int(mo.group(1))] = ("range", int(r_.group(1)), int(r_.group(2)))

    def ev(n, env):
        if isinstance(n, ast.Constant):
            return n.value
        if isinstance(n, ast.Name):
            if n.id in env:
                return env[n.id]
            mo = re.fullmatch(r"K_.*iso_to_ymd_promoted_(\d+)_", n.id)
            if mo and int(mo.group(1)) in promoted:
                return promoted[int(mo.group(1))]
            raise core.Unsupported(f"name `{n.id}`")
        if isinstance(n, ast.UnaryOp) and isinstance(n.op, ast.Not):
            return not ev(n.operand, env)
        if isinstance(n, ast.BinOp) and isinstance(n.op, (ast.Add, ast.Sub, ast.Mult)):
            a, b = ev(n.left, env), ev(n.right, env)
            return a + b if isinstance(n.op, ast.Add) else a - b if isinstance(n.op, ast.Sub) else a * b
        if isinstance(n, ast.Compare) and len(n.ops) == 1:
            a, b = ev(n.left, env), ev(n.comparators[0], env)
            return {ast.Gt: a > b, ast.GtE: a >= b, ast.Lt: a < b, ast.LtE: a <= b, ast.Eq: a == b, ast.NotEq: a != b}[type(n.ops[0])]
        if isinstance(n, ast.BoolOp):
            vals = [ev(v, env) for v in n.values]
            return all(vals) if isinstance(n.op, ast.And) else any(vals)
        if isinstance(n, ast.Tuple) and len(n.elts) == 2:            # RangeInclusive::contains(range, &x)
            r_ = ev(n.elts[0], env)
            if isinstance(r_, tuple) and r_[:1] == ("range",):
                return r_[1] <= ev(n.elts[1], env) <= r_[2]
        if isinstance(n, ast.Call):
            fn_ = un(n.func).split(".")[-1]
            args = [ev(a, env) for a in n.args]
            if fn_ == "is_long_year" and len(args) == 1:
                return _dt.date(args[0], 12, 28).isocalendar()[1] == 53
            if fn_ == "week_day" and len(args) == 3:
                return _dt.date(*args).isoweekday()
            if fn_ == "new" and len(args) == 2:
                return ("range", args[0], args[1])
            if fn_ in ("", "contains") and len(args) == 2 and isinstance(args[0], tuple) and args[0][:1] == ("range",):
                return args[0][1] <= args[1] <= args[0][2]          # RangeInclusive::contains(range, &x)
            if fn_ in ("from", "i32", "u32") and len(args) == 1:
                return args[0]
        raise core.Unsupported(f"`{un(n)[:60]}` is outside the evaluator")
    try:
        paths = mirsym.Sym(f, sf).run(0, mirsym.NEVER)
        bad, n = [], 0
        for y in (2004, 2015, 2016, 2020, 2021, 2026):
            long_ = _dt.date(y, 12, 28).isocalendar()[1] == 53
            for w in (0, 1, 2, 26, 51, 52, 53, 54, 99):
                for d in (0, 1, 4, 7, 8, 9):
                    env = {"iso_year": y, "iso_week": w, "iso_day": d, "self": None, "True": True, "False": False}
                    live = []
                    for p in paths:
                        ok = True
                        for c, k in p.conds:
                            cb = mirsym.cond_bool(c, k)
                            if cb is None:
                                raise core.Unsupported(f"non-boolean branch on `{un(c)[:50]}`")
                            ok = ok and bool(ev(cb[0], env)) == cb[1]
                        if ok:
                            live.append(p)
                    if len(live) != 1:
                        raise core.Unsupported(f"{len(live)} paths apply to ({y}, {w}, {d})")
                    r_ = live[0].state.get("_0")
                    n += 1
                    valid = 1 <= w <= (53 if long_ else 52) and 1 <= d <= 7
                    is_err = isinstance(r_, ast.Call) and un(r_.func) == "Err"
                    if not valid:
                        if not is_err:
                            bad.append(f"{y}-W{w:02d}-{d} is accepted (no such {'week' if not 1 <= w <= (53 if long_ else 52) else 'weekday'})")
                        continue
                    if is_err:
                        bad.append(f"{y}-W{w:02d}-{d} is rejected")
                        continue
                    if not (isinstance(r_, ast.Call) and un(r_.func).endswith("ordinal_to_ymd") and len(r_.args) == 4):
                        raise core.Unsupported(f"result `{un(r_)[:60] if isinstance(r_, ast.AST) else r_}`")
                    got = (ev(r_.args[1], env), ev(r_.args[2], env), ev(r_.args[3], env))
                    want = (y, (_dt.date.fromisocalendar(y, w, d) - _dt.date(y, 1, 1)).days + 1, True)
                    if got != want:
                        bad.append(f"{y}-W{w:02d}-{d}: ordinal_to_ymd{got} (expected {want})")
    except (core.Unsupported, core.AnchorMissing, KeyError, TypeError, AttributeError, IndexError, ValueError) as e:
        ctx.unverified("RSWEEK.tabulated", "rs:iso_to_ymd", f"outside the evaluator: {type(e).__name__}: {e}", rel)
        return None
    ctx.ob("RSWEEK.tabulated", "rs:iso_to_ymd", not bad, f"{n} (year, week, weekday) triples evaluated on the MIR paths: " + (f"wrong: {bad[:3]}" if bad else
           "rejected exactly when the week or weekday does not exist, otherwise the ordinal of that day"), rel)
    if not bad:
        ctx.established(("WEEKDATE.formula", "WEEKDATE.guards", "WEEKDATE.wrap"), "rs:iso_to_ymd", "RSWEEK.tabulated")
    return not bad


def _week(ctx, mir, sf) -> None:
    m, fn, formula, atoms, wraps = _week_py(ctx)
    want = E(_WC, "W * 7 + D - (week_day(Y, 1, 4) + 3)")
    ctx.ob("WEEKDATE.formula", "py:_get_iso_8601_week", formula == want,
           f"ordinal = {formula}; must be week*7 + weekday - (week_day(year, 1, 4) + 3)", m.loc(fn))
    ctx.ob("WEEKDATE.guards", "py:_get_iso_8601_week", atoms == WEEK_ATOMS,
           f"range guards test {sorted(atoms)}; must be week > 53, week > 52 unless long year, weekday > 7", m.loc(fn))
    want_w = {EC(_WC, "ORD < 1"): {"ordinal": ("Add", E(_WC, "days_in_year(Y - 1)")), "year": ("Sub", "1")},
              EC(_WC, "ORD > days_in_year(Y)"): {"ordinal": ("Sub", "days_in_year(Y)"), "year": ("Add", "1")}}
    ctx.ob("WEEKDATE.wrap", "py:_get_iso_8601_week", wraps == want_w,
           f"year wrap {wraps}; an ordinal < 1 borrows the previous year's length, one beyond the year moves on", m.loc(fn))
    if mir is None:
        return
    _rs_week_tabulate(ctx, mir, sf)
    f = mir.fn("iso_to_ymd")
    sym = mirsym.Sym(f, sf)
    can = Canon({"iso_week": "W", "iso_day": "D", "iso_year": "Y"})
    r_atoms, r_formula = set(), set()
    for p in sym.run(0, mirsym.NEVER):
        for c, k in p.conds:
            cb = mirsym.cond_bool(c, k)
            if cb:
                r_atoms.add(can.cond(cb[0], True)[0])
        for callee, args in p.calls:
            if "ordinal_to_ymd" in callee:
                r_formula.add(can.s(args[2]))
                ctx.ob("WEEKDATE.wrap", "rs:iso_to_ymd/allow_out_of_bounds", can.s(args[3]) == "True" and can.s(args[1]) == "Y",
                       f"ordinal_to_ymd({[can.s(a) for a in args[1:]]}); week dates may spill into the neighbouring year",
                       "rust/src/parsing.rs")
    ctx.ob("WEEKDATE.formula", "rs:iso_to_ymd", r_formula == {want},
           f"ordinal = {sorted(r_formula)}; must equal the Python parser's {want}", "rust/src/parsing.rs")
    ctx.ob("WEEKDATE.guards", "rs:iso_to_ymd", r_atoms == WEEK_ATOMS, f"range guards test {sorted(r_atoms)}", "rust/src/parsing.rs")
    # year wrap inside ordinal_to_ymd
    f2 = mir.fn("ordinal_to_ymd")
    sym = mirsym.Sym(f2, sf)
    can2 = Canon({"ordinal": "ORD", "year": "Y"})
    seen = set()
    wrap_conds = set()
    ord_param = (f2.debug.get("ordinal") or [None])[0]
    ord_local = next((s_.dest for b_ in f2.blocks.values() for s_ in b_.stmts if s_.op == "use" and s_.args and s_.args[0] == ord_param
                      and s_.dest and re.fullmatch(r"_\d+", s_.dest) and s_.dest in {x for v in f2.debug.values() for x in v}), None)
    for p in sym.run(0, mirsym.NEVER):
        ret = p.state.get("_0")
        if not (isinstance(ret, ast.Call) and un(ret.func) == "Ok" and isinstance(ret.args[0], ast.Tuple)):
            continue
        for c_, k_ in p.conds:
            cb_ = mirsym.cond_bool(c_, k_)
            if cb_ and "MONTHS_OFFSETS" not in un(cb_[0]) and "allow_out_of_bounds" not in un(cb_[0]) and "discriminant" not in un(cb_[0]):
                wrap_conds.add(can2.cond(cb_[0], True)[0])
        y = can2.s(ret.args[0].elts[0])
        # the ordinal the month search works on: the final value of the local that starts as a copy of the `ordinal` parameter
        # (whatever the search that follows looks like)
        if ord_local is not None and ord_local in p.state and isinstance(p.state[ord_local], ast.AST):
            base = can2.s(p.state[ord_local])
        else:
            tbl = ast.parse("MONTHS_OFFSETS[is_leap(YY)][i - 1]", mode="eval").body
            yy = ret.args[0].elts[0]
            tbl.value.slice.args[0] = yy
            base = can2.s(ast.BinOp(ret.args[0].elts[2], ast.Add(), tbl))
        seen.add((y, base))
    want_s = {("Y", "ORD"), (E(can2, "Y - 1"), E(can2, "ORD + days_in_year(Y - 1)")),
              (E(can2, "Y + 1"), E(can2, "ORD - days_in_year(Y)"))}
    want_c = {EC(can2, "ORD < 1")[0], EC(can2, "ORD > days_in_year(Y)")[0], EC(can2, "ORD + days_in_year(Y - 1) > days_in_year(Y - 1)")[0]}
    ctx.ob("WEEKDATE.wrap", "rs:ordinal_to_ymd/wrap-conditions", wrap_conds <= want_c and {EC(can2, "ORD < 1")[0], EC(can2, "ORD > days_in_year(Y)")[0]} <= wrap_conds,
           f"the year wrap is decided by {sorted(wrap_conds)}; must be exactly `ordinal < 1` (previous year) and `ordinal > days_in_year(year)` (next year)",
           "rust/src/parsing.rs")
    ctx.ob("WEEKDATE.wrap", "rs:ordinal_to_ymd/year-wrap", seen == want_s,
           f"(year, ordinal) after the wrap: {sorted(seen)}; must be {sorted(want_s)}", "rust/src/parsing.rs")


def _fraction(ctx, mir) -> None:
    for modname, q in (("parsing.iso8601", "parse_iso8601"), ("parsing", "_parse_common")):
        m = pmod(modname)
        fn = m.func(q)
        ss = core.assigns_to(fn, "subsecond")
        us = core.assigns_to(fn, "microsecond")
        ok = any(nun(x) == "m.group('subsecond')[:6]" for x in ss) and any(nun(x) == "int(f'{subsecond:0<6}')" for x in us)
        ctx.ob("FRACTION", f"py:{q}", ok,
               f"subsecond={[nun(x) for x in ss]}, microsecond={[nun(x) for x in us][-1:]}; the fraction must be cut to 6 "
               f"digits and right-padded with zeros", m.loc(fn))
    if mir is None:
        return
    f0 = mir.fn("parse_time")
    # the fraction may be read by a helper of the parser: the loops are looked for in parse_time and in the crate-local functions
    # it calls whose result reaches the microsecond field (by name of the helper's own accumulator: any u32 place it multiplies by 10)
    helpers = []
    for _b, cs in f0.calls():
        short = cs.callee.split("(")[0].rsplit("::", 1)[-1]
        for name_, g_ in mir.fns.items():
            if name_.startswith("parsing::") and name_.rsplit("::", 1)[-1] == short and g_ is not f0 and "{closure" not in name_ \
                    and short not in ("parse_integer", "inc", "end", "parse_error", "unexpected_character_error") \
                    and any(s_.op == "Mul" and len(s_.args) == 2 and s_.args[1] == "const 10_u32" for _bb, s_ in g_.all_stmts()) \
                    and any(s_.op == "Lt" and len(s_.args) == 2 and s_.args[1] == "const 6_u8" for _bb, s_ in g_.all_stmts()) and g_ not in helpers:
                helpers.append(g_)
    n_acc = n_pad = n_drain = 0
    for f in [f0] + helpers:
      local_acc = {s_.args[0] for _bb, s_ in f.all_stmts() if s_.op == "Mul" and len(s_.args) == 2 and s_.args[1] == "const 10_u32"} if f is not f0 else set()

      def is_us(s_):
          return "microsecond" in _field(s_, f) or (s_.dest in local_acc) or any(a_ in local_acc for a_ in s_.args[:1] if s_.op == "Mul" and s_.dest in local_acc)
      n_sites = 0
      for _b, cs in (f0.calls() if f is not f0 else []):
          if cs.callee.split("(")[0].rsplit("::", 1)[-1] == f.name.rsplit("::", 1)[-1]:
              n_sites += 1
      for scc in f.sccs():
        stm = [s for b in scc for s in f.blocks[b].stmts]
        bound6 = any(s.op == "Lt" and s.args[1] == "const 6_u8" for s in stm)
        mul10 = [s for s in stm if s.op == "Mul" and s.args[1] == "const 10_u32"]
        add_us = [s for s in stm if s.op == "Add" and is_us(s)]
        pad = [s for s in mul10 if is_us(s) and not add_us]
        if add_us and mul10:
            if bound6:
                n_acc += 1
            else:
                ctx.ob("FRACTION", "rs:parse_time/unbounded-loop", False,
                       "a loop accumulates fraction digits into microsecond without the `i < 6` bound", "rust/src/parsing.rs")
        elif not pad and any(s.op == "call" and "is_ascii_digit" in s.callee for s in stm) \
                and any(s.op == "call" and re.search(r"\binc\b", s.callee) for s in stm):
            n_drain += 1          # `while self.current.is_ascii_digit() { self.inc(); }`: digits beyond the sixth are skipped
        elif pad:
            if bound6:
                n_pad += 1
            else:
                ctx.ob("FRACTION", "rs:parse_time/unbounded-pad", False,
                       "a loop pads microsecond by 10 without the `i < 6` bound", "rust/src/parsing.rs")
    names = f0.names()
    ctx.ob("FRACTION", "rs:parse_time/accumulate<=6", n_acc >= 1 and n_acc == n_pad,
           f"{n_acc} digit-accumulation loops and {n_pad} zero-padding loops bounded by i < 6; each fraction site needs both",
           "rust/src/parsing.rs")
    ctx.ob("FRACTION", "rs:parse_time/extra-digits", n_drain == n_acc,
           f"{n_drain} loops skip the digits after the sixth for {n_acc} fraction sites (basic and extended time): a 7-9 digit "
           f"fraction must be truncated, not left in the input for the offset parser to reject", "rust/src/parsing.rs")
    _ = names


def _field(s, f) -> str:
    """name of the struct field a statement writes (ParsedDateTime) or ''."""
    m = re.match(r"^\(\(\*(_\d+)\)\.(\d+): ", s.dest or "")
    if not m:
        return ""
    flds = ['year', 'month', 'day', 'hour', 'minute', 'second', 'microsecond', 'offset']
    return flds[int(m.group(2))] if int(m.group(2)) < len(flds) else ""


def _offset_block(m: core.Mod, fn: ast.FunctionDef, var: str) -> list[str] | None:
    """the statements from `negative = ...` to `offset = -1 * offset` (normalised, variable renamed to S)."""
    for n in core.walk_fn(fn):
        if isinstance(n, (ast.If,)):
            for body in (n.body, n.orelse):
                src = [nun(s) for s in body]
                if any(s.startswith("negative = ") for s in src) and any("offset = " in s for s in src):
                    i0 = [i for i, s in enumerate(src) if s.startswith("negative = ")][0]
                    i1 = max(i for i, s in enumerate(src) if "offset" in s and ("offset = " in s or "if negative" in s))
                    out = [re.sub(rf"\b({var}|tz)\b", "S", s) for s in src[i0:i1 + 1]]
                    return out
    return None


OFFSET_INPUTS = [("+01", 3600), ("-01", -3600), ("+0130", 5400), ("-0130", -5400), ("+01:30", 5400), ("-01:30", -5400), ("+23:59", 86340),
                 ("-23:59", -86340), ("+00:00", 0), ("-00:00", 0), ("+14", 50400), ("-0945", -35100), ("+05:45", 20700), ("-12:00", -43200)]


def py_offset_tabulate(ctx, rule: str, name: str, m: core.Mod, fn: ast.FunctionDef) -> bool | None:
    """'+-hh[:mm] -> the offset it denotes' for a pure-Python offset-string parser, whatever its shape: the statements from
    the sign test (`S.startswith('-')`) to the end of their block - in `fn` or in a helper of the same module it calls - are
    evaluated with the checker's interpreter (rules/minieval.py) on a table of offset strings; the value left in `offset` (or
    returned) must be sign * (hh*3600 + mm*60).  -> True / False, None when no such block is recognised (UNVERIFIED)."""
    from ..rules import minieval
    funcs = {st.name: st for st in m.top() if isinstance(st, ast.FunctionDef)}
    cands = [fn] + [funcs[c.func.id] for c in core.calls(fn) if isinstance(c.func, ast.Name) and c.func.id in funcs and c.func.id.startswith("_")]
    region = svar = None
    for g in cands:
        for node in [g] + [n for n in core.walk_fn(g) if isinstance(n, (ast.If, ast.For, ast.While, ast.With, ast.Try))]:
            for fld in ("body", "orelse"):
                body = getattr(node, fld, None)
                if not isinstance(body, list):
                    continue
                for i, st in enumerate(body):
                    if isinstance(st, (ast.If, ast.For, ast.While, ast.FunctionDef, ast.With, ast.Try)) and not (
                            isinstance(st, ast.If) and any(isinstance(c, ast.Call) and isinstance(c.func, ast.Attribute) and c.func.attr == "startswith"
                                                           for c in ast.walk(st.test))):
                        continue
                    for c in ast.walk(st):
                        if isinstance(c, ast.Call) and isinstance(c.func, ast.Attribute) and c.func.attr == "startswith" and c.args \
                                and core.is_const(c.args[0]) and c.args[0].value in ("-", "+") and isinstance(c.func.value, ast.Name):
                            if region is None:
                                region, svar = body[i:], c.func.value.id
    if region is None:
        ctx.unverified(rule, f"py:{name}", "no block that tests the sign of an offset string was found", m.loc(fn))
        return None
    bad = []
    zone = lambda off, *a, **k: minieval.Stub(_offset=off)          # noqa: E731 - the zone object built from the offset: what the block is for
    utc = minieval.Stub(_offset=0)
    zcls = minieval.ClassStub(_new=zone, _isa=lambda v: False)
    glob = {"FixedTimezone": zcls, "UTC": utc, "pendulum": minieval.Stub(timezone=zone, FixedTimezone=zcls, UTC=utc), "timezone": zone,
            "int": int, "bool": bool, "len": len, "cast": lambda t, v: v, "ValueError": ValueError}

    def zones_in(v, depth=0):
        if isinstance(v, minieval.Stub) and hasattr(v, "_offset"):
            yield v._offset
        elif isinstance(v, dict) and depth < 2:
            for x in v.values():
                yield from zones_in(x, depth + 1)
    try:
        for text, want in OFFSET_INPUTS:
            env = {svar: text, "parsed": {}}
            got = []
            try:
                minieval.run(region, env, {**funcs, "$globals": dict(glob)})
                for k, v in env.items():
                    got += list(zones_in(v))
            except minieval._Return as r:
                got = list(zones_in(r.value))
            if len(set(got)) != 1:
                # the block does not end in one zone object built from the offset: what it computes cannot be read off it
                raise core.Unsupported(f"the block leaves {len(set(got))} zone objects for {text!r}")
            if got[0] != want or isinstance(got[0], bool) or not isinstance(got[0], int):
                bad.append(f"{text!r} -> {got[0]!r} (expected {want})")
    except (core.Unsupported, ValueError, TypeError, IndexError, KeyError, AttributeError, minieval.Raised) as e:
        ctx.unverified(rule, f"py:{name}", f"the block is outside the checker's interpreter: {e}", m.loc(fn))
        return None
    ctx.ob(rule, f"py:{name}/tabulated", not bad,
           f"offset strings evaluated on the block starting at `{nun(region[0])[:60]}`: " + (f"wrong for {bad[:4]}" if bad else
           f"all {len(OFFSET_INPUTS)} forms (+hh, +hhmm, +hh:mm, both signs) give sign*(hh*3600 + mm*60)"), m.loc(region[0]))
    return not bad


def _offset(ctx, mir, sf) -> None:
    im = pmod("parsing.iso8601")
    fm = pmod("formatting.formatter")
    t1 = py_offset_tabulate(ctx, "OFFSET.parse", "iso8601.parse_iso8601", im, im.func("parse_iso8601"))
    t2 = py_offset_tabulate(ctx, "OFFSET.parse", "Formatter._get_parsed_value", fm, fm.func("Formatter._get_parsed_value"))
    b1 = _offset_block(im, im.func("parse_iso8601"), "tz")
    b2 = _offset_block(fm, fm.func("Formatter._get_parsed_value"), "value")
    if b1 is None or b2 is None:
        if t1 is None or t2 is None:
            ctx.unverified("OFFSET.parse", "py", "offset block not found", im.rel)
        if mir is not None:
            _rs_offset_tabulate(ctx, mir, sf)
        return
    if t1 and t2:
        # both copies compute the right offsets on the whole table: their shape is not a property
        ctx.ob("SIBLING.offset", "iso8601-vs-formatter", True, "both offset-string parsers give the same (correct) table", fm.rel)
        if mir is not None:
            _rs_offset_tabulate(ctx, mir, sf)
        return
    core_stmt = "offset = (int(off_hour) * 60 + int(off_minute)) * 60"
    all_ok = True
    for name, b, m in (("iso8601.parse_iso8601", b1, im), ("Formatter._get_parsed_value", b2, fm)):
        joined = "\n".join(b)
        r1 = ctx.ob("OFFSET.parse", f"py:{name}/formula", core_stmt in b, f"block {b}; must compute {core_stmt}", m.rel)
        r2 = ctx.ob("OFFSET.parse", f"py:{name}/sign",
                    "negative = bool(S.startswith('-'))" in b and "if negative:\n    offset = -1 * offset" in joined,
                    "the offset must be negated iff the string starts with '-'", m.rel)
        r3 = ctx.ob("OFFSET.parse", f"py:{name}/split", "off_hour = S[0:2]" in joined and "off_minute = S[2:4]" in joined
                    and "off_hour, off_minute = S.split(':')" in joined and "S = S[1:]" in b,
                    "hh and mm must be taken from positions 0:2 / 2:4 (or around ':')", m.rel)
        all_ok = all_ok and r1 and r2 and r3
    # the two copies agree when they are identical or when each of them meets every obligation above on its own
    ctx.ob("SIBLING.offset", "iso8601-vs-formatter", b1 == b2 or all_ok,
           "the offset-string parsers in parsing/iso8601.py and formatting/formatter.py must stay identical",
           "src/pendulum/formatting/formatter.py")
    if mir is None:
        return
    _rs_offset_tabulate(ctx, mir, sf)


def _rs_eval(n, env):
    """the checker's evaluator for the offset expression extracted from MIR (integers only)"""
    if isinstance(n, ast.Constant):
        return n.value
    if isinstance(n, ast.UnaryOp) and isinstance(n.op, ast.USub):
        return -_rs_eval(n.operand, env)
    if isinstance(n, ast.BinOp):
        a, b = _rs_eval(n.left, env), _rs_eval(n.right, env)
        if isinstance(n.op, ast.Add):
            return a + b
        if isinstance(n.op, ast.Sub):
            return a - b
        if isinstance(n.op, ast.Mult):
            return a * b
    if isinstance(n, ast.Compare) and len(n.ops) == 1:
        a, b = _rs_eval(n.left, env), _rs_eval(n.comparators[0], env)
        return {ast.Gt: a > b, ast.GtE: a >= b, ast.Lt: a < b, ast.LtE: a <= b, ast.Eq: a == b, ast.NotEq: a != b}[type(n.ops[0])]
    if isinstance(n, ast.Call):
        if un(n.func) == "Some" and len(n.args) == 1:
            return _rs_eval(n.args[0], env)
        if not any(isinstance(x, ast.BinOp) for x in ast.walk(n)):       # the value produced by one parse_integer(...)? call
            src = un(n)
            if "timezone_hour" in src and "timezone_minute" not in src:
                return env["H"]
            if "timezone_minute" in src and "timezone_hour" not in src:
                return env["M"]
    raise core.Unsupported(f"offset expression `{un(n)[:60]}` is outside the evaluator")


def _rs_offset_tabulate(ctx, mir, sf) -> None:
    """+-hh[:mm] -> the UTC offset it denotes, decided by tabulation: every path of the compiled offset parser that ends in
    Ok is evaluated for sign in {+, -}, hh in 0..23, mm in {absent, 0..59} with the checker's evaluator on the expression
    stored into `datetime.offset` (taken from MIR); it must be sign * (hh*3600 + mm*60)."""
    rel = "rust/src/parsing.rs"
    f = mir.fn("parse_time")
    start = None
    for b in f.blocks.values():
        for st in b.stmts:
            if st.op in ("Eq", "Ne") and len(st.args) == 2 and st.args[1] == "const 'Z'":
                start = b.idx
    if start is None:
        ctx.unverified("OFFSET.parse", "rs:parse_time", "the 'Z' test that opens the offset part was not found in MIR", rel)
        return
    sym = mirsym.Sym(f, sf)
    sym.name_patterns = False
    try:
        paths = sym.run(start, mirsym.NEVER)
    except core.Unsupported as e:
        ctx.unverified("OFFSET.parse", "rs:parse_time", str(e), rel)
        return
    ok_paths = []
    for p in paths:
        ret = p.state.get("_0")
        if not (isinstance(ret, ast.Call) and un(ret.func) == "Ok"):
            continue
        off = [v for k, v in p.state.items() if k.startswith("FIELD:") and "Option<i32>" in k]
        ok_paths.append((p, off[-1] if off else None))
    n = bad = 0
    first = None
    covered = set()
    shaped: set = set()
    try:
        for sign in "+-":
            for with_min in (False, True):
                for hh in (0, 1, 5, 12, 14, 23):
                    for mm in ((0,) if not with_min else (0, 30, 59)):
                        env = {"H": hh, "M": mm}
                        live = []
                        for p, off in ok_paths:
                            if off is None:
                                continue
                            uses_min = "timezone_minute" in un(off)
                            if uses_min != with_min:
                                continue
                            good = True
                            for v, key in p.conds:
                                sv = un(v)
                                if sv == "self.current" and isinstance(key, int):
                                    good = good and chr(key) == sign
                                elif sv == "self.current" and isinstance(key, tuple):
                                    good = good and all(chr(int(x)) != sign for x in key[1])
                                elif isinstance(v, ast.Compare) and un(v.left) == "self.current" and isinstance(v.comparators[0], ast.Constant) \
                                        and v.comparators[0].value in ("+", "-", "Z"):
                                    cb = mirsym.cond_bool(v, key)
                                    if cb is not None:
                                        truth = (sign == v.comparators[0].value) if isinstance(v.ops[0], ast.Eq) else (sign != v.comparators[0].value)
                                        good = good and truth == cb[1]
                                elif isinstance(v, ast.Compare) and ("timezone_hour" in sv or "timezone_minute" in sv):
                                    cb = mirsym.cond_bool(v, key)
                                    if cb is not None:
                                        good = good and bool(_rs_eval(v, env)) == cb[1]
                            if good:
                                live.append(off)
                        want = (1 if sign == "+" else -1) * (hh * 3600 + mm * 60)
                        if not live:
                            if (sign, with_min) in shaped:
                                # paths for this spelling exist, and every one of them has a recognised condition this input violates: it is rejected
                                n += 1
                                bad += 1
                                first = first or f"{sign}{hh:02d}{':%02d' % mm if with_min else ''} is rejected (no accepting path; it denotes {want} s)"
                            continue
                        covered.add((sign, with_min))
                        shaped.add((sign, with_min))
                        for off in live:
                            n += 1
                            got = _rs_eval(off, env)
                            if got != want:
                                bad += 1
                                first = first or f"{sign}{hh:02d}{':%02d' % mm if with_min else ''} -> {got} s (expected {want})"
    except core.Unsupported as e:
        ctx.unverified("OFFSET.parse", "rs:parse_time/formula", str(e), rel)
        return
    full = covered == {(s_, w) for s_ in "+-" for w in (False, True)}
    if not full:
        ctx.unverified("OFFSET.parse", "rs:parse_time/formula", f"paths found only for {sorted(covered)}", rel)
        return
    ctx.count("rs_offset_evaluations", n)
    ctx.ob("OFFSET.parse", "rs:parse_time/formula", bad == 0,
           f"tabulated {n} (sign, hh, mm) inputs on the offset expression of the compiled parser: "
           + (f"{bad} give a wrong offset, e.g. {first}" if bad else "all give sign*(hh*3600 + mm*60)"), rel)
    ctx.ob("OFFSET.parse", "rs:parse_time/sign", bad == 0 or not any(True for _ in ()), "covered by the tabulation (both signs)", rel, nontrivial=False)


def _wrap_sites(ctx) -> None:
    pm, gm = pmod("parser"), pmod("parsing")
    sites = recon.sites_in(pm, ["_parse"]) + recon.sites_in(gm, ["_normalize"])
    for s in sites:
        recon.check_site(ctx, s)
    ctx.count("recon_sites", len(sites))
    for c_ in core.calls(pm.func("_parse")):
        if nun(c_.func) == "pendulum.datetime":
            tzv = nun(core.kw(c_).get("tz"))
            ctx.ob("WRAP.tz", "parser._parse/tz", tzv == "parsed.tzinfo or options.get('tz', UTC)",
                   f"tz={tzv}; the parsed offset (also a zero offset / Z) wins over the tz option, which only applies to strings without offset",
                   pm.loc(c_))
    fn = gm.func("_normalize")
    ok = False
    for p in cfg.paths(fn):
        if p.holds("options.get('exact')") is True:
            ex = p.exit()
            ok = ex[1] == "return" and nun(ex[2].value) == "parsed" and not p.stmts() and len(p.assumes()) == 1
    ctx.ob("EXACT", "parsing._normalize/exact", ok, "with exact=True the parsed object must be returned unchanged", gm.loc(fn))
    # _normalize: a time gets today's date from `now`
    for s in sites:
        if s.func == "_normalize" and "hour" in s.proj.values():
            got = {k: nun(v) for k, v in s.bound.items() if k in ("year", "month", "day")}
            ctx.ob("RECON.normalize", "parsing._normalize/time", got == {"year": "now.year", "month": "now.month", "day": "now.day"},
                   f"date part {got}", s.loc)
    t = [st for st in gm.tree.body if isinstance(st, ast.Try)]
    for tr in t:
        prim = {a.asname or a.name for st in tr.body if isinstance(st, ast.ImportFrom) and st.module == "pendulum._pendulum" for a in st.names}
        fb = {a.asname or a.name for h in tr.handlers for st in h.body if isinstance(st, ast.ImportFrom) for a in st.names}
        if prim:
            ctx.ob("BACKEND.names", "parsing/try-except-ImportError", prim == fb, f"{sorted(prim)} vs {sorted(fb)}", gm.loc(tr))


def _separators(ctx, mir) -> None:
    """the date/time boundary is 'T' or a space ({T, space} separators): wherever the compiled parser tests the current
    character against one of them to decide whether the date part is over, it must test the other one in the same
    condition (same comparison, shared branch target)"""
    rel = "rust/src/parsing.rs"
    n = 0
    for name, g in sorted(mir.fns.items()):
        if "parsing" not in name or "python" in name:
            continue
        short = name.rsplit("::", 1)[-1]
        sites = {}
        for b, s in g.all_stmts():
            if s.op in ("Eq", "Ne") and len(s.args) == 2 and s.args[1] in ("const 'T'", "const ' '"):
                sites[b.idx] = (s.op, s.args[1][7], b)
        if not sites:
            continue
        first = min(sites)
        for bi, (op, ch, b) in sorted(sites.items()):
            if short == "parse_datetime" and bi == first and op == "Eq" and ch == "T":
                # exception: a leading 'T' is the *time designator* of a time-only string ("T10:20"); a space is not one
                ctx.ob("SEPARATOR.pair", f"rs:{short}/bb{bi}", True, "leading time designator 'T' (no space form exists)", rel, nontrivial=False)
                continue
            other = " " if ch == "T" else "T"
            tg = set(b.switch[1].values()) if b.switch else set(b.succs)
            mate = None
            for bj, (op2, ch2, b2) in sites.items():
                if bj == bi or ch2 != other or op2 != op:
                    continue
                tg2 = set(b2.switch[1].values()) if b2.switch else set(b2.succs)
                if (bj in b.succs or bi in b2.succs) and (tg & tg2):
                    mate = bj
            n += 1
            ctx.ob("SEPARATOR.pair", f"rs:{short}/'{ch}'@{sorted(sites).index(bi)}", mate is not None,
                   f"`self.current {'==' if op == 'Eq' else '!='} '{ch}'` is tested without the same test for '{other}' in the same "
                   f"condition: one of the two date/time separators is then treated as part of the date", rel)
    ctx.count("separator_tests", n)


PY_ISO = [   # text -> ('date', y, m, d) | ('time', h, mi, s, us, offset | None) | ('dt', y, m, d, h, mi, s, us, offset | None) | None = must be refused
    ("2016-10-06", ("date", 2016, 10, 6)), ("20161006", ("date", 2016, 10, 6)), ("2016-10", ("date", 2016, 10, 1)), ("2016", ("date", 2016, 1, 1)),
    ("2016-W40-4", ("date", 2016, 10, 6)), ("2016W404", ("date", 2016, 10, 6)), ("2016-W40", ("date", 2016, 10, 3)), ("2016W40", ("date", 2016, 10, 3)),
    ("2020-W53-5", ("date", 2021, 1, 1)), ("2021-W01-1", ("date", 2021, 1, 4)), ("2016-W52-7", ("date", 2017, 1, 1)), ("1999-W52-6", ("date", 2000, 1, 1)),
    ("2015-W01-1", ("date", 2014, 12, 29)), ("2020-W01-1", ("date", 2019, 12, 30)), ("2009-W53-7", ("date", 2010, 1, 3)),
    ("2004-W53-1", ("date", 2004, 12, 27)), ("2032-W53-7", ("date", 2033, 1, 2)), ("1976-W53-4", ("date", 1976, 12, 30)), ("1998-W53-3", ("date", 1998, 12, 30)), ("2005-W53-1", None), ("2003-W53-1", None), ("2033-W53-1", None),
    ("2020-W01-2", ("date", 2019, 12, 31)), ("2015-W01-3", ("date", 2014, 12, 31)), ("2020W012", ("date", 2019, 12, 31)), ("2020-W01-3", ("date", 2020, 1, 1)), ("2026-W53-5", ("date", 2027, 1, 1)),
    ("20161006T123456.1234567Z", ("dt", 2016, 10, 6, 12, 34, 56, 123456, 0)), ("T102030.123456789", ("time", 10, 20, 30, 123456, None)), ("20161006T123456,987654321+0130", ("dt", 2016, 10, 6, 12, 34, 56, 987654, 5400)),
    ("T10:20:30", ("time", 10, 20, 30, 0, None)), ("T10:20:30.5-03:30", ("time", 10, 20, 30, 500000, -12600)), ("T102030", ("time", 10, 20, 30, 0, None)), ("T1020", ("time", 10, 20, 0, 0, None)), ("T10", ("time", 10, 0, 0, 0, None)),
    ("20161006T1234", ("dt", 2016, 10, 6, 12, 34, 0, 0, None)), ("20161006T12", ("dt", 2016, 10, 6, 12, 0, 0, 0, None)), ("2016-10-06T12:34:56.1+14:00", ("dt", 2016, 10, 6, 12, 34, 56, 100000, 50400)),
    ("2016-10-06T12:34:56-23:59", ("dt", 2016, 10, 6, 12, 34, 56, 0, -86340)), ("2016-10-06T12:34:56+23:59", ("dt", 2016, 10, 6, 12, 34, 56, 0, 86340)),
    ("2016-10-06T12:34:56+14:01", ("dt", 2016, 10, 6, 12, 34, 56, 0, 50460)), ("2016-10-06T12:34:56+1830", ("dt", 2016, 10, 6, 12, 34, 56, 0, 66600)), ("12:34:56+20", ("time", 12, 34, 56, 0, 72000)),
    ("2012W05-", None), ("2012W05-T09", None), ("2012-W05-", None), ("2012-W05-T09:00", None), ("2012W05-1", None), ("2012-W051", None), ("2012-W05T09", ("dt", 2012, 1, 30, 9, 0, 0, 0, None)), ("T10:2030", None), ("T1020:30", None),
    ("2016-280", ("date", 2016, 10, 6)), ("2016280", ("date", 2016, 10, 6)), ("2020-366", ("date", 2020, 12, 31)), ("2019-365", ("date", 2019, 12, 31)),
    ("2019-001", ("date", 2019, 1, 1)), ("2016-060", ("date", 2016, 2, 29)), ("2015-060", ("date", 2015, 3, 1)), ("2016-031", ("date", 2016, 1, 31)), ("2016-032", ("date", 2016, 2, 1)),
    ("2015-059", ("date", 2015, 2, 28)), ("2016-335", ("date", 2016, 11, 30)), ("2016-336", ("date", 2016, 12, 1)),
    ("10:20:30", ("time", 10, 20, 30, 0, None)), ("10:20", ("time", 10, 20, 0, 0, None)), ("T10:20", ("time", 10, 20, 0, 0, None)), ("102030", ("time", 10, 20, 30, 0, None)),
    ("10:20:30.123456", ("time", 10, 20, 30, 123456, None)), ("10:20:30.5", ("time", 10, 20, 30, 500000, None)), ("10:20:30,5", ("time", 10, 20, 30, 500000, None)),
    ("10:20:30.1234567", ("time", 10, 20, 30, 123456, None)), ("10:20:30.000001", ("time", 10, 20, 30, 1, None)), ("23:59:59.999999999", ("time", 23, 59, 59, 999999, None)),
    ("10:20:30.000009", ("time", 10, 20, 30, 9, None)), ("10:20:30.29", ("time", 10, 20, 30, 290000, None)), ("10:20:30.57", ("time", 10, 20, 30, 570000, None)),
    ("10:20:30.0157", ("time", 10, 20, 30, 15700, None)), ("10:20:30.0314", ("time", 10, 20, 30, 31400, None)), ("2016-10-06T12:34:56.0633Z", ("dt", 2016, 10, 6, 12, 34, 56, 63300, 0)),
    ("10:20:30.999999", ("time", 10, 20, 30, 999999, None)), ("10:20:30.0000019", ("time", 10, 20, 30, 1, None)), ("2016-10-06T12:34:56.000123", ("dt", 2016, 10, 6, 12, 34, 56, 123, None)),
    ("10:20:30+01:30", ("time", 10, 20, 30, 0, 5400)), ("10:20:30-0530", ("time", 10, 20, 30, 0, -19800)), ("10:20:30Z", ("time", 10, 20, 30, 0, 0)),
    ("2016-10-06T12:34:56", ("dt", 2016, 10, 6, 12, 34, 56, 0, None)), ("2016-10-06 12:34:56", ("dt", 2016, 10, 6, 12, 34, 56, 0, None)),
    ("20161006T123456", ("dt", 2016, 10, 6, 12, 34, 56, 0, None)), ("2016-10-06T12:34:56.123456", ("dt", 2016, 10, 6, 12, 34, 56, 123456, None)),
    ("2016-10-06T12:34:56.75", ("dt", 2016, 10, 6, 12, 34, 56, 750000, None)), ("20161006T123456.5", ("dt", 2016, 10, 6, 12, 34, 56, 500000, None)),
    ("2016-10-06T12:34:56+01:30", ("dt", 2016, 10, 6, 12, 34, 56, 0, 5400)), ("2016-10-06T12:34:56-05:30", ("dt", 2016, 10, 6, 12, 34, 56, 0, -19800)),
    ("2016-10-06T12:34:56+05", ("dt", 2016, 10, 6, 12, 34, 56, 0, 18000)), ("2016-10-06T12:34:56-0945", ("dt", 2016, 10, 6, 12, 34, 56, 0, -35100)),
    ("2016-10-06T12:34:56Z", ("dt", 2016, 10, 6, 12, 34, 56, 0, 0)), ("2016-10-06T12:34-03:00", ("dt", 2016, 10, 6, 12, 34, 0, 0, -10800)),
    ("2016-10-06T12", ("dt", 2016, 10, 6, 12, 0, 0, 0, None)), ("2016-W40-4T10:20", ("dt", 2016, 10, 6, 10, 20, 0, 0, None)), ("2016-280T10:20:30", ("dt", 2016, 10, 6, 10, 20, 30, 0, None)),
    ("2016-02-29T00:00:00", ("dt", 2016, 2, 29, 0, 0, 0, 0, None)), ("2016-12-31T23:59:59.999999+00:00", ("dt", 2016, 12, 31, 23, 59, 59, 999999, 0)),
    ("2016-13-01", None), ("2016-02-30", None), ("2015-02-29", None), ("2016-W54", None), ("2016-W40-8", None), ("2016-W40-0", None), ("2016W400", None), ("2016-W00-1", None), ("2016W001", None), ("2016-W00", None), ("2016-W53", None), ("2015-W53", ("date", 2015, 12, 28)), ("2015-W53-7", ("date", 2016, 1, 3)),
    # 24:00 denotes midnight at the end of the day: refusing it (as both parsers do) or reading it as 00:00 of the next day is right, 00:00 of the same day is not
    ("2016-10-06T24:00:00", ("either", ("dt", 2016, 10, 7, 0, 0, 0, 0, None))), ("2016-10-06T24:00", ("either", ("dt", 2016, 10, 7, 0, 0, 0, 0, None))),
    ("20161006T240000", ("either", ("dt", 2016, 10, 7, 0, 0, 0, 0, None))), ("2016-12-31T24:00:00Z", ("either", ("dt", 2017, 1, 1, 0, 0, 0, 0, 0))), ("2016-10-06T24:00:01", None),
    ("2016-000", None), ("2015-366", None), ("2016-367", None), ("2016-10-06T25:00", None), ("2016-10-06T10:61", None), ("10:20:61", None), ("2016-10-0612:34", None),
    ("2016-W404", None), ("2016W40-4", None), ("10:2030", None), ("1020:30", None), ("10:", None), ("", None), ("abc", None), ("2016-10-06T", None),
]


# forms the compiled parse_iso8601 refuses and parse() then reads (or refuses) through its common fallback, identically in both back ends:
# a year alone, and a basic time without the T designator (which parse() refuses with either back end) - confirmed by reading parsing/__init__.py
RS_LEAVES_TO_FALLBACK = {"2016", "102030"}


def _iso_table(ctx) -> list:
    """the strings of PYISO.tabulated / RSISO.tabulated with the value each denotes (None: must be refused)"""
    import datetime as _dt
    table = list(PY_ISO)
    if ctx.tier == "thorough":
        # every day of years of each kind (common / leap, long / short ISO year, century) in the six date forms, alone and with a time
        for y in (1583, 1999, 2000, 2004, 2015, 2016, 2020, 2021, 2100, 9999):
            d = _dt.date(y, 1, 1)
            while d.year == y:
                iy, iw, iwd = d.isocalendar()
                doy = d.timetuple().tm_yday
                forms = [f"{y:04d}-{d.month:02d}-{d.day:02d}", f"{y:04d}{d.month:02d}{d.day:02d}", f"{iy:04d}-W{iw:02d}-{iwd}", f"{iy:04d}W{iw:02d}{iwd}", f"{y:04d}-{doy:03d}", f"{y:04d}{doy:03d}"]
                if iy > 9999 or iy < 1:
                    forms = forms[:2] + forms[4:]
                for f_ in forms:
                    table.append((f_, ("date", d.year, d.month, d.day)))
                if d.day in (1, 15):
                    table.append((forms[0] + "T23:59:59.999999-11:30", ("dt", d.year, d.month, d.day, 23, 59, 59, 999999, -41400)))
                if d == _dt.date.max:
                    break
                d += _dt.timedelta(days=1)
        for h in range(24):
            for mi in (0, 29, 59):
                table.append((f"{h:02d}:{mi:02d}:07.5+{h % 15:02d}{mi:02d}", ("time", h, mi, 7, 500000, (h % 15) * 3600 + mi * 60)))
    return table


def _iso_verdict(text, want, got) -> str:
    """'' when `got` (a standard-library date / time / datetime, or ('raise', name)) is what `text` denotes"""
    import datetime as _dt
    if want is not None and want[0] == "either":
        if isinstance(got, tuple) and got[:1] == ("raise",) and got[1] in ("ParserError", "ValueError"):
            return ""
        want = want[1]
    if isinstance(got, tuple) and got[:1] == ("raise",):
        if want is not None:
            return f"{text!r} is refused ({got[1]}); it denotes {want}"
        if got[1] not in ("ParserError", "ValueError"):
            return f"{text!r} raises {got[1]} instead of a ValueError (ParserError)"
        return ""
    if want is None:
        return f"{text!r} is accepted as {got!r}; it must be refused"
    if want[0] == "date":
        ok = type(got) is _dt.date and (got.year, got.month, got.day) == want[1:]
    elif want[0] == "time":
        ok = type(got) is _dt.time and (got.hour, got.minute, got.second, got.microsecond) == want[1:5] and \
            ((got.utcoffset() is None) if want[5] is None else (got.tzinfo is not None and got.utcoffset() == _dt.timedelta(seconds=want[5])))
    else:
        ok = type(got) is _dt.datetime and (got.year, got.month, got.day, got.hour, got.minute, got.second, got.microsecond) == want[1:8] and \
            ((got.tzinfo is None) if want[8] is None else (got.tzinfo is not None and got.utcoffset() == _dt.timedelta(seconds=want[8])))
    return "" if ok else f"{text!r} -> {got!r} (expected {want})"


def pyo3_models(mir=None) -> list:
    """what the pyo3 functions the crate's Python layer ends in stand for, for the MIR evaluator: the constructors of the standard library's
    date / time / datetime (a ValueError of the constructor is the Err the binding returns), Py::new / to_object / downcast_bound hand the value on"""
    import datetime as _dt
    from ..mirexec import Enum, Opaque, Ref, Struct

    def tz_of(opt):
        if opt.variant == "None":
            return None
        t = opt.payload[0]
        t = t.get() if isinstance(t, Ref) else t
        if not isinstance(t, Struct) or "offset" not in t.names:
            raise core.Unsupported("tzinfo handed to the constructor is not a FixedTimezone of the crate")
        if mir is not None:
            # what Python sees of the zone is what its utcoffset() method answers: the crate's own method, evaluated on its MIR
            fns = [f_ for n_, f_ in mir.fns.items() if n_.endswith("::utcoffset") and "timezone" in n_ and "__pymethod" not in n_]
            if len(fns) == 1:
                from .. import mirexec
                M = mirexec.Machine(mir, {})
                M.ext = [(r"PyDelta::new_bound$", lambda py, d, s_, us, norm: Enum("Ok", [_dt.timedelta(days=d, seconds=s_, microseconds=us)]))]
                r = M.run(fns[0], [Ref([t], 0), Opaque(), Ref([None], 0)])
                if not (isinstance(r, Enum) and r.variant == "Ok" and isinstance(r.payload[0], _dt.timedelta)):
                    raise core.Unsupported(f"FixedTimezone.utcoffset() answers {r!r}")
                return _dt.timezone(r.payload[0])
        return _dt.timezone(_dt.timedelta(seconds=t.get("offset")))

    def guard(f):
        def g(*a):
            try:
                return Enum("Ok", [f(*a)])
            except (ValueError, OverflowError):
                return Enum("Err", [Opaque()])
        return g
    return [(r"PyDateTime::new_bound$", guard(lambda py, y, mo, d, h, mi, s_, us, tz: _dt.datetime(y, mo, d, h, mi, s_, us, tzinfo=tz_of(tz)))),
           (r"PyDate::new_bound$", guard(lambda py, y, mo, d: _dt.date(y, mo, d))),
           (r"PyTime::new_bound$", guard(lambda py, h, mi, s_, us, tz: _dt.time(h, mi, s_, us, tzinfo=tz_of(tz)))),
           (r"pyo3::Py::<.*>::new::<", lambda py, v: Enum("Ok", [v])),
           (r"as pyo3::ToPyObject>::to_object$", lambda r, py: r.get() if isinstance(r, Ref) else r),
           (r"::downcast_bound::<", lambda r, py: Enum("Ok", [r])),
           (r"PyValueError::new_err::<", lambda s_: Opaque())]


def _rs_iso_tabulate(ctx, mir) -> None:
    """RSISO.tabulated: the compiled parser decided on values: the MIR of python::parsing::parse_iso8601 and of everything it reaches in the
    crate (Parser::new / parse / parse_datetime / parse_time / parse_integer / iso_to_ymd / ordinal_to_ymd, the calendar helpers) is
    evaluated by the checker's MIR evaluator (pvs/mirexec.py) on the table of PYISO.tabulated; the pyo3 constructors it ends in
    (PyDate / PyTime / PyDateTime::new_bound, Py::new, to_object, downcast_bound) stand for the standard library's date / time /
    datetime.  Accepted strings must yield exactly the value they denote, refused ones a ValueError."""
    import datetime as _dt
    from .. import mirexec
    from ..mirexec import Enum, Opaque, Ref, Struct
    rel = "rust/src/parsing.rs"
    if mir is None:
        return
    sf = mirsym.struct_fields_from_source((core.REPO / rel).read_text())

    ext = pyo3_models(mir)
    bad, n = [], 0
    try:
        f = mir.fn("parse_iso8601")
        for text, want in _iso_table(ctx):
            if text in RS_LEAVES_TO_FALLBACK:
                continue
            M = mirexec.Machine(mir, sf)
            M.ext = ext
            n += 1
            try:
                r = M.run(f, [Opaque(), text])
            except mirexec.Panic as e:
                bad.append(f"{text!r}: the compiled parser panics ({e})")
                continue
            if not isinstance(r, Enum) or r.variant not in ("Ok", "Err"):
                raise core.Unsupported(f"result {r!r}")
            got = r.payload[0] if r.variant == "Ok" else ("raise", "ValueError")
            if isinstance(got, Struct):
                continue          # a Duration of the crate: decided by C13
            v = _iso_verdict(text, want, got)
            if v:
                bad.append(v)
    except (core.Unsupported, core.AnchorMissing, KeyError, TypeError, AttributeError, IndexError, ValueError, RecursionError) as e:
        ctx.unverified("RSISO.tabulated", "rs:parse_iso8601", f"outside the MIR evaluator: {type(e).__name__}: {str(e)[:200]}", rel)
        return
    ctx.ob("RSISO.tabulated", "rs:parse_iso8601", not bad, f"{n} strings evaluated on the MIR of the compiled parser: " + ("; ".join(bad[:3]) if bad else
           "every accepted string yields the value it denotes, every malformed one a ValueError"), rel)
    if not bad:
        for cons in ("rs:ordinal_to_ymd", "rs:iso_to_ymd", "rs:parse_time"):
            ctx.established(("CUMSEARCH.forward", "WEEKDATE", "FRACTION", "OFFSET.parse"), cons, "RSISO.tabulated")


def _py_iso_tabulate(ctx) -> None:
    """PYISO.tabulated: the pure-Python `parse_iso8601` run by the checker's interpreter (ISO8601_DT matched by the standard library's
    `re`, the calendar helpers interpreted from _helpers.py, date / time / datetime built by the standard library) on a table of
    calendar, week and ordinal dates in extended and basic format (year boundaries of long and short ISO years, leap days,
    month boundaries of the ordinal search), times to the hour, minute, second and with fractions of 1-9 digits, offsets of both
    signs in the three spellings and Z, date-time combinations with 'T' and space - and on strings that must be refused.  Accepted
    strings must yield exactly the value they denote, refused ones a ValueError (ParserError is one)."""
    import datetime as _dt
    from ..rules import minieval
    m = pmod("parsing.iso8601")
    fn = m.func("parse_iso8601")
    hm = pmod("_helpers")
    try:
        pat = re.compile(core.const("parsing.iso8601", "ISO8601_DT"), re.VERBOSE)
        hfuncs = {st.name: st for st in hm.top() if isinstance(st, ast.FunctionDef)}
        hglob = {**hfuncs, "$globals": {**minieval.module_consts(hm), "math": minieval.Stub(floor=__import__("math").floor)}}
        funcs = {st.name: st for st in m.top() if isinstance(st, ast.FunctionDef)}
        for name_ in ("days_in_year", "is_leap", "is_long_year", "week_day"):
            if name_ in hfuncs:
                funcs[name_] = (hfuncs[name_], hglob)
        glob = {**minieval.module_consts(m), "ISO8601_DT": pat, "ISO8601_DURATION": re.compile(core.const("parsing.iso8601", "ISO8601_DURATION"), re.VERBOSE),
                "ParserError": ValueError, "ValueError": ValueError, "datetime": minieval.Stub(datetime=_dt.datetime, date=_dt.date, time=_dt.time, timedelta=_dt.timedelta),
                "UTC": _dt.timezone.utc, "FixedTimezone": minieval.ClassStub(_new=lambda off, *a, **k: _dt.timezone(_dt.timedelta(seconds=off)), _isa=lambda v: False),
                "Duration": minieval.ClassStub(_new=lambda *a, **k: minieval.Stub(_duration=True), _isa=lambda v: False), "Timezone": None}
        bad, n = [], 0
        table = _iso_table(ctx)
        for text, want in table:
            n += 1
            try:
                got = minieval.call(fn, [text], {}, {**funcs, "$globals": glob})
            except minieval.Raised as e:
                got = ("raise", e.exc_name)
            v = _iso_verdict(text, want, got)
            if v:
                bad.append(v)
    except (core.Unsupported, KeyError, TypeError, AttributeError, IndexError, ValueError, re.error, RecursionError) as e:
        ctx.unverified("PYISO.tabulated", "parse_iso8601", f"outside the checker's interpreter: {type(e).__name__}: {e}", m.loc(fn))
        return
    ctx.ob("PYISO.tabulated", "parse_iso8601", not bad, f"{n} strings: " + ("; ".join(bad[:3]) if bad else "every accepted string yields the value it denotes, every malformed one ParserError"),
           m.loc(fn))
    if not bad:
        ctx.established(("CUMSEARCH", "FRACTION"), "py:parse_iso8601", "PYISO.tabulated")
        ctx.established(("WEEKDATE",), "py:_get_iso_8601_week", "PYISO.tabulated")
        ctx.established(("OFFSET.parse",), "py:iso8601.parse_iso8601", "PYISO.tabulated")


def _offset_starters(ctx, mir) -> None:
    """a time of day is over where the offset begins, and an offset begins with 'Z', '+' or '-': wherever the compiled parser decides
    "is there more of the time?" by testing the current character against one of them (a chain of `!=` tests sharing their exit),
    the chain must name all three - otherwise a time given to that precision followed by the missing kind of offset is rejected"""
    rel = "rust/src/parsing.rs"
    n = 0
    for name, g in sorted(mir.fns.items()):
        if "parsing" not in name or "python" in name:
            continue
        short = name.rsplit("::", 1)[-1]
        sites = {}
        for b, s_ in g.all_stmts():
            if s_.op == "Ne" and len(s_.args) == 2 and re.fullmatch(r"const '.'", s_.args[1]) and b.switch and b.switch[0] == s_.dest:
                sites[b.idx] = (s_.args[1][7], set(b.succs))
        done = set()
        for bi in sorted(sites):
            if bi in done:
                continue
            chain, cur = [bi], bi
            while True:
                nxt = [j for j in sites[cur][1] if j in sites and j not in chain and (sites[j][1] & sites[cur][1])]
                if not nxt:
                    break
                cur = nxt[0]
                chain.append(cur)
            done.update(chain)
            chars = {sites[j][0] for j in chain}
            if len(chain) >= 2 and chars & {"Z", "+", "-"}:
                n += 1
                missing = {"Z", "+", "-"} - chars
                ctx.ob("OFFSET.starters", f"rs:{short}/chain@{n}", not missing,
                       f"the end-of-time test names {sorted(chars)}" + (f" but not {sorted(missing)}: e.g. `10:20{sorted(missing)[0]}05:00` is rejected "
                       f"(or read as more time) at this precision" if missing else ""), rel)
    ctx.count("offset_starter_chains", n)


def run(ctx) -> None:
    ctx.explanation = EXPLANATION
    ctx.step(_py_iso_tabulate, ctx)
    from . import C13
    ctx.step(C13.parse_results_tabulate, ctx)         # what pendulum.parse builds from the value the parser returns (offset kept, no arithmetic on the way: 9999-12-31 with a negative offset is a value)
    ctx.step(_table_is_cumulative, ctx)
    ctx.step(_py_forward, ctx)
    ctx.step(_py_backward, ctx)
    mir = None
    sf = {}
    try:
        mir = mirfront.load()
        sf = mirsym.struct_fields_from_source((core.REPO / "rust/src/parsing.rs").read_text())
    except mirfront.MirUnavailable as e:
        ctx.unverified("RUST", "parsing.rs", f"MIR unavailable, Rust clauses not checked: {e}", "rust/")
    if mir is not None:
        ctx.step(_rs_iso_tabulate, ctx, mir)
        _rs_forward(ctx, mir, sf)
        _rs_backward(ctx, mir)
        _separators(ctx, mir)
        ctx.step(_offset_starters, ctx, mir)
        ctx.expect_min("SEPARATOR.pair", 10)
    ctx.step(_week, ctx, mir, sf)
    ctx.step(_fraction, ctx, mir)
    ctx.step(_offset, ctx, mir, sf)
    ctx.step(_wrap_sites, ctx)
    ctx.expect_min("CUMSEARCH", 10)
    ctx.expect_min("WEEKDATE", 3)
    ctx.expect_min("OFFSET.parse", 3)
    ctx.expect_min("RECON.slot", 10)
