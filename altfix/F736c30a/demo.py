"""from_format() with the timestamp tokens x (milliseconds) and X (seconds, optional fraction):
the result must be the epoch plus that many milli/microseconds, also before the epoch.
Expected values come from datetime + timedelta (integer arithmetic)."""
import datetime as dt
import random
import sys
from decimal import Decimal

import pendulum

EPOCH = dt.datetime(1970, 1, 1, tzinfo=dt.timezone.utc)
bad = []
n = 0


def check(text, fmt, want):
    global n
    n += 1
    got = pendulum.from_format(text, fmt)
    if got != want or got.microsecond != want.microsecond or got.utcoffset() != dt.timedelta(0):
        bad.append(f"from_format({text!r}, {fmt!r}) = {got.isoformat()}, expected {want.isoformat()}")


# the example of the report, hand-computed: -7460165348001 ms = -7460165349 s + 999 ms
r = pendulum.from_format("-7460165348001", "x")
if r.isoformat() != "1733-08-06T11:50:51.999000+00:00":
    bad.append(f"example: {r.isoformat()}")

rng = random.Random(736)
values = [-1, -999, -1000, -1001, -1500, -86400001, -86400000, 0, 1, 999, 1001, -7460165348001, 7460165348001]
values += [rng.randint(-9_000_000_000_000, 9_000_000_000_000) for _ in range(3000)]
values += [rng.randint(-5000, 5000) for _ in range(300)]
for ms in values:
    check(str(ms), "x", EPOCH + dt.timedelta(milliseconds=ms))

texts = ["-0.25", "-1.5", "-0.001", "-0.999999", "-2", "-2.0", "1.5", "0.25", "-7460165348.001"]
for _ in range(3000):
    whole = rng.randint(0, 999_999_999)
    digits = rng.randint(1, 6)
    frac = str(rng.randint(0, 10**digits - 1)).rjust(digits, "0")
    texts.append(f"{rng.choice('-+') if rng.random() < 0.7 else ''}{whole}.{frac}")
    texts.append(f"{rng.choice(['-', ''])}{rng.randint(0, 3)}.{frac}")
for text in texts:
    us = int(Decimal(text) * 1_000_000)
    check(text, "X", EPOCH + dt.timedelta(microseconds=us))

if bad:
    print(f"{len(bad)} of {n} checks failed, e.g.:")
    for b in bad[:10]:
        print("  ", b)
    sys.exit(1)
print(f"ok: {n} timestamp checks")
