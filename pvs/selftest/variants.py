"""Seeded one-site variants (id, property, file, old, new, expected rule | None[, count])."""
DT = "src/pendulum/datetime.py"
TZ = "src/pendulum/tz/timezone.py"
INIT = "src/pendulum/__init__.py"

VARIANTS = [
    ("C01-clean", "C01", None, "", "", None),
    ("C01-astz-replace", "C01", TZ, "return cast(_DT, dt.astimezone(self))\n\n    def datetime(\n        self,\n        year: int,\n        month: int,\n        day: int,\n        hour: int = 0,\n        minute: int = 0,\n        second: int = 0,\n        microsecond: int = 0,\n    ) -> _datetime.datetime:\n        \"\"\"",
     "return cast(_DT, dt.replace(tzinfo=self))\n\n    def datetime(\n        self,\n        year: int,\n        month: int,\n        day: int,\n        hour: int = 0,\n        minute: int = 0,\n        second: int = 0,\n        microsecond: int = 0,\n    ) -> _datetime.datetime:\n        \"\"\"", "FUNNEL.aware"),
    ("C01-astimezone-dropfold", "C01", DT, "            fold=dt.fold,\n            tzinfo=dt.tzinfo,\n", "            tzinfo=dt.tzinfo,\n", "RECON.state"),
    ("C01-fromutc-sub", "C01", TZ, "_datetime.datetime.__add__(dt, self._utcoffset)", "_datetime.datetime.__sub__(dt, self._utcoffset)", "TZINFO.fromutc"),
    ("C01-add-plus-offset", "C01", DT, "current_dt = current_dt - offset", "current_dt = current_dt + offset", "OFFSET.add-utc-frame"),
    ("C01-secs-per-hour", "C01", DT, "return delta.days * SECONDS_PER_DAY + delta.seconds", "return delta.days * SECONDS_PER_MINUTE * MINUTES_PER_HOUR + delta.seconds", "UNITS.int_timestamp"),
    ("C01-in_tz-noforward", "C01", DT, "        return self.in_timezone(tz)\n", "        return self.replace(tzinfo=pendulum._safe_timezone(tz))\n", "FUNNEL.forward"),
    ("C01-in_timezone-swap-min-sec", "C01", DT, "            dt.minute,\n            dt.second,\n            dt.microsecond,\n            fold=dt.fold,\n            tzinfo=dt.tzinfo,", "            dt.second,\n            dt.minute,\n            dt.microsecond,\n            fold=dt.fold,\n            tzinfo=dt.tzinfo,", "RECON.slot"),
    ("C01-instance-no-astz", "C01", DT, "            dt = dt.astimezone(tz)\n\n        return cls.create(", "            pass\n\n        return cls.create(", "AWARE-INSTANT.kinds"),
    ("C01-from_timestamp-local", "C01", INIT, "dt = _datetime.datetime.utcfromtimestamp(timestamp)", "dt = _datetime.datetime.fromtimestamp(timestamp)", "OFFSET.from_timestamp"),
    ("C01-dst-nonzero", "C01", TZ, "        return _datetime.timedelta()\n", "        return self._utcoffset\n", "TZINFO.dst"),
    ("C01-utcoffset-minutes", "C01", TZ, "self._utcoffset = _datetime.timedelta(seconds=offset)", "self._utcoffset = _datetime.timedelta(minutes=offset)", "TZINFO.utcoffset"),
]

VARIANTS += [
    ("C02-clean", "C02", None, "", "", None),
    ("C02-gt-ge", "C02", TZ, "if offset_after > offset_before:", "if offset_after >= offset_before:", "ABSCASE.case"),
    ("C02-swap-arms", "C02", TZ, "                        (offset_after - offset_before)\n                        if dt.fold\n                        else (offset_before - offset_after)", "                        (offset_before - offset_after)\n                        if dt.fold\n                        else (offset_after - offset_before)", "ABSCASE.case"),
    ("C02-fold-default-0", "C02", DT, "        fold: int = 1,\n        raise_on_unknown_times: bool = False,\n    ) -> Self:", "        fold: int = 0,\n        raise_on_unknown_times: bool = False,\n    ) -> Self:", "DEFAULTS.fold"),
    ("C02-set-no-fold", "C02", DT, "year, month, day, hour, minute, second, microsecond, tz=tz, fold=self.fold\n", "year, month, day, hour, minute, second, microsecond, tz=tz\n", "FUNNEL.fold"),
    ("C02-datetime-drop-raise", "C02", INIT, "        fold=fold,\n        raise_on_unknown_times=raise_on_unknown_times,\n", "        fold=fold,\n", "FUNNEL.forward"),
    ("C02-same-fold-query", "C02", TZ, "(self.utcoffset(dt) if dt.fold else self.utcoffset(dt.replace(fold=1))),", "(self.utcoffset(dt) if dt.fold else self.utcoffset(dt.replace(fold=0))),", "ABSCASE.queries"),
    ("C02-ambiguous-elif-drop-raise-flag", "C02", TZ, "elif offset_before > offset_after and raise_on_unknown_times:", "elif offset_before > offset_after:", "ABSCASE.case"),
    ("C02-raise-wrong-exc", "C02", TZ, "                    raise NonExistingTime(dt)", "                    raise AmbiguousTime(dt)", "ABSCASE.case"),
    ("C02-tzdatetime-fold0", "C02", TZ, "year, month, day, hour, minute, second, microsecond, fold=1\n            )\n        )\n\n    def __repr__", "year, month, day, hour, minute, second, microsecond, fold=0\n            )\n        )\n\n    def __repr__", "FUNNEL.fold-default"),
    ("C02-create-no-raise-forward", "C02", DT, "dt = tz.convert(dt, raise_on_unknown_times=raise_on_unknown_times)", "dt = tz.convert(dt)", "FUNNEL.create"),
    ("C02-create-dropfold", "C02", DT, "            year, month, day, hour, minute, second, microsecond, fold=fold\n", "            year, month, day, hour, minute, second, microsecond\n", "FUNNEL.create"),
    ("C02-replace-fold-self", "C02", DT, "        if fold is None:\n            fold = self.fold\n", "        if fold is None:\n            fold = 1\n", "FUNNEL.fold"),
    ("C02-at-swap", "C02", DT, "hour=hour, minute=minute, second=second, microsecond=microsecond\n        )\n\n    def in_timezone", "hour=hour, minute=second, second=minute, microsecond=microsecond\n        )\n\n    def in_timezone", "FUNNEL.forward"),
    ("C02-fixed-convert-swap", "C02", TZ, "                dt.minute,\n                dt.second,\n", "                dt.second,\n                dt.minute,\n", "RECON.slot"),
    ("C02-refactor-equivalent", "C02", TZ, "if offset_after > offset_before:", "if offset_before < offset_after:", None),
]
