"""C06 — interval components are canonical; Python and Rust precise_diff agree."""
from __future__ import annotations

import ast
import re

from .. import cfg, core, mirfront, mirsym
from ..core import nun, pmod, un
from ..rules.canon import Canon

EXPLANATION = (
    "Decided statically, on the Python AST and on rustc's MIR of the compiled helper: (1) the borrow chain of "
    "precise_diff is [(us,10^6->s),(s,60->min),(min,60->h),(h,24->day),(month,12->year)] in both back ends, in "
    "that order, each guarded by `< 0`, adding exactly the radix and borrowing exactly 1 (hence the stated "
    "ranges); (2) the day<0 month branch, executed symbolically on every path in both languages, yields the "
    "same set of (path condition, day update, month update) triples; (3) the sign multiplies all 8 outputs, "
    "each output slot receives its own difference; (4) the Rust operand descriptors for dt1 and dt2 are built "
    "by the same calls and their offset normalisation blocks are mirror images (1<->2 renaming); (5) the "
    "back-end switch imports the same names on both arms and _pendulum.pyi / #[pyfunction] / _helpers.py "
    "agree on names and arity; (6) Interval's component properties read the PreciseDiff, in_months = "
    "years*12+months, __neg__ swaps the endpoints. NOT decided: that the three-way month branch is right for "
    "every (day, month-length) coincidence - both back ends are only shown to implement the same branch."
    ' Also: the native copies built in Interval.__init__ for precise_diff carry every field (RECON); the pure-Python UTC shift moves each end point whenever its own offset is non-zero, under `not in_same_tz or total_days == 0`; the compiled UTC normalisation of both end points equals, path summary by path summary, a reference model (carries at 60/60/24, then the date rolled into month/year), and DateTimeInfo is ordered by the full broken-down time.'
    ' As built (added): LENGTH.exact - Interval.__new__ evaluated on naive, UTC and date pairs up to 9998 years apart must hand the Duration constructor the exact difference (remaining_seconds / microseconds are read from it); DIRECTION.tabulated - b - a with a native operand on either side is the interval between exactly a and b.'
)

ROLE_ORDER = ["microsecond", "second", "minute", "hour", "day", "month", "year"]
WANT_CHAIN = [("microsecond", 1000000, "second"), ("second", 60, "minute"), ("minute", 60, "hour"),
              ("hour", 24, "day"), ("month", 12, "year")]
PY_NAMES = {"mic_diff": "microsecond", "sec_diff": "second", "min_diff": "minute", "hour_diff": "hour",
            "d_diff": "day", "m_diff": "month", "y_diff": "year", "total_days": "total_days"}
RS_NAMES = {"microsecond_diff": "microsecond", "second_diff": "second", "minute_diff": "minute",
            "hour_diff": "hour", "day_diff": "day", "month_diff": "month", "year_diff": "year",
            "total_days": "total_days"}
OUT_SLOTS = ["years", "months", "days", "hours", "minutes", "seconds", "microseconds", "total_days"]
SLOT_ROLE = dict(zip(OUT_SLOTS, ["year", "month", "day", "hour", "minute", "second", "microsecond", "total_days"]))


# ---------------------------------------------------------------------------
# Python side


def py_roles(fn: ast.FunctionDef) -> dict[str, str]:
    """variable -> role, derived from `X = d2.F - d1.F` / `X += d2.F - d1.F`, name table as fall-back."""
    roles: dict[str, str] = {}
    for n in core.walk_fn(fn):
        tgt = val = None
        if isinstance(n, ast.Assign) and len(n.targets) == 1 and isinstance(n.targets[0], ast.Name):
            tgt, val = n.targets[0].id, n.value
        elif isinstance(n, ast.AugAssign) and isinstance(n.target, ast.Name) and isinstance(n.op, ast.Add):
            tgt, val = n.target.id, n.value
        if tgt and isinstance(val, ast.BinOp) and isinstance(val.op, ast.Sub) \
                and isinstance(val.left, ast.Attribute) and isinstance(val.right, ast.Attribute) \
                and val.left.attr == val.right.attr and un(val.left.value) == "d2" and un(val.right.value) == "d1":
            roles.setdefault(tgt, val.left.attr)
    for k, v in PY_NAMES.items():
        roles.setdefault(k, v)
    return roles


def py_chain(ctx, m: core.Mod, fn: ast.FunctionDef) -> list[tuple[str, int, str]]:
    roles = py_roles(fn)
    chain = []
    for n in sorted((x for x in core.walk_fn(fn) if isinstance(x, ast.If)), key=lambda x: x.lineno):
        t = n.test
        if not (isinstance(t, ast.Compare) and len(t.ops) == 1 and isinstance(t.left, ast.Name)
                and core.is_const(t.comparators[0], 0) and t.left.id in roles):
            continue
        x = t.left.id
        augs = [s for s in n.body if isinstance(s, ast.AugAssign) and isinstance(s.target, ast.Name)]
        if len(augs) != len(n.body) or len(augs) != 2 or n.orelse:
            continue   # not a pure borrow block (e.g. the day<0 month branch)
        add = [s for s in augs if s.target.id == x]
        oth = [s for s in augs if s.target.id != x]
        if len(add) != 1 or len(oth) != 1:
            continue
        ok_shape = isinstance(t.ops[0], ast.Lt) and isinstance(add[0].op, ast.Add) and isinstance(add[0].value, ast.Constant) \
            and isinstance(oth[0].op, ast.Sub) and core.is_const(oth[0].value, 1)
        ctx.ob("BORROW.shape", f"py:precise_diff/{roles[x]}", ok_shape,
               f"`if {un(t)}: {[un(s) for s in n.body]}`; a borrow is `if x < 0: x += radix; y -= 1`", m.loc(n))
        if ok_shape:
            chain.append((roles[x], add[0].value.value, roles.get(oth[0].target.id, oth[0].target.id)))
    return chain


# ---------------------------------------------------------------------------
# Rust side (MIR)


def _resolve_use(f: mirfront.MirFn, blk: mirfront.Block, a: str) -> str:
    for _ in range(6):
        d = [s for s in blk.stmts if s.dest == a and s.op == "use"]
        if not d:
            break
        a = d[0].args[0]
    return a


def rs_chain(ctx, f: mirfront.MirFn) -> list[tuple[str, int, str]]:
    names = f.names()
    chain = []
    for bi in sorted(f.blocks):
        b = f.blocks[bi]
        if not b.switch:
            continue
        cs = [s for s in b.stmts if s.dest == b.switch[0] and s.op in ("Lt", "Le", "Gt", "Ge")]
        if not cs or cs[0].args[1] != "const 0_i32":
            continue
        x = _resolve_use(f, b, cs[0].args[0])
        if names.get(x) not in RS_NAMES:
            continue
        role = RS_NAMES[names[x]]
        tgt = b.switch[1].get("otherwise")
        if tgt is None:
            continue
        tb = f.blocks[tgt]
        ups = [s for s in tb.stmts if s.dest and s.op in ("Add", "Sub", "AddWithOverflow", "SubWithOverflow")]
        if len(tb.stmts) != 2 or len(ups) != 2:
            continue
        add = [s for s in ups if s.dest == x]
        oth = [s for s in ups if s.dest != x]
        if len(add) != 1 or len(oth) != 1:
            continue
        r = mirfront.const_val(add[0].args[1])
        ok_shape = cs[0].op == "Lt" and add[0].op == "Add" and add[0].args[0] == x and r is not None \
            and oth[0].op == "Sub" and oth[0].args[0] == oth[0].dest and mirfront.const_val(oth[0].args[1]) == 1
        ctx.ob("BORROW.shape", f"rs:precise_diff/{role}", ok_shape,
               f"bb{bi}: {cs[0].raw} -> {[s.raw for s in tb.stmts]}; a borrow is `if x < 0 {{ x += radix; y -= 1 }}`",
               "rust/src/python/helpers.rs")
        if ok_shape:
            chain.append((role, r, RS_NAMES.get(names.get(oth[0].dest, ""), names.get(oth[0].dest, oth[0].dest))))
    return chain


def _month_region_py(m: core.Mod, fn: ast.FunctionDef, roles: dict[str, str]):
    inv = {v: k for k, v in roles.items()}
    dvar, mvar = inv["day"], inv["month"]
    node = None
    for n in core.walk_fn(fn):
        if isinstance(n, ast.If) and nun(n.test) == f"{dvar} < 0" and not (len(n.body) == 2 and all(isinstance(s, ast.AugAssign) for s in n.body)):
            node = n
    if node is None:
        raise core.Unsupported("py: `if <day diff> < 0` month branch not found")
    can = Canon({"d2": "B", "d1": "A", dvar: "DAY", mvar: "MONTH"})
    out = set()
    for p in cfg.paths(node.body):
        conds = []
        for i, e in enumerate(p):
            if e[0] == "assume":
                t = ast.parse(e[1], mode="eval").body
                t = cfg.subst_path(cfg.Path(p[:i]), t, set())
                conds.append(can.cond(t, e[2]))
        d = can.s(cfg.subst_path(p, ast.Name(dvar, ast.Load()), set()))
        mo = can.s(cfg.subst_path(p, ast.Name(mvar, ast.Load()), set()))
        out.add((frozenset(conds), d, mo))
    return out, node


def _month_region_rs(f: mirfront.MirFn, sf) -> set:
    names = f.names()
    day, month = f.local("day_diff"), f.local("month_diff")
    start = stop = None
    for bi in sorted(f.blocks):
        b = f.blocks[bi]
        if not b.switch:
            continue
        cs = [s for s in b.stmts if s.dest == b.switch[0] and s.op == "Lt" and s.args[1] == "const 0_i32"]
        if cs:
            x = _resolve_use(f, b, cs[0].args[0])
            if x == day:
                start = bi
            if x == month:
                stop = bi
    if start is None or stop is None:
        raise core.Unsupported("rs: day/month `< 0` tests not found in MIR")
    sym = mirsym.Sym(f, sf)
    can = Canon({"dtinfo2": "B", "dtinfo1": "A", "day_diff": "DAY", "month_diff": "MONTH"})
    out = set()
    first = f.blocks[start].switch[1]["otherwise"]
    for p in sym.run(first, {stop}):
        conds = []
        for v, key in p.conds:
            if isinstance(v, ast.Call) and un(v.func) == "discriminant" and isinstance(v.args[0], ast.Call) \
                    and un(v.args[0].func) == "cmp":
                a, b = v.args[0].args
                lt = ast.Compare(a, [ast.Lt()], [b])
                eq = ast.Compare(a, [ast.Eq()], [b])
                if key == 255:
                    conds.append(can.cond(lt, True))
                elif key == 0:
                    conds += [can.cond(lt, False), can.cond(eq, True)]
                elif key == 1:
                    conds += [can.cond(lt, False), can.cond(eq, False)]
                else:
                    raise core.Unsupported(f"rs: unexpected Ordering discriminant {key}")
                continue
            cb = mirsym.cond_bool(v, key)
            if cb is None:
                raise core.Unsupported(f"rs: non-boolean branch on {un(v)[:60]}")
            conds.append(can.cond(cb[0], cb[1]))
        d = can.s(p.state.get(day, ast.Name("day_diff", ast.Load())))
        mo = can.s(p.state.get(month, ast.Name("month_diff", ast.Load())))
        out.add((frozenset(conds), d, mo))
    _ = names
    return out


_MB_OK = (ast.Expression, ast.Constant, ast.Name, ast.Load, ast.Attribute, ast.UnaryOp, ast.USub, ast.Not, ast.BinOp, ast.Add, ast.Sub, ast.Mult,
          ast.Compare, ast.Eq, ast.NotEq, ast.Lt, ast.LtE, ast.Gt, ast.GtE, ast.Subscript, ast.Call, ast.BoolOp, ast.And, ast.Or, ast.IfExp)


def _mb_compile(src: str):
    """canonical summary text -> closed arithmetic function of (A, B, DAY, MONTH); only +, -, *, comparisons, table lookups
    and is_leap() are admitted (the checker's evaluator - no pendulum code is run)"""
    tree = ast.parse(src, mode="eval")
    for n in ast.walk(tree):
        if not isinstance(n, _MB_OK):
            raise core.Unsupported(f"month branch: `{type(n).__name__}` in `{src[:60]}` is outside the evaluator")
        if isinstance(n, ast.Call) and not ((un(n.func) == "is_leap" and len(n.args) == 1) or (un(n.func) in ("max", "min") and len(n.args) >= 2 and not n.keywords)):
            raise core.Unsupported(f"month branch: call `{un(n)[:40]}` is outside the evaluator")
        if isinstance(n, ast.Name) and n.id not in ("A", "B", "DAY", "MONTH", "DAYS_PER_MONTHS", "is_leap", "max", "min", "True", "False"):
            raise core.Unsupported(f"month branch: free name `{n.id}`")
    code = compile(tree, "<summary>", "eval")
    return lambda env: eval(code, {"__builtins__": {}, "max": max, "min": min}, env)      # noqa: S307 - whitelisted arithmetic only


def _month_tabulate(ctx, region: set, who: str, site: str) -> None:
    """'added back to a give exactly b', month/day part, decided by tabulation over the whole finite domain.
    Inputs of the branch: a = d1.day, b = d2.day, d2's month and year, and the borrow beta taken from the time of day
    (DAY = b - a - beta < 0 on entry).  add() lands on day min(a, len(X)) of the month X reached by the reported months,
    then adds DAY' days and the time difference (which carries beta days).  So with the month kept (MONTH unchanged)
    min(a, len(d2's month)) + DAY' + beta must equal b, and with one month borrowed (MONTH - 1)
    min(a, len(previous month)) + DAY' + beta must equal len(previous month) + b; 0 <= DAY' <= 30 either way."""
    dpm = core.const("constants", "DAYS_PER_MONTHS")
    paths = []
    try:
        for conds, d, mo in region:
            paths.append(([(_mb_compile(c), pol) for c, pol in conds], _mb_compile(d), _mb_compile(mo)))
    except (core.Unsupported, SyntaxError) as e:
        ctx.unverified("MONTHBRANCH.rebuild", f"{who}:precise_diff/day<0", str(e), site)
        return
    n = bad = 0
    first = None
    undecided = 0
    from types import SimpleNamespace as NS
    greg = lambda y: int(y % 4 == 0 and (y % 100 != 0 or y % 400 == 0))      # noqa: E731 - the rule FORMULA/SIBLING.is_leap establish
    texts = " ".join([c for conds, d, mo in region for c, _ in conds] + [x for _, d, mo in region for x in (d, mo)])
    # the month and year of the start point matter only when the branch reads them (it should not): then earlier years / months too
    wide = "A.year" in texts or "A.month" in texts

    def starts(year):
        return [(year, 1), (year - 1, 1), (year - 1, 7), (year - 3, 2)] if wide else [(year, 1)]
    try:
        for year in (2023, 2024, 2025):          # (leap(y), leap(y-1)) = (0,0), (1,0), (0,1)
            for month in range(1, 13):
                leap = int(year % 4 == 0 and (year % 100 != 0 or year % 400 == 0))
                dim = dpm[leap][month]
                py, pm = (year - 1, 12) if month == 1 else (year, month - 1)
                dilm = dpm[int(py % 4 == 0 and (py % 100 != 0 or py % 400 == 0))][pm]
                for b in range(1, dim + 1):
                    for a in range(1, 32):
                        for beta in (0, 1):
                            day = b - a - beta
                            if day >= 0:
                                continue
                            for ay, am in starts(year):
                                env = {"A": NS(day=a, year=ay, month=am), "B": NS(day=b, month=month, year=year), "DAY": day, "MONTH": 0,
                                       "DAYS_PER_MONTHS": dpm, "is_leap": greg}
                                live = [p for p in paths if all(bool(c(env)) == pol for c, pol in p[0])]
                                n += 1
                                if len(live) != 1:
                                    undecided += 1
                                    continue
                                dd, mm = live[0][1](env), live[0][2](env)
                                if mm == 0:
                                    ok = min(a, dim) + dd + beta == b
                                elif mm == -1:
                                    ok = min(a, dilm) + dd + beta == dilm + b
                                else:
                                    ok = False
                                ok = ok and 0 <= dd <= 30
                                if not ok:
                                    bad += 1
                                    if first is None:
                                        first = (f"start day {a}" + (f" (start point in year {ay})" if len(starts(year)) > 1 else "") + f", end {year}-{month:02d}-{b:02d}, end time of day "
                                                 f"{'earlier' if beta else 'not earlier'} than the start's: reported month change {mm}, days {dd}")
    except (core.Unsupported, KeyError, IndexError, SyntaxError, AttributeError, NameError, TypeError) as e:
        ctx.unverified("MONTHBRANCH.rebuild", f"{who}:precise_diff/day<0", str(e), site)
        return
    ctx.count(f"month_branch_tuples_{who}", n)
    if undecided:
        ctx.unverified("MONTHBRANCH.rebuild", f"{who}:precise_diff/day<0", f"{undecided} of {n} input tuples select no or several paths", site)
        return
    ctx.ob("MONTHBRANCH.rebuild", f"{who}:precise_diff/day<0", bad == 0,
           f"tabulated all {n} (start day, end date, time borrow) tuples entering the month-borrow branch with the checker's evaluator: "
           + (f"{bad} of them report months/days that do not lead back to the end point, e.g. {first}" if bad else
              "every one leads back to the end point with 0..30 days"), site)


def _month_agree_tabulate(ctx, py_region: set, rs_region: set) -> bool | None:
    """'the compiled and pure-Python helpers report identical components', month/day part: both branch summaries are
    evaluated on every input tuple of the month-borrow branch; they must report the same month change and days"""
    dpm = core.const("constants", "DAYS_PER_MONTHS")
    from types import SimpleNamespace as NS
    greg = lambda y: int(y % 4 == 0 and (y % 100 != 0 or y % 400 == 0))      # noqa: E731
    try:
        comp = []
        for region in (py_region, rs_region):
            comp.append([([(_mb_compile(c), pol) for c, pol in conds], _mb_compile(d), _mb_compile(mo)) for conds, d, mo in region])
        n = diff = 0
        first = None
        texts = " ".join([c for region in (py_region, rs_region) for conds, d, mo in region for c, _ in conds]
                         + [x for region in (py_region, rs_region) for _, d, mo in region for x in (d, mo)])
        wide = "A.year" in texts or "A.month" in texts
        for year in (2023, 2024, 2025):
            for month in range(1, 13):
                dim = dpm[greg(year)][month]
                for b in range(1, dim + 1):
                    for a in range(1, 32):
                        for beta in (0, 1):
                            day = b - a - beta
                            if day >= 0:
                                continue
                            for ay, am in ([(year, 1), (year - 1, 1), (year - 1, 7), (year - 3, 2)] if wide else [(year, 1)]):
                                env = {"A": NS(day=a, year=ay, month=am), "B": NS(day=b, month=month, year=year), "DAY": day, "MONTH": 0, "DAYS_PER_MONTHS": dpm,
                                       "is_leap": greg}
                                res = []
                                for paths in comp:
                                    live = [p for p in paths if all(bool(c(env)) == pol for c, pol in p[0])]
                                    if len(live) != 1:
                                        return None
                                    res.append((live[0][1](env), live[0][2](env)))
                                n += 1
                                if res[0] != res[1]:
                                    diff += 1
                                    first = first or (f"start day {a} (start point in year {ay}), end {year}-{month:02d}-{b:02d}, borrow {beta}: "
                                                      f"Python (days, months) {res[0]} vs Rust {res[1]}")
    except (core.Unsupported, KeyError, IndexError, SyntaxError, AttributeError, NameError, TypeError):
        return None
    ctx.ob("MONTHBRANCH.agree", "py-vs-rs:precise_diff/day<0", diff == 0,
           f"both month-borrow branches evaluated on {n} input tuples: " + (f"{diff} differ, e.g. {first}" if diff else "identical days and month change everywhere"),
           "rust/src/python/helpers.rs")
    return diff == 0


def _diff_pairs(ctx):
    """the ordered pairs of DIFF.tabulated / RSDIFF.tabulated: (label, a, b, a as a naive UTC value, b as a naive UTC value)"""
    import calendar
    import datetime as _dt
    D = _dt.datetime
    base = [D(2020, 1, 31, 0, 0, 0), D(2020, 2, 29, 23, 59, 59, 999999), D(2020, 3, 1, 0, 0, 0), D(2020, 3, 31, 12, 30, 15, 500000), D(2021, 1, 31, 23, 0, 0),
            D(2021, 2, 28, 0, 0, 0, 1), D(2021, 2, 28, 23, 59, 59), D(2021, 3, 30, 6, 0, 0), D(2021, 3, 31, 5, 59, 59, 999999), D(2021, 4, 30, 12, 0, 0),
            D(2021, 5, 31, 12, 0, 0, 1), D(2021, 12, 31, 23, 59, 59, 999999), D(2022, 1, 1, 0, 0, 0), D(2019, 12, 31, 12, 0, 0), D(2024, 2, 29, 12, 0, 0),
            D(2025, 2, 28, 12, 0, 0), D(2023, 8, 31, 0, 0, 1), D(2023, 9, 30, 0, 0, 0), D(2000, 2, 29, 1, 2, 3, 4), D(1999, 11, 30, 4, 3, 2, 1)]
    if ctx.tier == "thorough":
        # every month end, the days around it and mid-month days of two years (one leap), at four times of day
        extra = []
        for y in (2023, 2024):
            for mo in range(1, 13):
                last = calendar.monthrange(y, mo)[1]
                for dd, tt in ((1, (0, 0, 0, 0)), (15, (12, 0, 0, 0)), (last - 1, (23, 59, 59, 999999)), (last, (6, 30, 0, 1)), (last, (23, 59, 59, 999999)), (28, (0, 0, 0, 1))):
                    extra.append(D(y, mo, dd, *tt))
        base = base + extra
    out = []
    for i, a in enumerate(base):
        for b in base:
            if a < b:
                out.append((f"precise_diff({a.isoformat(' ')}, {b.isoformat(' ')})", a, b, a, b))
                if i % 3 == 0 and a.date() < b.date():
                    out.append((f"precise_diff({a.date()}, {b.date()})", a.date(), b.date(), a.date(), b.date()))
    tz0, tz5, tzm3 = _dt.timezone(_dt.timedelta(0)), _dt.timezone(_dt.timedelta(hours=5, minutes=30)), _dt.timezone(_dt.timedelta(hours=-3))
    tzm330, tz1, tzm945 = _dt.timezone(-_dt.timedelta(hours=3, minutes=30)), _dt.timezone(_dt.timedelta(hours=1)), _dt.timezone(-_dt.timedelta(hours=9, minutes=45))
    for a in base[::3]:
        for b in base[1::4]:
            for ta, tb in ((tz5, tz5), (tz0, tz5), (tz5, tzm3), (tzm3, tz0), (tzm330, tz1), (tz1, tzm945)):         # (negative offsets that are not whole hours: -03:30, -09:45)
                aa, bb = a.replace(tzinfo=ta), b.replace(tzinfo=tb)
                if not aa < bb:
                    continue
                au, bu = (aa - aa.utcoffset()).replace(tzinfo=None), (bb - bb.utcoffset()).replace(tzinfo=None)
                out.append((f"precise_diff({aa.isoformat(' ')}, {bb.isoformat(' ')})", aa, bb, au, bu))
    # the same fixed offset on both sides, the same day of the month in different months, a time of day that the shift to UTC moves over midnight:
    # these are decomposed on their own clock (only a pair on one calendar day is moved to UTC)
    class _Named(_dt.tzinfo):
        """a fixed-offset tzinfo that carries a name, like pendulum's FixedTimezone (the helpers recognise 'the same zone' by name)"""

        def __init__(self, seconds, name):
            self._off, self.name = _dt.timedelta(seconds=seconds), name

        def utcoffset(self, d):
            return self._off

        def dst(self, d):
            return _dt.timedelta(0)

        def tzname(self, d):
            return self.name
    n5, nm3 = _Named(19800, "+05:30"), _Named(-10800, "-03:00")
    for off_, pairs_ in ((n5, [(D(2021, 5, 1, 2, 0), D(2021, 6, 1, 2, 0)), (D(2021, 1, 31, 1, 0), D(2021, 3, 31, 1, 0)), (D(2020, 2, 29, 3, 15), D(2021, 2, 28, 3, 15)), (D(2021, 3, 1, 0, 30), D(2021, 3, 1, 23, 45))]),
                         (nm3, [(D(2021, 5, 1, 22, 0), D(2021, 6, 1, 22, 0)), (D(2021, 8, 31, 23, 30), D(2021, 9, 30, 23, 30)), (D(2021, 12, 31, 21, 0), D(2022, 1, 31, 21, 0))])):
        for a, b in pairs_:
            aa, bb = a.replace(tzinfo=off_), b.replace(tzinfo=off_)
            out.append((f"precise_diff({aa.isoformat(' ')}, {bb.isoformat(' ')}) [same fixed offset]", aa, bb, a, b))
    # named zones (the standard library's zoneinfo): the same zone at one offset is decomposed on its wall clock, differently named zones
    # as the same two instants in UTC
    try:
        import zoneinfo
        paris, ny, tokyo = zoneinfo.ZoneInfo("Europe/Paris"), zoneinfo.ZoneInfo("America/New_York"), zoneinfo.ZoneInfo("Asia/Tokyo")
    except Exception:       # noqa: BLE001
        return out
    winter = [D(2021, 1, 31, 0, 30), D(2021, 2, 28, 23, 45, 0, 1), D(2021, 3, 1, 0, 15), D(2021, 12, 31, 23, 30), D(2021, 1, 1, 0, 0, 0, 5), D(2021, 11, 30, 12, 0)]
    summer = [D(2021, 5, 31, 0, 30), D(2021, 6, 30, 23, 45), D(2021, 7, 1, 0, 15, 0, 9), D(2021, 8, 31, 1, 0)]
    for grp in (winter, summer):
        for a in grp:
            for b in grp:
                for z in (paris, tokyo):
                    aa, bb = a.replace(tzinfo=z), b.replace(tzinfo=z)
                    if aa < bb and aa.utcoffset() == bb.utcoffset():
                        out.append((f"precise_diff({aa.isoformat(' ')}, {bb.isoformat(' ')}) [both {z.key}]", aa, bb, a, b))
    for a in winter[:4] + summer[:2]:
        for b in winter[1:5] + summer[1:3]:
            for za, zb in ((paris, ny), (ny, tokyo), (tokyo, paris)):
                aa, bb = a.replace(tzinfo=za), b.replace(tzinfo=zb)
                if aa < bb:
                    au, bu = (aa - aa.utcoffset()).replace(tzinfo=None), (bb - bb.utcoffset()).replace(tzinfo=None)
                    out.append((f"precise_diff({aa.isoformat(' ')} [{za.key}], {bb.isoformat(' ')} [{zb.key}])", aa, bb, au, bu))
    return out


def _diff_judge(pairs, run_pd) -> tuple[list[str], int]:
    """For a <= b the components must be non-negative and canonical and lead back to b when added to a (month shift with the day clamped
    to the target month, then days and the time); the reversed pair gives the same components negated; total_days (naive and date pairs)
    is the difference of the calendar dates."""
    import calendar
    import datetime as _dt
    bad, n = [], 0

    def cal(w, y, mo, d, h=0, mi=0, s_=0, us=0):
        i = w.year * 12 + w.month - 1 + y * 12 + mo
        yy, mm = divmod(i, 12)
        return w.replace(year=yy, month=mm + 1, day=min(w.day, calendar.monthrange(yy, mm + 1)[1])) + _dt.timedelta(days=d, hours=h, minutes=mi, seconds=s_, microseconds=us)
    for label, a, b, a_utc, b_utc in pairs:
        n += 1
        y, mo, d, h, mi, s_, us, td = run_pd(a, b)
        if not (0 <= mo <= 11 and 0 <= d <= 30 and 0 <= h <= 23 and 0 <= mi <= 59 and 0 <= s_ <= 59 and 0 <= us < 10**6 and y >= 0):
            bad.append(f"{label}: components {(y, mo, d, h, mi, s_, us)} are not canonical")
            continue
        is_dt = isinstance(a_utc, _dt.datetime)
        back = cal(a_utc if is_dt else _dt.datetime.combine(a_utc, _dt.time()), y, mo, d, h, mi, s_, us)
        tgt = b_utc if is_dt else _dt.datetime.combine(b_utc, _dt.time())
        if back != tgt:
            bad.append(f"{label}: {(y, mo, d, h, mi, s_, us)} added to the start gives {back.isoformat(' ')}, not the end {tgt.isoformat(' ')}")
            continue
        da, db = (a_utc.date(), b_utc.date()) if is_dt else (a_utc, b_utc)
        if getattr(a, "tzinfo", None) is None and td != (db - da).days:      # aware pairs: total_days is not part of the property's statement
            bad.append(f"{label}: total_days {td} (expected {(db - da).days})")
            continue
        r = run_pd(b, a)
        if tuple(r) != tuple(-v for v in (y, mo, d, h, mi, s_, us, td)):
            bad.append(f"{label}: the reversed pair gives {tuple(r)}, not the components negated")
    return bad, n


def _py_diff_tabulate(ctx) -> bool | None:
    """DIFF.tabulated: the pure-Python `precise_diff` run by the checker's interpreter on standard-library values - every ordered
    pair from a list of naive datetimes (month ends of every length, leap days, first / last instants of days, times of day
    that force every borrow), the same for plain dates, and aware pairs with fixed offsets (same offset; different offsets,
    which are compared as the same instants in UTC); judged by _diff_judge."""
    import datetime as _dt
    from ..rules import minieval
    m = pmod("_helpers")
    fn = m.func("precise_diff")
    try:
        consts = minieval.module_consts(m)
        funcs = {st.name: st for st in m.top() if isinstance(st, ast.FunctionDef)}
        glob = {**consts, "datetime": minieval.Stub(datetime=_dt.datetime, date=_dt.date, tzinfo=_dt.tzinfo, timedelta=_dt.timedelta), "ValueError": ValueError, "math": __import__("math"),
                "PreciseDiff": minieval.ClassStub(_new=lambda *a, **k: minieval.Stub(_pd=a, _kw=k), _isa=lambda v: False), "zoneinfo": minieval.Stub(ZoneInfo=None), "Timezone": None}

        def run_pd(a, b):
            r = minieval.call(fn, [a, b], {}, {**funcs, "$globals": glob})
            if not isinstance(r, minieval.Stub) or not hasattr(r, "_pd") or len(r._pd) != 8 or r._kw:
                raise core.Unsupported("precise_diff does not return PreciseDiff(8 positional values)")
            return r._pd
        bad, n = _diff_judge(_diff_pairs(ctx), run_pd)
    except (core.Unsupported, KeyError, TypeError, AttributeError, IndexError, RecursionError, ValueError, minieval.Raised) as e:
        ctx.unverified("DIFF.tabulated", "py:precise_diff", f"outside the checker's interpreter: {type(e).__name__}: {e}", m.loc(fn))
        return None
    ctx.ob("DIFF.tabulated", "py:precise_diff", not bad, f"{n} ordered pairs evaluated: " + (f"wrong: {bad[:3]}" if bad else
           "canonical non-negative components that lead back to the end point, negated for the reversed pair, total_days the difference of the dates"), m.loc(fn))
    if not bad:
        ctx.established(("BORROW", "SIGN", "UTCSHIFT.shift", "UTCSHIFT.when", "MONTHBRANCH.rebuild"), "py:", "DIFF.tabulated")
    return not bad


def pyo3_object_models() -> list:
    """what the dynamic pyo3 calls of rust/src/python/helpers.rs stand for when the MIR evaluator runs them on standard-library values:
    downcast / is_type_of_bound are isinstance, getattr / hasattr / call_method1 / extract the Python operations of the same name, the
    PyDateAccess / PyTimeAccess / PyDeltaAccess getters the attributes"""
    import datetime as _dt
    from ..mirexec import Enum, Opaque, Ref

    def deref(r):
        return r.get() if isinstance(r, Ref) else r

    def ok(v):
        return Enum("Ok", [v])

    def downcast(cls):
        def f(r):
            o = deref(r)
            return ok(r if isinstance(r, Ref) else Ref([o], 0)) if isinstance(o, cls) else Enum("Err", [Opaque()])
        return f
    return [(r"downcast::<PyDateTime>$", downcast(_dt.datetime)), (r"downcast::<PyDate>$", downcast(_dt.date)), (r"downcast::<PyDelta>$", downcast(_dt.timedelta)),
            (r"downcast::<PyString>$", downcast(str)),
            (r"PyDateAccess>::get_year$", lambda r: deref(r).year), (r"PyDateAccess>::get_month$", lambda r: deref(r).month), (r"PyDateAccess>::get_day$", lambda r: deref(r).day),
            (r"PyTimeAccess>::get_hour$", lambda r: deref(r).hour), (r"PyTimeAccess>::get_minute$", lambda r: deref(r).minute), (r"PyTimeAccess>::get_second$", lambda r: deref(r).second),
            (r"PyTimeAccess>::get_microsecond$", lambda r: deref(r).microsecond),
            (r"PyDeltaAccess>::get_days$", lambda r: deref(r).days), (r"PyDeltaAccess>::get_seconds$", lambda r: deref(r).seconds), (r"PyDeltaAccess>::get_microseconds$", lambda r: deref(r).microseconds),
            (r"<PyDateTime as PyTypeInfo>::is_type_of_bound$", lambda r: isinstance(deref(r), _dt.datetime)),
            (r"<PyDate as PyTypeInfo>::is_type_of_bound$", lambda r: isinstance(deref(r), _dt.date)),
            (r"PyAnyMethods<'_>>::getattr::<", lambda r, name: ok(getattr(deref(r), name)) if hasattr(deref(r), name) else Enum("Err", [Opaque()])),
            (r"PyAnyMethods<'_>>::hasattr::<", lambda r, name: ok(hasattr(deref(r), name))),
            (r"PyAnyMethods<'_>>::is_none$", lambda r: deref(r) is None),
            (r"PyAnyMethods<'_>>::call_method1::<", lambda r, name, args: ok(getattr(deref(r), name)(*[deref(x) for x in args]))),
            (r"::extract::<.*String>$", lambda r: ok(str(deref(r)))),
            (r"String::new$", lambda: ""), (r"String::as_str$", lambda r: deref(r)), (r"<&str as PartialEq>::eq$", lambda a, b: deref(deref(a)) == deref(deref(b))),
            (r"impl str>::is_empty$", lambda s_: deref(s_) == "")]


def _rs_diff_tabulate(ctx, mir) -> bool | None:
    """RSDIFF.tabulated: the compiled `precise_diff` decided on values: the MIR of python::helpers::precise_diff and of what it reaches
    in the crate (get_tz_name, get_offset, DateTimeInfo::normalize_date and its comparison, helpers::day_number / is_leap, the month table)
    is evaluated by the checker's MIR evaluator (pvs/mirexec.py) on the pairs of DIFF.tabulated - standard-library dates and datetimes,
    read through models of the pyo3 accessors - and judged like the Python helper."""
    import datetime as _dt
    from .. import mirexec
    rel = "rust/src/python/helpers.rs"
    if mir is None:
        return None
    try:
        sf = mirsym.struct_fields_from_source((core.REPO / rel).read_text())
        f = mir.fn("precise_diff")
        ext = pyo3_object_models()
        names = ("years", "months", "days", "hours", "minutes", "seconds", "microseconds", "total_days")

        def run_pd(a, b):
            M = mirexec.Machine(mir, sf)
            M.ext = ext
            r = M.run(f, [mirexec.Ref([a], 0), mirexec.Ref([b], 0)])
            if not isinstance(r, mirexec.Enum) or r.variant != "Ok" or not isinstance(r.payload[0], mirexec.Struct) or not set(names) <= set(r.payload[0].names):
                raise core.Unsupported(f"precise_diff returns {r!r}")
            return tuple(r.payload[0].get(k) for k in names)
        pairs = _diff_pairs(ctx)
        if ctx.tier != "thorough":
            pairs = pairs[::2]
        bad, n = _diff_judge(pairs, run_pd)
    except mirexec.Panic as e:
        ctx.ob("RSDIFF.tabulated", "rs:precise_diff", False, f"the compiled helper panics: {e}", rel)
        return False
    except (core.Unsupported, core.AnchorMissing, KeyError, TypeError, AttributeError, IndexError, RecursionError, ValueError) as e:
        ctx.unverified("RSDIFF.tabulated", "rs:precise_diff", f"outside the MIR evaluator: {type(e).__name__}: {str(e)[:200]}", rel)
        return None
    ctx.ob("RSDIFF.tabulated", "rs:precise_diff", not bad, f"{n} ordered pairs evaluated on the MIR of the compiled helper: " + (f"wrong: {bad[:3]}" if bad else
           "canonical non-negative components that lead back to the end point, negated for the reversed pair, total_days the difference of the dates"), rel)
    return not bad


def _rs_outputs(ctx, f: mirfront.MirFn) -> None:
    names = f.names()
    sign = f.local("sign")
    found = False
    for b in f.blocks.values():
        for s in b.stmts:
            if s.op == "other" and s.args and s.args[0].startswith("PreciseDiff {"):
                found = True
                for part in mirfront._split_args(s.args[0][len("PreciseDiff {"):-1]):
                    slot, tmp = (x.strip() for x in part.split(":", 1))
                    tmp = mirfront._strip(tmp)
                    d = [x for x in b.stmts if x.dest == tmp]
                    ok = False
                    desc = "?"
                    if d and d[0].op == "Mul":
                        a0, a1 = (_resolve_use(f, b, a) for a in d[0].args)
                        ops = {a0, a1}
                        var = (ops - {sign})
                        desc = f"{names.get(a0, a0)} * {names.get(a1, a1)}"
                        ok = sign in ops and len(var) == 1 and RS_NAMES.get(names.get(next(iter(var)), "")) == SLOT_ROLE.get(slot)
                    elif d:
                        desc = d[0].raw
                    ctx.ob("SIGN.outputs", f"rs:PreciseDiff.{slot}", ok,
                           f"{slot} = {desc}; must be <{SLOT_ROLE.get(slot)} difference> * sign", "rust/src/python/helpers.rs")
    if not found:
        ctx.unverified("SIGN.outputs", "rs:PreciseDiff", "struct literal not found in MIR", "rust/src/python/helpers.rs")


def _py_outputs(ctx, m: core.Mod, fn: ast.FunctionDef, roles: dict[str, str]) -> None:
    last = [r for r in core.returns(fn) if isinstance(r.value, ast.Call) and nun(r.value.func) == "PreciseDiff"]
    final = [r for r in last if not all(core.is_const(a, 0) for a in r.value.args)]
    if len(final) != 1:
        ctx.unverified("SIGN.outputs", "py:PreciseDiff", "final PreciseDiff(...) not found", m.loc(fn))
        return
    c = final[0].value
    for slot, a in zip(OUT_SLOTS, c.args):
        ok = False
        if isinstance(a, ast.BinOp) and isinstance(a.op, ast.Mult):
            ops = [un(a.left), un(a.right)]
            if "sign" in ops:
                other = ops[1 - ops.index("sign")]
                ok = roles.get(other) == SLOT_ROLE[slot]
        ctx.ob("SIGN.outputs", f"py:PreciseDiff.{slot}", ok,
               f"{slot} = `{un(a)}`; must be sign * <{SLOT_ROLE[slot]} difference>", m.loc(a))
    ctx.ob("SIGN.outputs", "py:PreciseDiff/arity", len(c.args) == 8 and not c.keywords, f"{len(c.args)} positional outputs", m.loc(c))
    # the swap that defines the sign
    swaps = [n for n in core.walk_fn(fn) if isinstance(n, ast.If) and nun(n.test) in ("d1 > d2", "d2 < d1")]
    ok = len(swaps) == 1 and sorted(nun(s) for s in swaps[0].body) == ["d1, d2 = (d2, d1)", "sign = -1"]
    ctx.ob("SIGN.swap", "py:precise_diff/swap", ok,
           f"ordering swap `{[nun(s) for s in swaps[0].body] if swaps else None}`; must be d1, d2 = d2, d1 with sign = -1 when d1 > d2",
           m.loc(swaps[0]) if swaps else m.loc(fn))


def _rs_symmetry(ctx, f: mirfront.MirFn, sf) -> None:
    """Descriptor construction and offset normalisation must be mirror images for dt1/dt2."""
    # (a) calls applied to the raw arguments _1 / _2
    def norm_callee(c: str) -> str:
        return re.sub(r"\s+", " ", c)
    per: dict[str, list[str]] = {"_1": [], "_2": []}
    for _, s in f.calls():
        for a in s.args:
            if a in per:
                per[a].append(norm_callee(s.callee))
    ctx.ob("SYMMETRY.descriptor", "rs:precise_diff/dt1-vs-dt2-calls", sorted(per["_1"]) == sorted(per["_2"]),
           f"functions applied to dt1 only: {sorted(set(per['_1']) - set(per['_2']))}; to dt2 only: "
           f"{sorted(set(per['_2']) - set(per['_1']))}; the two operands must be classified and read the same way",
           "rust/src/python/helpers.rs")
    # (b) offset-normalisation regions
    names = f.names()
    d1, d2 = f.local("dtinfo1"), f.local("dtinfo2")

    def region(dl: str, nxt_pred):
        # block that switches on (<dl>.10: bool) i.e. is_datetime
        start = None
        for bi in sorted(f.blocks):
            b = f.blocks[bi]
            if b.switch and any(s.dest == b.switch[0] and s.op == "use" and s.args[0].startswith(f"({dl}.10:") for s in b.stmts):
                start = bi
                break
            if b.switch and b.switch[0].startswith(f"({dl}.10:"):
                start = bi
                break
        return start
    s1, s2 = region(d1, None), region(d2, None)
    if s1 is None or s2 is None:
        ctx.unverified("SYMMETRY.offset", "rs:precise_diff", "is_datetime branches not found", "rust/src/python/helpers.rs")
        return
    # end of region 2: the block comparing dtinfo1 > dtinfo2 (call to partial_cmp / gt)
    end2 = None
    for bi in sorted(f.blocks):
        if bi > s2 and any(s.op == "call" and ("partial_cmp" in s.callee or "::gt" in s.callee) for s in f.blocks[bi].stmts):
            end2 = bi
            break
    if end2 is None:
        ctx.unverified("SYMMETRY.offset", "rs:precise_diff", "end of dt2 region not found", "rust/src/python/helpers.rs")
        return

    def summarise(start: int, stop: int, me: str, who: str):
        sym = mirsym.Sym(f, sf, atomic={"total_days", "in_same_tz", "sign"})
        can = Canon({names[me]: "X", f"dt{who}dt": "XD", f"dt{who}": "XARG"})
        out = set()
        for p in sym.run(start, {stop}):
            conds = []
            for v, key in p.conds:
                cb = mirsym.cond_bool(v, key)
                conds.append(can.cond(cb[0], cb[1]) if cb else (can.s(v), str(key)))
            ups = tuple(sorted((re.sub(r"_\d+", "X", k), can.s(v)) for k, v in p.state.items()
                               if k.startswith("FIELD:") and f"({me}." in k))
            out.add((frozenset(conds), ups))
        return out
    try:
        r1 = summarise(s1, s2, d1, "1")
        r2 = summarise(s2, end2, d2, "2")
    except core.Unsupported as e:
        ctx.unverified("SYMMETRY.offset", "rs:precise_diff", str(e), "rust/src/python/helpers.rs")
        return
    only1, only2 = r1 - r2, r2 - r1
    ctx.count("rs_offset_paths", len(r1))
    ctx.ob("SYMMETRY.offset", "rs:precise_diff/offset-normalisation", not only1 and not only2,
           f"{len(only1)} path summaries exist only for dt1 and {len(only2)} only for dt2 "
           f"(e.g. {sorted(map(str, only1))[:1]} vs {sorted(map(str, only2))[:1]}); the two blocks must be mirror images",
           "rust/src/python/helpers.rs")



# ---------------------------------------------------------------------------
# reference models (Python text) the compiled helper is compared with, path summary by path summary.  Both sides go
# through the same canonicaliser; integer comparisons are normalised to (<=|>=, quantity, bound).

_REF_SHIFT = """
def ref(X, XD, in_same_tz, total_days):
    hour = get_hour(XD)
    minute = get_minute(XD)
    second = get_second(XD)
    microsecond = get_microsecond(XD)
    offset = X.offset
    day = X.day
    rolled = 0
    if (not in_same_tz and offset != 0) or total_days == 0:
        hour = hour - offset // SECS_PER_HOUR
        offset = offset % SECS_PER_HOUR
        minute = minute - offset // SECS_PER_MIN
        offset = offset % SECS_PER_MIN
        second = second - offset
        if second < 0:
            second = second + 60
            minute = minute - 1
        elif second >= 60:
            second = second - 60
            minute = minute + 1
        if minute < 0:
            minute = minute + 60
            hour = hour - 1
        elif minute >= 60:
            minute = minute - 60
            hour = hour + 1
        if hour < 0:
            hour = hour + 24
            day = day - 1
        elif hour >= 24:
            hour = hour - 24
            day = day + 1
        rolled = 1
    total_seconds = hour * SECS_PER_HOUR + minute * SECS_PER_MIN + second
    return (day, hour, minute, second, microsecond, total_seconds, rolled)
"""

_REF_ROLL = """
def ref(S):
    year = S.year
    month = S.month
    day = S.day
    if day < 1:
        month = month - 1
        if month < 1:
            month = 12
            year = year - 1
        day = DAYS_PER_MONTHS[is_leap(year)][month]
    elif day > DAYS_PER_MONTHS[is_leap(year)][month]:
        day = 1
        month = month + 1
        if month > 12:
            month = 1
            year = year + 1
    return (year, month, day)
"""


def _int_cond(c):
    """('P + k < 0', pol) over integers -> ('le'|'ge', 'P', bound); anything else is kept as is"""
    s, pol = c
    mm = re.match(r"^(.*) (<|<=|==) 0$", s) if isinstance(s, str) else None
    if not mm:
        return ("raw", str(s), pol)
    terms = mm.group(1).split(" + ")
    k = sum(int(t) for t in terms if re.fullmatch(r"-?\d+", t))
    feat = " + ".join(t for t in terms if not re.fullmatch(r"-?\d+", t))
    op = mm.group(2)
    if op == "==":
        return ("eq" if pol else "ne", feat, -k)
    if op == "<":
        return ("le", feat, -k - 1) if pol else ("ge", feat, -k)
    return ("le", feat, -k) if pol else ("ge", feat, -k + 1)


def _ref_summaries(src: str, can: Canon, n_out: int):
    from .C15 import _conds_at
    fn = ast.parse(src).body[0]
    core.link_parents(fn) if hasattr(core, "link_parents") else None
    out = set()
    for p in cfg.paths(fn):
        ex = p.exit()
        conds = frozenset(_int_cond(c) for c in _conds_at(p, can))
        vals = tuple(can.s(cfg.subst_path(p, e, set())) for e in ex[2].value.elts)
        assert len(vals) == n_out
        out.add((conds, vals))
    return out


def _triage(ctx, rule: str, construct: str, got: set, want: set, what: str, site: str) -> None:
    if got == want:
        ctx.ob(rule, construct, True, f"{len(got)} path summaries equal the reference model ({what})", site)
        return
    feats = lambda S: {(c[1]) for conds, _ in S for c in conds}     # noqa: E731
    only_g, only_w = got - want, want - got
    ex_g = [x[:300] for x in sorted(map(str, only_g))[:1]]
    ex_w = [x[:300] for x in sorted(map(str, only_w))[:1]]
    detail = (f"{len(only_g)} path summaries of the compiled code are not in the reference model and {len(only_w)} of the model are "
              f"missing ({what}); e.g. compiled {ex_g} vs model {ex_w}")
    if feats(got) == feats(want):
        ctx.ob(rule, construct, False, detail, site)        # same tested quantities, different thresholds/updates
    else:
        ctx.unverified(rule, construct, "the compiled code tests other quantities than the reference model; " + detail, site)


def _rs_utc_reference(ctx, mir, f: mirfront.MirFn, sf) -> None:
    rel = "rust/src/python/helpers.rs"
    names = f.names()
    d1, d2 = f.local("dtinfo1"), f.local("dtinfo2")
    idx = {n: i for i, n in enumerate(sf.get("DateTimeInfo", []))}
    if not {"day", "month", "is_datetime", "hour", "minute", "second", "microsecond", "total_seconds"} <= set(idx):
        ctx.unverified("UTCSHIFT.rs", "rs:precise_diff", "DateTimeInfo fields not found", rel)
        return

    def start_of(dl: str):
        tag = f"({dl}.{idx['is_datetime']}:"
        for bi in sorted(f.blocks):
            b = f.blocks[bi]
            if b.switch and (b.switch[0].startswith(tag) or any(s.dest == b.switch[0] and s.op == "use" and s.args[0].startswith(tag) for s in b.stmts)):
                return bi
        return None
    s1, s2 = start_of(d1), start_of(d2)
    if s1 is None or s2 is None:
        ctx.unverified("UTCSHIFT.rs", "rs:precise_diff", "is_datetime branches not found", rel)
        return
    # functions that roll a day over into month/year: callees that write the month field of their &mut argument
    rollers = {}
    for name, g in mir.fns.items():
        if any(s.dest and s.dest.startswith(f"((*_1).{idx['month']}:") for _, s in g.all_stmts()) and "DateTimeInfo" in g.sig:
            rollers[name] = g
    end2 = None
    for bi in sorted(f.blocks):
        if bi > s2 and any(s_.op == "call" and ("partial_cmp" in s_.callee or "::gt" in s_.callee) for s_ in f.blocks[bi].stmts):
            end2 = bi
            break
    want = _ref_summaries(_REF_SHIFT, Canon({}), 7)
    for dl, who, start, stop in ((d1, "1", s1, s2), (d2, "2", s2, end2)):
        if stop is None:
            ctx.unverified("UTCSHIFT.rs", f"rs:precise_diff/dt{who}-to-utc", "end of the region not found", rel)
            continue
        can = Canon({names[dl]: "X", f"dt{who}dt": "XD", f"dt{who}": "XARG"})
        sym = mirsym.Sym(f, sf, atomic={"total_days", "in_same_tz", "sign"})
        got = set()
        try:
            for p in sym.run(start, {stop}):
                conds = []
                isdt = None
                for v, key in p.conds:
                    cb = mirsym.cond_bool(v, key)
                    if cb is None:
                        continue
                    c = can.cond(cb[0], cb[1])
                    if c[0] == "X.is_datetime":
                        isdt = c[1]
                        continue
                    if "discriminant(" in c[0]:
                        continue
                    conds.append(_int_cond(c))
                if not isdt or p.end != stop:
                    continue
                fld = lambda n: p.state.get(f"FIELD:({dl}.{idx[n]}: i32)")      # noqa: E731,B023
                vals = [can.s(fld(n)) if fld(n) is not None else f"X.{n}" for n in ("day", "hour", "minute", "second", "microsecond", "total_seconds")]
                rolled = any(any(r.endswith("::" + mirsym.short_callee(c)) for r in rollers) and a_ and un(a_[0]) == names[dl]
                             for c, a_ in p.calls)
                got.add((frozenset(conds), tuple(vals) + ("1" if rolled else "0",)))
            _triage(ctx, "UTCSHIFT.rs", f"rs:precise_diff/dt{who}-to-utc", got, want,
                    "fields minus offset with carries at 60/60/24 into the next unit, then the date rolled over", rel)
        except (core.Unsupported, AssertionError, AttributeError) as e:
            ctx.unverified("UTCSHIFT.rs", f"rs:precise_diff/dt{who}-to-utc", str(e), rel)
    if not rollers:
        ctx.ob("UTCSHIFT.roll", "rs:precise_diff/day-rollover", False,
               "no function rolls a day that left its month into the month and year: after the shift to UTC the day can be 0 or one past "
               "the end of the month, and the month/day components then differ from the pure-Python helper", rel)
        return
    for name, g in sorted(rollers.items()):
        if _roll_tabulate(ctx, name, g, sf, idx, rel):
            continue
        try:
            canr = Canon({"self": "S"})
            got = set()
            for p in mirsym.Sym(g, sf).run(0, mirsym.NEVER):
                conds = frozenset(_int_cond(canr.cond(*mirsym.cond_bool(v, k))) for v, k in p.conds if mirsym.cond_bool(v, k))
                vals = []
                for n in ("year", "month", "day"):
                    v = p.state.get(f"FIELD:((*_1).{idx[n]}: i32)")
                    vals.append(canr.s(v) if v is not None else f"S.{n}")
                got.add((conds, tuple(vals)))
            want = _ref_summaries(_REF_ROLL, Canon({}), 3)
            _triage(ctx, "UTCSHIFT.roll", f"rs:{name.rsplit('::', 1)[-1]}", got, want,
                    "day < 1 -> last day of the previous month, day > month length -> first of the next month, with the year carried", rel)
        except (core.Unsupported, AssertionError, AttributeError) as e:
            ctx.unverified("UTCSHIFT.roll", f"rs:{name}", str(e), rel)


def _roll_tabulate(ctx, name: str, g, sf, idx, rel: str) -> bool:
    """UTCSHIFT.roll decided on values: the path summaries of the function that rolls a day out of its month (MIR, symbolic)
    are evaluated by the checker's arithmetic evaluator for every month of common, leap, long and century years and the days
    0, 1, mid-month, last, last + 1: the (year, month, day) left must be the date `first of the month + (day - 1) days` of the
    standard library's calendar.  False: outside the evaluator (the syntactic comparison with the reference model decides)."""
    import datetime as _dt
    from types import SimpleNamespace as NS
    dpm = core.const("constants", "DAYS_PER_MONTHS")

    def comp(src: str):
        tree = ast.parse(src, mode="eval")
        for n in ast.walk(tree):
            if not isinstance(n, _MB_OK):
                raise core.Unsupported(type(n).__name__)
            if isinstance(n, ast.Call) and un(n.func) not in ("is_leap", "is_long_year", "days_in_year", "max", "min"):
                raise core.Unsupported(un(n)[:40])
            if isinstance(n, ast.Name) and n.id not in ("S", "DAYS_PER_MONTHS", "is_leap", "is_long_year", "days_in_year", "max", "min"):
                raise core.Unsupported(n.id)
        code = compile(tree, "<summary>", "eval")
        return lambda env: eval(code, {"__builtins__": {}, "max": max, "min": min}, env)      # noqa: S307 - whitelisted arithmetic only
    greg = lambda y: int(y % 4 == 0 and (y % 100 != 0 or y % 400 == 0))      # noqa: E731
    try:
        canr = Canon({"self": "S"})
        paths = []
        for p in mirsym.Sym(g, sf).run(0, mirsym.NEVER):
            conds = []
            for v, k in p.conds:
                cb = mirsym.cond_bool(v, k)
                if cb is None:
                    raise core.Unsupported("non-boolean branch")
                t, pol = canr.cond(*cb)
                conds.append((comp(t), pol))
            vals = []
            for n in ("year", "month", "day"):
                v = p.state.get(f"FIELD:((*_1).{idx[n]}: i32)")
                vals.append(comp(canr.s(v)) if v is not None else (lambda env, n=n: getattr(env["S"], n)))
            paths.append((conds, vals))
        bad, n_in = [], 0
        for year in (1999, 2000, 2004, 2015, 2020, 2021, 2023, 2024, 2100):
            for month in range(1, 13):
                dim = dpm[greg(year)][month]
                for day in (0, 1, 15, dim, dim + 1):
                    env = {"S": NS(year=year, month=month, day=day), "DAYS_PER_MONTHS": dpm, "is_leap": greg,
                           "is_long_year": lambda y: int(_dt.date(y, 12, 28).isocalendar()[1] == 53), "days_in_year": lambda y: 365 + greg(y)}
                    live = [p for p in paths if all(bool(c(env)) == pol for c, pol in p[0])]
                    n_in += 1
                    if len(live) != 1:
                        return False
                    got = tuple(f(env) for f in live[0][1])
                    w = _dt.date(year, month, 1) + _dt.timedelta(days=day - 1)
                    if got != (w.year, w.month, w.day):
                        bad.append(f"{year}-{month:02d} day {day} -> {got} (expected {w.isoformat()})")
    except (core.Unsupported, SyntaxError, KeyError, IndexError, AttributeError, NameError, TypeError, AssertionError):
        return False
    ctx.ob("UTCSHIFT.roll", f"rs:{name.rsplit('::', 1)[-1]}", not bad,
           f"{n_in} (year, month, day) inputs evaluated on the path summaries: " + (f"wrong date: {bad[:3]}" if bad else
           "day 0 becomes the last day of the previous month, last + 1 the first of the next, the year carried, everything else is kept"), rel)
    return True


def _rs_order_key(ctx, mir, sf) -> None:
    """`if dtinfo1 > dtinfo2 { swap }` decides which end point is the earlier one: the derived order must be the
    lexicographic order of the complete broken-down time, microsecond included"""
    rel = "rust/src/python/helpers.rs"
    ok_keys = (["year", "month", "day", "hour", "minute", "second", "microsecond"], ["year", "month", "day", "total_seconds", "microsecond"])
    found = 0
    for name, g in sorted(mir.fns.items()):
        short = name.rsplit("::", 1)[-1]
        if short not in ("partial_cmp", "eq", "cmp") or "DateTimeInfo" not in g.sig:
            continue
        found += 1
        try:
            ps = mirsym.Sym(g, sf).run(0, mirsym.NEVER)
        except core.Unsupported as e:
            ctx.unverified("ORDER.key", f"rs:DateTimeInfo::{short}", str(e), rel)
            continue
        r = ps[0].state.get("_0") if len(ps) == 1 else None
        if not (isinstance(r, ast.Call) and len(r.args) == 2 and all(isinstance(a, ast.Tuple) for a in r.args) and un(r.func) == short):
            ctx.unverified("ORDER.key", f"rs:DateTimeInfo::{short}", f"not a single tuple comparison: {un(r)[:80] if r is not None else len(ps)}", rel)
            continue
        sides = []
        for a, who in zip(r.args, ("self", "other")):
            sides.append([e.attr if isinstance(e, ast.Attribute) and un(e.value) == who else "?" + un(e) for e in a.elts])
        ok = sides[0] == sides[1] and sides[0] in ok_keys
        ctx.ob("ORDER.key", f"rs:DateTimeInfo::{short}", ok,
               f"end points are ordered by {sides[0]} vs {sides[1]}; the key must be the full broken-down time "
               f"(year, month, day, hour, minute, second | total_seconds, microsecond) in that order on both sides - a field left out "
               f"makes a reversed pair that differs only there go unswapped, and its negative difference is then borrowed through every unit", rel)
    if not found:
        ctx.unverified("ORDER.key", "rs:DateTimeInfo", "no PartialOrd/PartialEq implementation found in MIR (derived?)", rel)


def _backend_switch(ctx) -> None:
    for modname in ("helpers", "parsing"):
        m = pmod(modname)
        tries = [st for st in m.tree.body if isinstance(st, ast.Try)]
        done = False
        for t in tries:
            prim = {a.asname or a.name for st in t.body if isinstance(st, ast.ImportFrom) and st.module == "pendulum._pendulum"
                    for a in st.names}
            if not prim:
                continue
            fb = {a.asname or a.name for h in t.handlers for st in h.body if isinstance(st, ast.ImportFrom) for a in st.names}
            done = True
            ctx.ob("BACKEND.names", f"{modname}/try-except-ImportError", prim == fb,
                   f"compiled arm imports {sorted(prim)}, fall-back arm imports {sorted(fb)}; both must bind the same names",
                   m.loc(t))
        if not done:
            ctx.unverified("BACKEND.names", modname, "back-end switch not found", m.rel)
    # arity agreement: _pendulum.pyi <-> _helpers.py <-> #[pyfunction] (MIR signature)
    pyi = core.mod("src/pendulum/_pendulum.pyi") if (core.REPO / "src/pendulum/_pendulum.pyi").exists() else None
    hm = pmod("_helpers")
    try:
        mir = mirfront.load()
    except mirfront.MirUnavailable as e:
        mir = None
        ctx.unverified("BACKEND.arity", "rust", f"MIR unavailable: {e}", "rust/")
    for name in ("days_in_year", "is_leap", "is_long_year", "local_time", "precise_diff", "week_day"):
        py = core.params(hm.func(name), drop_self=False)
        if pyi is not None:
            st = core.params(pyi.func(name), drop_self=False)
            ctx.ob("BACKEND.arity", f"_pendulum.pyi/{name}", len(st) == len(py), f"stub {st} vs _helpers.py {py}", pyi.loc(pyi.func(name)))
        if mir is not None:
            cands = [f for n, f in mir.fns.items() if n == f"python::helpers::{name}" or (n == name and name == "precise_diff")]
            if cands:
                n_rs = len([t for t in re.findall(r"_\d+: ([^,]+(?:<[^>]*>)?)", cands[0].sig.split(") ->")[0]) if "Python<" not in t])
                ctx.ob("BACKEND.arity", f"rs:{name}", n_rs == len(py), f"#[pyfunction] {name} takes {n_rs} arguments, _helpers.py {py}",
                       "rust/src/python/helpers.rs")
            else:
                ctx.ob("BACKEND.arity", f"rs:{name}", False, "no #[pyfunction] with that name in the MIR", "rust/src/python/helpers.rs")


def _interval_props(ctx) -> None:
    m = pmod("interval")
    want = {"years": ("self._delta.years",), "months": ("self._delta.months",), "hours": ("self._delta.hours",),
            "minutes": ("self._delta.minutes",),
            "weeks": ("abs(self._delta.days) // 7 * self._sign(self._delta.days)",),
            "remaining_days": ("abs(self._delta.days) % 7 * self._sign(self._days)",
                               "abs(self._delta.days) % 7 * self._sign(self._delta.days)"),
            "in_days": ("self._delta.total_days",), "in_years": ("self.years",)}
    for name, acc in want.items():
        fn = m.func(f"Interval.{name}")
        r = core.returns(fn)
        got = [nun(x.value) for x in r]
        ctx.ob("INTERVAL.props", f"Interval.{name}", len(r) == 1 and got[0] in acc, f"returns {got}; expected {acc[0]}", m.loc(fn))
    fn = m.func("Interval.in_months")
    r = core.returns(fn)
    ok = False
    if len(r) == 1:
        from ..rules import units
        try:
            ok = units.weights(r[0].value, m) == {"self.years": 12, "self.months": 1}
        except core.Unsupported:
            ok = False
    ctx.ob("INTERVAL.props", "Interval.in_months", ok, f"returns {[nun(x.value) for x in r]}; must be years*12 + months", m.loc(fn))
    r = core.returns(m.func("Interval.__neg__"))
    ctx.ob("INTERVAL.neg", "Interval.__neg__", len(r) == 1 and nun(r[0].value) == "self.__class__(self.end, self.start, self._absolute)",
           f"returns {[nun(x.value) for x in r]}; the reversed interval swaps the endpoints", m.loc(m.func("Interval.__neg__")))
    init = m.func("Interval.__init__")
    init_tabulate(ctx)
    d = [n for n in core.walk_fn(init) if isinstance(n, (ast.Assign, ast.AnnAssign)) and "self._delta" in un(n)]
    ok = len(d) == 1 and nun(d[0].value) == "precise_diff(_start, _end)"
    ctx.ob("INTERVAL.delta", "Interval.__init__/_delta", ok, f"`{un(d[0]) if d else None}`; must be precise_diff(_start, _end)", m.loc(init))
    # the native copies handed to precise_diff must carry every field of the end points
    from ..rules import recon
    sites = recon.sites_in(m, ["Interval.__init__"])
    for s in sites:
        recon.check_site(ctx, s)
    ctx.count("recon_sites_init", len(sites))


def _py_utc_shift(ctx, m: core.Mod, fn: ast.FunctionDef) -> None:
    """endpoints in differently named zones are decomposed as the same two instants in UTC: each `dK = dK - offsetK`
    may only be skipped when offsetK itself is zero/None, and the block runs whenever the zone names differ or no whole
    day separates the end points"""
    offs = {}       # offset variable -> (endpoint variable, assignment)
    for n in core.walk_fn(fn):
        if isinstance(n, ast.Assign) and len(n.targets) == 1 and isinstance(n.targets[0], ast.Name) \
                and isinstance(n.value, ast.Call) and isinstance(n.value.func, ast.Attribute) and n.value.func.attr == "utcoffset" \
                and isinstance(n.value.func.value, ast.Name) and not n.value.args:
            offs[n.targets[0].id] = (n.value.func.value.id, n)
    if len(offs) != 2 or {v[0] for v in offs.values()} != {"d1", "d2"}:
        ctx.unverified("UTCSHIFT", "py:precise_diff", f"offset reads found: {sorted((k, v[0]) for k, v in offs.items())}", m.loc(fn))
        return
    outer = None
    for off, (dv, asg) in sorted(offs.items()):
        blk = asg._parent
        outer = blk if isinstance(blk, ast.If) else None
        shifts = []
        for n in core.walk_fn(fn):
            if isinstance(n, ast.Assign) and len(n.targets) == 1 and nun(n.targets[0]) == dv and isinstance(n.value, ast.BinOp) \
                    and isinstance(n.value.op, ast.Sub) and nun(n.value.left) == dv and nun(n.value.right) == off:
                shifts.append(n)
            elif isinstance(n, ast.AugAssign) and isinstance(n.op, ast.Sub) and nun(n.target) == dv and nun(n.value) == off:
                shifts.append(n)
        if len(shifts) != 1:
            ctx.ob("UTCSHIFT.shift", f"py:precise_diff/{dv}", False, f"{len(shifts)} statements `{dv} = {dv} - {off}`; each end point is moved to UTC exactly once", m.loc(asg))
            continue
        sh = shifts[0]
        guards = []
        p = sh._parent
        while p is not None and p is not blk and p is not fn:
            if isinstance(p, ast.If):
                guards.append(nun(p.test) if sh in ast.walk(ast.Module(p.body, [])) else f"not ({nun(p.test)})")
            p = p._parent
        ok_g = {off, f"{off} is not None", f"{off} is not None and {off}", f"{off} != datetime.timedelta(0)", f"{off} != timedelta(0)"}
        bad = [g for g in guards if g not in ok_g]
        ctx.ob("UTCSHIFT.shift", f"py:precise_diff/{dv}", not bad and p is blk,
               f"`{nun(sh)}` runs under {guards or 'no guard'}; it may only be skipped when {off} itself is zero or None "
               f"(equal non-zero offsets still move both end points, possibly across a day or month boundary)", m.loc(sh))
    if outer is None:
        ctx.unverified("UTCSHIFT.when", "py:precise_diff", "offsets are not read inside an if block", m.loc(fn))
        return
    from .C15 import py_bool_table
    from ..rules.canon import Canon
    can = Canon({})
    # the flag that says 'same zone name': defined as `tz1 == tz2 and tz1 is not None`
    try:
        got = py_bool_table(outer.test, can)
        want = py_bool_table(ast.parse("not in_same_tz or total_days == 0", mode="eval").body, can)
        ctx.ob("UTCSHIFT.when", "py:precise_diff/condition", got == want,
               f"the UTC normalisation runs under `{nun(outer.test)}`; must be `not in_same_tz or total_days == 0`", m.loc(outer))
    except core.Unsupported as e:
        ctx.unverified("UTCSHIFT.when", "py:precise_diff/condition", str(e), m.loc(outer))
    flag = [n for n in core.walk_fn(fn) if isinstance(n, ast.Assign) and nun(n.targets[0]) == "in_same_tz" and not core.is_const(n.value, False)]
    ok = len(flag) == 1 and nun(flag[0].value) in ("tz1 == tz2 and tz1 is not None", "tz1 is not None and tz1 == tz2")
    ctx.ob("UTCSHIFT.when", "py:precise_diff/in_same_tz", ok, f"in_same_tz = {[nun(x.value) for x in flag]}; same zone means equal, known zone names", m.loc(fn))


def init_tabulate(ctx) -> bool | None:
    """INIT.tabulated: Interval.__init__ run by the checker's interpreter on pairs of end points - pendulum DateTime / Date stubs and
    standard-library datetimes / dates (turned into pendulum values through pendulum.instance / pendulum.date), aware in one zone (both
    passes of a repeated hour), in two zones, naive - in both orders, absolute or not; precise_diff records what it is handed.  Expected:
    `_invert` says whether the first end point is the later one; an absolute interval has them swapped then (start <= end), another keeps
    them as given; `_absolute` as given; and the breakdown is precise_diff(<native copy of start>, <native copy of end>) - standard-library
    values with every field and the very tzinfo of the end points the interval ends up with."""
    import datetime as _dt
    from ..rules import minieval
    from ..rules.minieval import ClassStub, Obj, Stub
    m = pmod("interval")
    fn = m.func("Interval.__init__")
    funcs = {st.name: st for st in m.top() if isinstance(st, ast.FunctionDef)}

    class _Z(_dt.tzinfo):           # the clocks go back from 03:00 (+02:00) to 02:00 (+01:00) on 2021-10-31
        def utcoffset(self, x):
            w = x.replace(tzinfo=None, fold=0)
            lo, hi = _dt.datetime(2021, 10, 31, 2), _dt.datetime(2021, 10, 31, 3)
            return _dt.timedelta(hours=2 if w < lo or (w < hi and x.fold == 0) else 1)

        def dst(self, x):
            return _dt.timedelta(0)

        def fromutc(self, x):
            u = x.replace(tzinfo=None)
            if u < _dt.datetime(2021, 10, 31, 0):
                return (u + _dt.timedelta(hours=2)).replace(tzinfo=self)
            w = u + _dt.timedelta(hours=1)
            return w.replace(tzinfo=self, fold=1 if w < _dt.datetime(2021, 10, 31, 3) else 0)
    z, east = _Z(), _dt.timezone(_dt.timedelta(hours=9))
    D = _dt.datetime
    groups = [[D(2021, 10, 31, 2, 30, tzinfo=z), D(2021, 10, 31, 2, 30, tzinfo=z, fold=1), D(2021, 10, 31, 2, 10, tzinfo=z, fold=1), D(2021, 10, 31, 1, 0, 0, 5, tzinfo=z), D(2021, 10, 31, 9, 30, tzinfo=east),
               D(2021, 1, 31, 0, 0, tzinfo=east)],
              [D(2021, 1, 31, 12, 0), D(2021, 3, 1, 0, 0, 0, 1), D(2020, 2, 29, 23, 59, 59, 999999)],
              [_dt.date(2021, 1, 31), _dt.date(2020, 2, 29), _dt.date(2021, 3, 1)]]

    def inst(x):
        return x.replace(tzinfo=None) - x.utcoffset() if isinstance(x, _dt.datetime) and x.tzinfo is not None else x

    def pend(x, via=None):
        if isinstance(x, _dt.datetime):
            return Stub(_pend="DateTime", _native=x, _via=via, _types=(_dt.datetime,), _eqkey=inst(x), year=x.year, month=x.month, day=x.day, hour=x.hour, minute=x.minute, second=x.second,
                        microsecond=x.microsecond, tzinfo=x.tzinfo, tz=x.tzinfo, timezone=x.tzinfo, fold=x.fold, utcoffset=x.utcoffset, astimezone=x.astimezone)
        return Stub(_pend="Date", _native=x, _via=via, _types=(_dt.date,), _eqkey=x, year=x.year, month=x.month, day=x.day)
    bad, n = [], 0
    try:
        for grp in groups:
            for a0 in grp:
                for b0 in grp:
                    for absolute in (False, True):
                        for kind in ("pendulum", "native"):
                            a, b = (pend(a0), pend(b0)) if kind == "pendulum" else (a0, b0)
                            made = []
                            glob = {"datetime": _dt.datetime, "date": _dt.date, "timedelta": _dt.timedelta, "timezone": _dt.timezone, "cast": lambda t, v: v,
                                    "precise_diff": lambda x, y: (made.append((x, y)), Stub(_pd=len(made)))[1],
                                    "pendulum": Stub(DateTime=ClassStub(_new=None, _isa=lambda v: getattr(v, "_pend", None) == "DateTime"),
                                                     Date=ClassStub(_new=None, _isa=lambda v: getattr(v, "_pend", None) in ("Date", "DateTime")),
                                                     instance=lambda v, *a_, **k_: pend(v, "instance"), date=lambda y, mo, d_: pend(_dt.date(y, mo, d_), "date")),
                                    "ValueError": ValueError, "TypeError": TypeError}
                            me = Obj(_methods={}, _props=set(), _natives={}, _ctor=None, _super_natives={"__init__": lambda *a_, **k_: None})
                            minieval.call(fn, [me, a, b, absolute], {}, {**funcs, "$globals": glob})
                            n += 1
                            f = vars(me)
                            label = f"Interval({'pendulum ' if kind == 'pendulum' else ''}{a0!r}, {'pendulum ' if kind == 'pendulum' else ''}{b0!r}{', absolute=True' if absolute else ''})"
                            later = inst(a0) > inst(b0)
                            s0, e0 = (b0, a0) if (later and absolute) else (a0, b0)
                            errs = []
                            if bool(f.get("_invert")) != later:
                                errs.append(f"_invert={f.get('_invert')!r} although the first end point is {'' if later else 'not '}the later one")
                            if f.get("_absolute") is not absolute:
                                errs.append(f"_absolute={f.get('_absolute')!r}")
                            for nm, want in (("_start", s0), ("_end", e0)):
                                v = f.get(nm)
                                if getattr(v, "_pend", None) is None or v._native != want or (isinstance(want, _dt.datetime) and (v._native.tzinfo is not want.tzinfo or v._native.fold != want.fold)):
                                    errs.append(f"{nm} is {getattr(v, '_native', v)!r} (expected the pendulum value of {want!r})")
                            if len(made) != 1 or getattr(f.get("_delta"), "_pd", None) != 1:
                                raise core.Unsupported(f"{label}: _delta is not the result of one precise_diff(...) call")
                            for which, got, want in (("first", made[0][0], s0), ("second", made[0][1], e0)):
                                g_ = getattr(got, "_native", got)          # (a pendulum value is a datetime too: handed on as it is, it carries the same fields)
                                same = type(g_) is type(want) and g_ == want and (not isinstance(want, _dt.datetime) or (g_.tzinfo is want.tzinfo and g_.replace(tzinfo=None) == want.replace(tzinfo=None)
                                                                                                                     and (g_.fold == want.fold or type(got) is _dt.datetime)))
                                if not same:
                                    errs.append(f"precise_diff receives {g_!r} as its {which} argument (expected {want!r} with all its fields and its tzinfo)")
                            bad += [f"{label}: {e}" for e in errs[:1]]
    except (core.Unsupported, KeyError, TypeError, AttributeError, ValueError, IndexError, RecursionError, minieval.Raised) as e:
        ctx.unverified("INIT.tabulated", "Interval.__init__", f"outside the checker's interpreter: {type(e).__name__}: {str(e)[:160]}", m.loc(fn))
        return None
    ctx.ob("INIT.tabulated", "Interval.__init__", not bad, f"{n} (end points, absolute) cases: " + (f"wrong: {bad[:3]}" if bad else
           "_invert, the swap of an absolute interval, and precise_diff of the native copies of the end points the interval keeps"), m.loc(fn))
    if not bad:
        ctx.established(("INTERVAL.delta", "STATE-COMPLETE", "RECON"), "Interval.__init__", "INIT.tabulated")
    return not bad


def _memo_keys(ctx) -> None:
    """MEMO.instants: a memoising decorator (functools.lru_cache / cache) keys its table by `==` and hash() of the arguments, and two aware
    datetimes are equal when they denote the same instant - whatever their zones and wall clocks.  A function of dates / datetimes whose
    result depends on the wall clock (it decomposes them with precise_diff or reads their calendar fields) must therefore not be memoised
    on them: the breakdown computed for one zone would be handed out for the same instants in another (31 Jan .. 28 Feb in Tokyo is one
    month, the same instants in New York are 30 Jan .. 27 Feb: four weeks).  Every function of the modules that build intervals and
    differences is looked at; a memoised function that only orders or compares instants is no finding."""
    wall = {"year", "month", "day", "hour", "minute", "second", "microsecond", "fold", "tzinfo", "weekday", "isoweekday", "toordinal", "timetuple", "isocalendar", "utcoffset"}
    temporal = ("date", "datetime", "time", "DateTime", "Date", "Time", "_T")
    seen = 0
    for name in ("interval", "_helpers", "helpers", "datetime", "date", "time", "duration"):
        try:
            m = pmod(name)
        except core.AnchorMissing:
            continue
        for fn in [n for n in ast.walk(m.tree) if isinstance(n, ast.FunctionDef)]:
            decos = [core.dotted(d.func if isinstance(d, ast.Call) else d) or "" for d in fn.decorator_list]
            memo = [d for d in decos if d.split(".")[-1] in ("lru_cache", "cache")]
            if not memo:
                continue
            seen += 1
            params = [a for a in fn.args.args + fn.args.kwonlyargs if a.arg not in ("self", "cls")]
            typed = [a.arg for a in params if a.annotation is not None and any(t in re.findall(r"[A-Za-z_]+", un(a.annotation)) for t in temporal)]
            names = {a.arg for a in params}
            reads_wall = any(isinstance(n, ast.Attribute) and isinstance(n.value, ast.Name) and n.value.id in names and n.attr in wall for n in ast.walk(fn))
            decomposes = any(isinstance(n, ast.Call) and (core.dotted(n.func) or "").split(".")[-1] in ("precise_diff", "PreciseDiff") and
                             any(isinstance(a, ast.Name) and a.id in names for a in n.args) for n in ast.walk(fn))
            bad = bool(typed) and (reads_wall or decomposes)
            ctx.ob("MEMO.instants", f"{name}.{fn.name}", not bad,
                   f"@{memo[0]} on {fn.name}({', '.join(a.arg for a in params)})" + (f": the parameters {typed} are dates / datetimes, equal (and hashed alike) whenever they denote "
                   f"the same instant, while the result {'is their calendar breakdown' if decomposes else 'reads their wall clock fields'}: the value cached for one zone is returned for "
                   f"the same instants in another" if bad else ": not keyed by values whose wall clock the result depends on"), m.loc(fn))
    ctx.count("memoised_functions", seen)


def run(ctx) -> None:
    ctx.explanation = EXPLANATION
    ctx.step(_memo_keys, ctx)
    hm = pmod("_helpers")
    fn = hm.func("precise_diff")
    ctx.step(_py_diff_tabulate, ctx)
    ctx.step(_py_utc_shift, ctx, hm, fn)
    roles = py_roles(fn)
    pc = py_chain(ctx, hm, fn)
    ctx.ob("BORROW.chain", "py:precise_diff", pc == WANT_CHAIN,
           f"Python borrow chain {pc}; the documented ranges need {WANT_CHAIN} in this order", hm.loc(fn))
    ctx.step(_py_outputs, ctx, hm, fn, roles)
    try:
        py_region, node = _month_region_py(hm, fn, roles)
    except core.Unsupported as e:
        py_region = None
        ctx.unverified("MONTHBRANCH", "py:precise_diff", str(e), hm.loc(fn))
    if py_region is not None:
        _month_tabulate(ctx, py_region, "py", hm.rel)
    mir = None
    try:
        mir = mirfront.load()
    except mirfront.MirUnavailable as e:
        ctx.unverified("RUST", "precise_diff", f"MIR unavailable, Rust clauses not checked: {e}", "rust/")
    if mir is not None:
        ctx.step(_rs_diff_tabulate, ctx, mir)
        f = mir.fn("precise_diff")
        sf = mirsym.struct_fields_from_source((core.REPO / "rust/src/python/helpers.rs").read_text())
        rc = rs_chain(ctx, f)
        ctx.ob("BORROW.chain", "rs:precise_diff", rc == WANT_CHAIN,
               f"Rust borrow chain {rc}; must equal {WANT_CHAIN} (and the Python one)", "rust/src/python/helpers.rs")
        _rs_outputs(ctx, f)
        _rs_symmetry(ctx, f, sf)
        _rs_utc_reference(ctx, mir, f, sf)
        _rs_order_key(ctx, mir, sf)
        if py_region is not None:
            try:
                rs_region = _month_region_rs(f, sf)
                _month_tabulate(ctx, rs_region, "rs", "rust/src/python/helpers.rs")
                only_py, only_rs = py_region - rs_region, rs_region - py_region
                ctx.count("month_branch_paths_py", len(py_region))
                ctx.count("month_branch_paths_rs", len(rs_region))
                if not only_py and not only_rs:
                    ctx.ob("MONTHBRANCH.agree", "py-vs-rs:precise_diff/day<0", True, "the same path summaries in both back ends", "rust/src/python/helpers.rs")
                elif _month_agree_tabulate(ctx, py_region, rs_region) is None:
                    # differently written branches are decided on the values they compute; when those are outside the evaluator
                    # the difference in writing alone says nothing
                    ctx.unverified("MONTHBRANCH.agree", "py-vs-rs:precise_diff/day<0",
                                   f"the branches are written differently and are outside the evaluator (only in Python: {sorted(map(str, only_py))[:1]}; "
                                   f"only in Rust: {sorted(map(str, only_rs))[:1]})", "rust/src/python/helpers.rs")
            except core.Unsupported as e:
                ctx.unverified("MONTHBRANCH.agree", "rs:precise_diff", str(e), "rust/src/python/helpers.rs")
    ctx.step(_backend_switch, ctx)
    ctx.step(_interval_props, ctx)
    from . import C05
    ctx.step(C05._direction_tabulate, ctx)         # `b - a` (pendulum or native operand on either side) is the interval between exactly a and b
    ctx.step(C05._length_tabulate, ctx, True)      # remaining_seconds / microseconds are read from the Duration built in Interval.__new__: its length must be exact
    from ..rules import addduration as AD
    from . import C15
    ctx.step(C15.clamp_dependencies, ctx)
    ctx.step(AD.month_clamp_order, ctx)    # a + (b - a) == b relies on the month shift / clamp of add_duration
    from . import C04
    # ... and on `+ Interval` handing add() the Interval's own components (DateTime and Date pairs)
    ctx.step(C04._siblings, ctx, pmod("datetime"), "DateTime", "_add_timedelta_", "_subtract_timedelta", AD.ADD_PARAMS)
    ctx.step(C04._siblings, ctx, pmod("date"), "Date", "_add_timedelta", "_subtract_timedelta", ["years", "months", "weeks", "days"])
    ctx.expect_min("BORROW", 6)
    ctx.expect_min("UTCSHIFT", 4)
    if mir is not None:
        ctx.expect_min("ORDER.key", 2)
        ctx.expect_min("UTCSHIFT", 6)
    ctx.expect_min("SIGN.outputs", 9)
    ctx.expect_min("INTERVAL", 10)
    ctx.assumptions += ["rustc --emit=mir reflects the compiled helper; debug names in MIR are the source variable names"]
