"""copy.deepcopy() of a DateTime keeps a tzinfo that is not a pendulum timezone.
Reference: the same value built / deep-copied with the standard library."""
import copy
import datetime
import sys
import zoneinfo

import pendulum
from pendulum import DateTime

failures = []


def check(label, cond, detail=""):
    if not cond:
        failures.append(f"{label} {detail}")


class Custom(datetime.tzinfo):
    def utcoffset(self, dt):
        return datetime.timedelta(hours=-3, minutes=-30)

    def dst(self, dt):
        return datetime.timedelta(0)

    def tzname(self, dt):
        return "CUSTOM"


foreign = {
    "timezone(+05:30)": (datetime.timezone(datetime.timedelta(hours=5, minutes=30)), datetime.timedelta(hours=5, minutes=30)),
    "timezone.utc": (datetime.timezone.utc, datetime.timedelta(0)),
    "ZoneInfo(America/New_York)": (zoneinfo.ZoneInfo("America/New_York"), datetime.timedelta(hours=-5)),
    "custom tzinfo": (Custom(), datetime.timedelta(hours=-3, minutes=-30)),
}
for name, (tz, offset) in foreign.items():
    dt = DateTime(2021, 2, 3, 4, 5, 6, 789, tzinfo=tz)
    ref = copy.deepcopy(datetime.datetime(2021, 2, 3, 4, 5, 6, 789, tzinfo=tz))
    clone = copy.deepcopy(dt)
    check(name, type(clone) is DateTime, f"type {type(clone)}")
    check(name, clone.tzinfo is not None, "copy is naive")
    check(name, clone.utcoffset() == offset == ref.utcoffset(), f"offset {clone.utcoffset()} != {offset}")
    if clone.tzinfo is not None:
        check(name, clone == ref and clone == dt, f"{clone!r} != {ref!r}")
        check(name, clone.timestamp() == ref.timestamp(), "timestamp")
        check(name, type(clone.tzinfo) is type(tz), f"tzinfo type {type(clone.tzinfo)}")
    check(name, (clone.year, clone.month, clone.day, clone.hour, clone.minute, clone.second, clone.microsecond)
          == (2021, 2, 3, 4, 5, 6, 789), "fields")
    # nested
    nested = copy.deepcopy({"k": [dt]})["k"][0]
    check(name + " nested", nested.tzinfo is not None and nested.utcoffset() == offset, repr(nested))

# unchanged: pendulum timezones, naive values, fold
paris = pendulum.timezone("Europe/Paris")
p = DateTime(2013, 10, 27, 2, 30, tzinfo=paris, fold=1)
pc = copy.deepcopy(p)
check("pendulum tz", pc.tzinfo is paris and pc.fold == 1 and pc.utcoffset() == datetime.timedelta(hours=1), repr(pc))
f = pendulum.datetime(2020, 1, 1, tz=pendulum.FixedTimezone(3600))
fc = copy.deepcopy(f)
check("fixed tz", fc == f and fc.utcoffset() == datetime.timedelta(hours=1) and fc.timezone_name == "+01:00", repr(fc))
n = pendulum.naive(2020, 1, 2, 3, 4, 5)
nc = copy.deepcopy(n)
check("naive", nc.tzinfo is None and nc == n and type(nc) is DateTime, repr(nc))

for msg in failures:
    print("FAIL", msg)
print("ok" if not failures else f"{len(failures)} failure(s)")
sys.exit(1 if failures else 0)
