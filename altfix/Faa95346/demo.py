"""next / previous / first_of / last_of / nth_of must return the start of the target calendar day
(00:00, or the first instant that exists when midnight is skipped), whatever the time of day and
the fold of the instance.  The expected values are computed with datetime.date and zoneinfo."""
import datetime as dt
import sys
from zoneinfo import ZoneInfo

import pendulum
from pendulum import WeekDay

UTC = dt.timezone.utc
bad = []
checked = 0


def start_of_date(d, zone):
    """first instant of calendar day d: PEP 495, fold=0 maps a skipped time forward
    after a round trip through UTC, and selects the first of two midnights"""
    z = ZoneInfo(zone)
    return dt.datetime(d.year, d.month, d.day, tzinfo=z).astimezone(UTC).astimezone(z)


def unit_bounds(d, unit):
    if unit == "month":
        first = d.replace(day=1)
        nxt = (first + dt.timedelta(days=32)).replace(day=1)
    elif unit == "quarter":
        first = dt.date(d.year, 3 * ((d.month - 1) // 3) + 1, 1)
        nxt = (first + dt.timedelta(days=93)).replace(day=1)
    else:
        first = dt.date(d.year, 1, 1)
        nxt = dt.date(d.year + 1, 1, 1)
    return first, nxt - dt.timedelta(days=1)


def occurrences(d, unit, dow):
    first, last = unit_bounds(d, unit)
    return [
        first + dt.timedelta(days=i)
        for i in range((last - first).days + 1)
        if (first + dt.timedelta(days=i)).weekday() == dow
    ]


def check(label, got, want_date, zone):
    global checked
    checked += 1
    want = start_of_date(want_date, zone)
    same = (
        got.astimezone(UTC) == want.astimezone(UTC)
        and got.replace(tzinfo=None) == want.replace(tzinfo=None)
        and got.utcoffset() == want.utcoffset()
    )
    if not same:
        bad.append(f"{label}: got {got.isoformat()}, expected {want.isoformat()}")


def run(p, zone):
    d = dt.date(p.year, p.month, p.day)
    tag = f"{zone} {p.isoformat()} fold={p.fold}"
    for dow in (WeekDay.MONDAY, WeekDay.SATURDAY, WeekDay.SUNDAY):
        n = d + dt.timedelta(days=1)
        while n.weekday() != dow:
            n += dt.timedelta(days=1)
        check(f"{tag} next({dow.name})", p.next(dow), n, zone)
        n = d - dt.timedelta(days=1)
        while n.weekday() != dow:
            n -= dt.timedelta(days=1)
        check(f"{tag} previous({dow.name})", p.previous(dow), n, zone)
        for unit in ("month", "quarter", "year"):
            occ = occurrences(d, unit, dow)
            check(f"{tag} first_of({unit},{dow.name})", p.first_of(unit, dow), occ[0], zone)
            check(f"{tag} last_of({unit},{dow.name})", p.last_of(unit, dow), occ[-1], zone)
            for nth in (2, len(occ) - 1, len(occ)):
                check(f"{tag} nth_of({unit},{nth},{dow.name})", p.nth_of(unit, nth, dow), occ[nth - 1], zone)
    for unit in ("month", "quarter", "year"):
        first, last = unit_bounds(d, unit)
        check(f"{tag} first_of({unit})", p.first_of(unit), first, zone)
        check(f"{tag} last_of({unit})", p.last_of(unit), last, zone)


# hand-written examples of the report
p = pendulum.datetime(2018, 11, 4, 12, tz="America/Sao_Paulo")  # this day starts at 01:00
for label, got, want in [
    ("next", p.next(WeekDay.MONDAY), "2018-11-05T00:00:00-02:00"),
    ("previous", p.previous(WeekDay.MONDAY), "2018-10-29T00:00:00-03:00"),
    ("first_of", p.first_of("month"), "2018-11-01T00:00:00-03:00"),
    ("last_of", p.last_of("month", WeekDay.FRIDAY), "2018-11-30T00:00:00-02:00"),
]:
    if got.isoformat() != want:
        bad.append(f"Sao_Paulo 2018-11-04 {label}: got {got.isoformat()}, expected {want}")
s = pendulum.datetime(2019, 3, 5, 3, 20, tz="UTC").in_timezone("America/Santiago")  # 00:20, fold=0
r = s.nth_of("year", 36, WeekDay.SUNDAY)  # 2019-09-08, starts at 01:00
if r.isoformat() != "2019-09-08T01:00:00-03:00":
    bad.append(f"Santiago nth_of(year, 36, SUNDAY): got {r.isoformat()} ({r.format('dddd')})")

zones = ["America/Sao_Paulo", "America/Santiago", "America/Havana", "Europe/Paris"]
for zone in zones:
    for year in (2018, 2019):
        for month in range(1, 13):
            for day in (4, 28):
                for hms in ((0, 20), (12, 0)):
                    u = pendulum.datetime(year, month, day, *hms, tz="UTC")
                    run(u.in_timezone(zone), zone)  # fold as produced by in_timezone()
    # instances on the very days whose midnight is skipped
    z = ZoneInfo(zone)
    d = dt.date(2017, 1, 1)
    while d.year < 2020:
        if start_of_date(d, zone).hour != 0:
            run(pendulum.datetime(d.year, d.month, d.day, 12, tz=zone), zone)
        d += dt.timedelta(days=1)

if bad:
    print(f"{len(bad)} of {checked} checks failed, e.g.:")
    for b in bad[:10]:
        print("  ", b)
    sys.exit(1)
print(f"ok: {checked} weekday navigation checks")
