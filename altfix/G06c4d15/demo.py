"""Compiled precise_diff(): a datetime *subclass* (pendulum.DateTime, or any
user subclass) given as second operand must contribute its time of day, just
like one given as first operand.  Expected values are hand-computed, checked
against the standard library where it can express them, and the result must
not depend on whether an operand is a plain datetime or a subclass of it."""
import datetime
import itertools
import random
import sys

import pendulum

from pendulum._pendulum import precise_diff  # the compiled helper

failures = []


class MyDT(datetime.datetime):
    pass


def fields(d):
    return (d.years, d.months, d.days, d.hours, d.minutes, d.seconds, d.microseconds)


def as_kind(kind, args):
    if kind == "plain":
        return datetime.datetime(*args)
    if kind == "pendulum":
        return pendulum.DateTime(*args)
    return MyDT(*args)


# hand-computed: 2020-01-01 03:00 -> 2020-03-02 05:00 = 2 months 1 day 2 hours, 61 days
A, B = (2020, 1, 1, 3), (2020, 3, 2, 5)
KINDS = ("plain", "pendulum", "mydt")
for k1, k2 in itertools.product(KINDS, KINDS):
    d = precise_diff(as_kind(k1, A), as_kind(k2, B))
    if fields(d) != (0, 2, 1, 2, 0, 0, 0) or d.total_days != 61:
        failures.append(f"{k1}->{k2}: {d!r}, expected 2 months 1 day 2 hours / 61 days")
    d = precise_diff(as_kind(k1, B), as_kind(k2, A))
    if fields(d) != (0, -2, -1, -2, 0, 0, 0) or d.total_days != -61:
        failures.append(f"{k1}->{k2} reversed: {d!r}, expected -(2 months 1 day 2 hours)")

# random naive pairs: subclass operands give the same answer as plain ones,
# and when no month boundary is involved the answer is the stdlib timedelta
rnd = random.Random(6)
for _ in range(400):
    a = (rnd.randint(1990, 2030), rnd.randint(1, 12), rnd.randint(1, 28),
         rnd.randint(0, 23), rnd.randint(0, 59), rnd.randint(0, 59), rnd.randint(0, 999999))
    b = (rnd.randint(1990, 2030), rnd.randint(1, 12), rnd.randint(1, 28),
         rnd.randint(0, 23), rnd.randint(0, 59), rnd.randint(0, 59), rnd.randint(0, 999999))
    ref = precise_diff(as_kind("plain", a), as_kind("plain", b))
    for k1, k2 in itertools.product(KINDS, KINDS):
        d = precise_diff(as_kind(k1, a), as_kind(k2, b))
        if fields(d) != fields(ref) or d.total_days != ref.total_days:
            failures.append(f"{k1}{a} -> {k2}{b}: {d!r} != plain result {ref!r}")

for _ in range(400):
    y, m = rnd.randint(1990, 2030), rnd.randint(1, 12)
    d1, d2 = sorted((rnd.randint(1, 28), rnd.randint(1, 28)))
    a = (y, m, d1, rnd.randint(0, 23), rnd.randint(0, 59), rnd.randint(0, 59), rnd.randint(0, 999999))
    b = (y, m, d2, rnd.randint(0, 23), rnd.randint(0, 59), rnd.randint(0, 59), rnd.randint(0, 999999))
    delta = datetime.datetime(*b) - datetime.datetime(*a)
    sign = -1 if delta < datetime.timedelta(0) else 1
    delta = abs(delta)
    want = tuple(sign * v for v in (0, 0, delta.days, delta.seconds // 3600,
                                    delta.seconds // 60 % 60, delta.seconds % 60, delta.microseconds))
    for k1, k2 in itertools.product(KINDS, KINDS):
        d = precise_diff(as_kind(k1, a), as_kind(k2, b))
        if fields(d) != want:
            failures.append(f"{k1}{a} -> {k2}{b}: {fields(d)} != timedelta {want}")

# plain dates and date subclasses are still dates (no time of day)
for d1, d2 in itertools.product((datetime.date(2020, 1, 1), pendulum.Date(2020, 1, 1)),
                                (datetime.date(2020, 3, 2), pendulum.Date(2020, 3, 2))):
    d = precise_diff(d1, d2)
    if fields(d) != (0, 2, 1, 0, 0, 0, 0) or d.total_days != 61:
        failures.append(f"dates {type(d1).__name__}->{type(d2).__name__}: {d!r}")

# aware operands in one zone
tz = pendulum.timezone("Europe/Paris")
a = pendulum.datetime(2020, 1, 1, 3, tz=tz)
b = pendulum.datetime(2020, 3, 2, 5, tz=tz)
d = precise_diff(a, b)
if fields(d) != (0, 2, 1, 2, 0, 0, 0):
    failures.append(f"aware pendulum: {d!r}")
# public API built on it
if a.diff(b).in_words() != "2 months 1 day 2 hours":
    failures.append(f"diff().in_words(): {a.diff(b).in_words()!r}")

for f in failures[:20]:
    print("FAIL", f)
print("failures:", len(failures))
sys.exit(1 if failures else 0)
