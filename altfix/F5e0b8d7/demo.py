"""pickle / copy keep the fold of a DateTime and of a Time.  Reference: the standard library's
datetime/zoneinfo for the instants, and datetime.time for the fold attribute."""
import copy
import datetime
import pickle
import sys
import zoneinfo

import pendulum
from pendulum import DateTime, Time

failures = []


def check(label, cond, detail=""):
    if not cond:
        failures.append(f"{label} {detail}")


paris = pendulum.timezone("Europe/Paris")
std_paris = zoneinfo.ZoneInfo("Europe/Paris")
# 2013-10-27 02:30 happens twice in Paris: fold=0 is 00:30 UTC (+02:00), fold=1 is 01:30 UTC (+01:00)
expected = {
    f: datetime.datetime(2013, 10, 27, 2, 30, 0, 123456, tzinfo=std_paris, fold=f).astimezone(datetime.timezone.utc)
    for f in (0, 1)
}
assert expected[1] - expected[0] == datetime.timedelta(hours=1)


def same_instant(a, b):
    # PEP 495: "==" between zones is always False for a time in a repeated interval; compare the POSIX timestamps
    return a.timestamp() == b.timestamp()


for fold in (0, 1):
    dt = DateTime(2013, 10, 27, 2, 30, 0, 123456, tzinfo=paris, fold=fold)
    check("construct", dt.fold == fold and same_instant(dt, expected[fold]), repr(dt))
    clones = {"copy.copy": copy.copy(dt), "copy.deepcopy": copy.deepcopy(dt)}
    for proto in range(pickle.HIGHEST_PROTOCOL + 1):
        clones[f"pickle{proto}"] = pickle.loads(pickle.dumps(dt, proto))
    for how, c in clones.items():
        label = f"DateTime fold={fold} {how}:"
        check(label, type(c) is DateTime, f"type {type(c)}")
        check(label, c.fold == fold, f"fold {c.fold}")
        check(label, same_instant(c, expected[fold]), f"instant {c.isoformat()} != {expected[fold].isoformat()}")
        check(label, c.utcoffset() == datetime.timedelta(hours=2 - fold), f"offset {c.utcoffset()}")
        check(label, c.microsecond == 123456 and c.timezone_name == "Europe/Paris", repr(c))

    # naive DateTime and fixed offsets carry the attribute as well
    naive = DateTime(2013, 10, 27, 2, 30, fold=fold)
    for how, c in (("copy.copy", copy.copy(naive)), ("pickle", pickle.loads(pickle.dumps(naive)))):
        check(f"naive DateTime fold={fold} {how}:", c.fold == fold and c.tzinfo is None
              and c.replace(tzinfo=None) == datetime.datetime(2013, 10, 27, 2, 30), repr(c))

    for tz in (None, datetime.timezone.utc):
        tm = Time(2, 30, 15, 42, tzinfo=tz, fold=fold)
        ref = datetime.time(2, 30, 15, 42, tzinfo=tz, fold=fold)
        clones = {"copy.copy": copy.copy(tm), "copy.deepcopy": copy.deepcopy(tm)}
        for proto in range(pickle.HIGHEST_PROTOCOL + 1):
            clones[f"pickle{proto}"] = pickle.loads(pickle.dumps(tm, proto))
        for how, c in clones.items():
            label = f"Time fold={fold} tz={tz} {how}:"
            check(label, type(c) is Time, f"type {type(c)}")
            check(label, c.fold == ref.fold, f"fold {c.fold}")
            check(label, (c.hour, c.minute, c.second, c.microsecond, c.tzinfo) == (2, 30, 15, 42, tz), repr(c))


# subclasses are rebuilt as themselves
class MyDateTime(DateTime):
    pass


sub = MyDateTime(2013, 10, 27, 2, 30, 0, 123456, tzinfo=paris, fold=1)
c = pickle.loads(pickle.dumps(sub))
check("subclass:", type(c) is MyDateTime and c.fold == 1 and same_instant(c, expected[1]), repr(c))

for f in failures:
    print("FAIL", f)
print("ok" if not failures else f"{len(failures)} failure(s)")
sys.exit(1 if failures else 0)
