"""E7: equivalence of a function of the analysed tree with the same function of the reference snapshot.

The shape rules of pvs/props were discharged on the reference tree (/verif/reference, a frozen copy of the sources at
the commit named in REFERENCE.json).  A later tree may rename locals, extract or inline private helpers, invert an
if/else, turn a conditional expression into an if statement, reorder keyword arguments ... without changing what a
function computes.  To keep such edits away from the shape rules, every function of the analysed tree that differs
textually from its reference counterpart is brought to a canonical *path summary*:

  * statements are executed symbolically over `ast` expressions (nothing of pendulum is imported or run): locals are
    substituted by their values, `self.x = e` stores and expression statements are recorded as effects, branches that
    only assign are merged into conditional values, branches that leave the function fork the path;
  * calls to private helpers of the same module / class and to local closures are inlined (bounded depth) on both sides,
    so the helper boundary does not matter;
  * conditional values are expanded into path conditions, conditions are decomposed into atoms (short-circuit), atoms and
    values are printed canonically (polynomial normal form for + - *, comparisons as `p OP 0`, keywords bound/sorted);
  * loops are summarised recursively with positionally named loop-carried variables (a restructured loop is simply
    "not equal").

Two functions with equal summaries compute the same thing on every path the evaluator models; then the analysed
function is replaced by the reference node in the tree the rules see.  Anything the evaluator does not model makes the
comparison fail closed ("not equal"): the function is then analysed exactly as it stands, as before.
"""
from __future__ import annotations

import ast
import json
import os
import sys
from fractions import Fraction
from pathlib import Path
from typing import Any

from . import core
from .rules.units import _add, _mul, show

if sys.getrecursionlimit() < 20000:
    sys.setrecursionlimit(20000)
REF_ROOT = core.VERIF / "reference"
MAX_LEAVES = 3000
MERGE_LIMIT = 60000
MAX_DEPTH = 3
TIME_BUDGET = float(os.environ.get("PVS_SEM_BUDGET", "4"))     # seconds per function summary
_DEADLINE = [0.0]


def _tick():
    import time
    if _DEADLINE[0] and time.time() > _DEADLINE[0]:
        raise Giveup("time budget exhausted")


class Giveup(Exception):
    pass


# ---------------------------------------------------------------------------------------------------------------------
# small helpers

def _c(n):
    return core.clone(n)


def _dump(n) -> str:
    return ast.dump(n) if isinstance(n, ast.AST) else repr(n)


def _name(id_: str) -> ast.Name:
    return ast.Name(id_, ast.Load())


def _is_raise(n) -> bool:
    return isinstance(n, ast.Call) and isinstance(n.func, ast.Name) and n.func.id == "__raise__"


SIGS = {
    "datetime": ["year", "month", "day", "hour", "minute", "second", "microsecond", "tzinfo"],
    "datetime.datetime": ["year", "month", "day", "hour", "minute", "second", "microsecond", "tzinfo"],
    "_datetime.datetime": ["year", "month", "day", "hour", "minute", "second", "microsecond", "tzinfo"],
    "date": ["year", "month", "day"], "datetime.date": ["year", "month", "day"], "_datetime.date": ["year", "month", "day"],
    "time": ["hour", "minute", "second", "microsecond", "tzinfo"], "datetime.time": ["hour", "minute", "second", "microsecond", "tzinfo"],
    "timedelta": ["days", "seconds", "microseconds", "milliseconds", "minutes", "hours", "weeks"],
    "datetime.timedelta": ["days", "seconds", "microseconds", "milliseconds", "minutes", "hours", "weeks"],
    "_datetime.timedelta": ["days", "seconds", "microseconds", "milliseconds", "minutes", "hours", "weeks"],
}


class ModCtx:
    """functions of one module, for helper resolution"""

    def __init__(self, tree: ast.Module, root: Path | None = None):
        self.tree = tree
        self.root = root
        self._numeric: dict[str, Any] = {}
        self.imported: dict[str, tuple[str, str]] = {}
        for st in ast.walk(tree):
            if isinstance(st, ast.ImportFrom) and st.module and st.module.startswith("pendulum") and st.level == 0:
                for a in st.names:
                    self.imported[a.asname or a.name] = (st.module, a.name)
        self.funcs: dict[str, ast.FunctionDef] = {}
        self.classes: dict[str, dict[str, ast.FunctionDef]] = {}
        self.bases: dict[str, list[str]] = {}
        self.consts: dict[str, ast.expr] = {}

        def rec(body, cls=None):
            for st in body:
                if isinstance(st, (ast.FunctionDef, ast.AsyncFunctionDef)):
                    if any((core.dotted(d) or "").endswith("overload") for d in st.decorator_list):
                        continue
                    if cls is None:
                        self.funcs[st.name] = st
                    else:
                        self.classes[cls][st.name] = st
                elif isinstance(st, ast.ClassDef) and cls is None:
                    self.classes.setdefault(st.name, {})
                    self.bases[st.name] = [core.dotted(b) or "" for b in st.bases]
                    rec(st.body, st.name)
                elif isinstance(st, ast.Assign) and cls is None and len(st.targets) == 1 and isinstance(st.targets[0], ast.Name):
                    self.consts[st.targets[0].id] = st.value
                elif isinstance(st, (ast.If, ast.Try)):
                    rec(st.body, cls)
                    for h in getattr(st, "handlers", []):
                        rec(h.body, cls)
                    rec(st.orelse, cls)
        rec(tree.body)

    def numeric(self, name: str):
        """value of a module-level / imported numeric constant (None when it is not one)"""
        if name in self._numeric:
            return self._numeric[name]
        v = None
        node = self.consts.get(name)
        if node is not None:
            v = _numeric_value(node, self)
        elif name in self.imported and self.root is not None:
            modname, orig = self.imported[name]
            p = self.root / "src" / (modname.replace(".", "/") + ".py")
            if not p.exists():
                p = self.root / "src" / modname.replace(".", "/") / "__init__.py"
            other = _MODCTX_CACHE.get(str(p))
            if other is None and p.exists():
                try:
                    other = ModCtx(ast.parse(p.read_text(encoding="utf-8")), self.root)
                except SyntaxError:
                    other = None
                _MODCTX_CACHE[str(p)] = other
            if other is not None and other is not self:
                v = other.numeric(orig)
        self._numeric[name] = v
        return v

    def method(self, cls: str | None, name: str) -> ast.FunctionDef | None:
        seen = set()
        work = [cls] if cls else []
        while work:
            c = work.pop(0)
            if c in seen or c not in self.classes:
                continue
            seen.add(c)
            if name in self.classes[c]:
                return self.classes[c][name]
            work += [b.split(".")[-1] for b in self.bases.get(c, [])]
        return None


_MODCTX_CACHE: dict[str, Any] = {}


def _numeric_value(node, ctx: "ModCtx", depth: int = 0):
    if depth > 6:
        return None
    if isinstance(node, ast.Constant) and isinstance(node.value, (int, float)) and not isinstance(node.value, bool):
        return node.value
    if isinstance(node, ast.UnaryOp) and isinstance(node.op, ast.USub):
        v = _numeric_value(node.operand, ctx, depth + 1)
        return -v if v is not None else None
    if isinstance(node, ast.BinOp) and isinstance(node.op, (ast.Add, ast.Sub, ast.Mult, ast.Pow)):
        a, b = _numeric_value(node.left, ctx, depth + 1), _numeric_value(node.right, ctx, depth + 1)
        if a is None or b is None:
            return None
        try:
            return {ast.Add: a + b, ast.Sub: a - b, ast.Mult: a * b}.get(type(node.op), None) if not isinstance(node.op, ast.Pow) else (a ** b if abs(b) < 64 else None)
        except Exception:       # noqa: BLE001
            return None
    if isinstance(node, ast.Name):
        return ctx.numeric(node.id)
    return None


def _params(fn) -> tuple[list[str], dict[str, ast.expr], str | None, str | None, list[str]]:
    a = fn.args
    pos = [x.arg for x in a.posonlyargs + a.args]
    defaults: dict[str, ast.expr] = {}
    for name, d in zip(pos[len(pos) - len(a.defaults):], a.defaults):
        defaults[name] = d
    kwonly = [x.arg for x in a.kwonlyargs]
    for name, d in zip(kwonly, a.kw_defaults):
        if d is not None:
            defaults[name] = d
    return pos, defaults, a.vararg.arg if a.vararg else None, a.kwarg.arg if a.kwarg else None, kwonly


# ---------------------------------------------------------------------------------------------------------------------
# canonical printing

_INTERN: dict[str, str] = {}
_INTERN_TEXT: list[str] = []


def intern(text: str) -> str:
    """short token for a canonical text (texts are built from the tokens of their parts, so their length is bounded even
    when the value is a deeply shared DAG)"""
    t = _INTERN.get(text)
    if t is None:
        t = f"#{len(_INTERN_TEXT)}"
        _INTERN[text] = t
        _INTERN_TEXT.append(text)
    return t


def detok(tok: str, depth: int = 6) -> str:
    """readable form of a token (debugging / evidence only)"""
    import re as _re

    def rep(m):
        i = int(m.group(1))
        if not (depth > 0 and i < len(_INTERN_TEXT)):
            return m.group(0)
        txt = detok(_INTERN_TEXT[i], depth - 1)
        nxt = tok[m.end():m.end() + 1]
        if nxt in (".", "[") and not _re.fullmatch(r"[\w$.]+", txt):
            try:
                atomic = isinstance(ast.parse(txt.replace("$", "_").replace("**=", "**"), mode="eval").body,
                                    (ast.Name, ast.Attribute, ast.Call, ast.Subscript, ast.Constant))
            except SyntaxError:
                atomic = False
            if not atomic:
                return "(" + txt + ")"          # (-1*delta).days, not -1*delta.days
        return txt
    return _re.sub(r"#(\d+)", rep, tok)


class Printer:
    def __init__(self, ctx: ModCtx, cls: str | None):
        self.ctx = ctx
        self.cls = cls
        self._memo_s: dict[int, tuple[Any, str]] = {}
        self._memo_p: dict[int, tuple[Any, dict]] = {}
        self._memo_a: dict[int, tuple[Any, tuple[str, bool]]] = {}
        self._memo_str: dict[int, tuple[Any, bool]] = {}
        self._sig_defaults: dict[str, ast.expr] = {}

    def stringish(self, n) -> bool:
        m = self._memo_str.get(id(n))
        if m is not None:
            return m[1]
        r = self._stringish(n)
        self._memo_str[id(n)] = (n, r)
        return r

    def _stringish(self, n) -> bool:
        if isinstance(n, (ast.JoinedStr, ast.List, ast.Tuple, ast.ListComp)):
            return True
        if isinstance(n, ast.Constant) and isinstance(n.value, (str, bytes)):
            return True
        if isinstance(n, ast.BinOp) and isinstance(n.op, ast.Add):
            return self.stringish(n.left) or self.stringish(n.right)
        if isinstance(n, ast.Call) and core.un(n.func) in ("str", "repr", "format"):
            return True
        return False

    def poly(self, n):
        m = self._memo_p.get(id(n))
        if m is not None:
            return m[1]
        r = self._poly(n)
        self._memo_p[id(n)] = (n, r)
        return r

    def _poly(self, n):
        if isinstance(n, ast.Constant) and isinstance(n.value, (int, float)) and not isinstance(n.value, bool):
            return {(): Fraction(n.value)} if n.value != 0 else {}
        if isinstance(n, ast.UnaryOp) and isinstance(n.op, ast.USub):
            return _add({}, self.poly(n.operand), -1)
        if isinstance(n, ast.UnaryOp) and isinstance(n.op, ast.UAdd):
            return self.poly(n.operand)
        if isinstance(n, ast.BinOp) and isinstance(n.op, (ast.Add, ast.Sub)) and not self.stringish(n):
            return _add(self.poly(n.left), self.poly(n.right), 1 if isinstance(n.op, ast.Add) else -1)
        if isinstance(n, ast.BinOp) and isinstance(n.op, ast.Mult) and not self.stringish(n.left) and not self.stringish(n.right):
            a, b = self.poly(n.left), self.poly(n.right)
            if len(a) * len(b) > 400:
                raise Giveup("polynomial too large")
            return _mul(a, b)
        if isinstance(n, ast.BinOp) and isinstance(n.op, ast.Mod) and not self.stringish(n.left):
            # a % b == a - b * (a // b): only the floor quotient is kept as an atom
            a, b = self.poly(n.left), self.poly(n.right)
            q = {(f"FloorDiv({intern(show(a))}, {intern(show(b))})",): Fraction(1)}
            if len(b) * len(q) > 400:
                raise Giveup("polynomial too large")
            return _add(a, _mul(b, q), -1)
        if isinstance(n, ast.BinOp) and isinstance(n.op, ast.FloorDiv):
            a, b = self.poly(n.left), self.poly(n.right)
            return {(f"FloorDiv({intern(show(a))}, {intern(show(b))})",): Fraction(1)}
        if isinstance(n, ast.Name):
            v = self.ctx.numeric(n.id)
            if v is not None:
                return {(): Fraction(v)} if v != 0 else {}
        return {(self.s(n, arith=False),): Fraction(1)}

    def s(self, n, arith: bool = True) -> str:
        if n is None:
            return "None"
        key = id(n) * 2 + (1 if arith else 0)
        m = self._memo_s.get(key)
        if m is not None:
            return m[1]
        txt = self._s(n, arith)
        r = txt if (txt.startswith("#") and txt[1:].isdigit()) else intern(txt)
        self._memo_s[key] = (n, r)
        return r

    def _s(self, n, arith: bool) -> str:
        if isinstance(n, ast.Constant):
            if isinstance(n.value, (int, float)) and not isinstance(n.value, bool) and arith:
                return show(self.poly(n))
            return repr(n.value)
        if arith and isinstance(n, ast.Name) and self.ctx.numeric(n.id) is not None:
            return show(self.poly(n))
        if arith and isinstance(n, (ast.BinOp, ast.UnaryOp)) and not isinstance(getattr(n, "op", None), (ast.Not, ast.Invert)):
            if isinstance(n, ast.BinOp) and not isinstance(n.op, (ast.Add, ast.Sub, ast.Mult, ast.Mod, ast.FloorDiv)):
                return f"{type(n.op).__name__}({self.s(n.left)}, {self.s(n.right)})"
            if isinstance(n, ast.BinOp) and self.stringish(n):
                return f"{type(n.op).__name__}({self.s(n.left)}, {self.s(n.right)})"
            return show(self.poly(n))
        if isinstance(n, ast.BinOp):
            return f"{type(n.op).__name__}({self.s(n.left)}, {self.s(n.right)})"
        if isinstance(n, ast.UnaryOp) and isinstance(n.op, ast.Not):
            k, pol = self.atom(n.operand)
            return k if not pol else f"not ({k})"
        if isinstance(n, ast.UnaryOp):
            return f"{type(n.op).__name__}({self.s(n.operand)})"
        if isinstance(n, ast.Name):
            return n.id
        if isinstance(n, ast.Attribute):
            return f"{self.s(n.value)}.{n.attr}"
        if isinstance(n, ast.Subscript):
            if isinstance(n.value, (ast.Tuple, ast.List)) and isinstance(n.slice, ast.Constant) and isinstance(n.slice.value, int) \
                    and -len(n.value.elts) <= n.slice.value < len(n.value.elts) and not any(isinstance(x, ast.Starred) for x in n.value.elts):
                return self.s(n.value.elts[n.slice.value])
            return f"{self.s(n.value)}[{self.s(n.slice)}]"
        if isinstance(n, ast.Slice):
            return f"{self.s(n.lower)}:{self.s(n.upper)}:{self.s(n.step)}"
        if isinstance(n, ast.Call):
            return self.call(n)
        if isinstance(n, ast.Compare):
            if len(n.ops) > 1:
                parts, left = [], n.left
                for op, r in zip(n.ops, n.comparators):
                    parts.append(ast.Compare(left, [op], [r]))
                    left = r
                return "(" + " and ".join(self.s(p) for p in parts) + ")"
            k, pol = self.atom(n)
            return k if pol else f"not ({k})"
        if isinstance(n, ast.BoolOp):
            op = " and " if isinstance(n.op, ast.And) else " or "
            return "(" + op.join(self.s(v) for v in n.values) + ")"
        if isinstance(n, (ast.Tuple, ast.List)):
            b = "()" if isinstance(n, ast.Tuple) else "[]"
            return b[0] + ", ".join(self.s(e) for e in n.elts) + b[1]
        if isinstance(n, ast.Dict):
            items = [(self.s(k) if k is not None else "**", self.s(v)) for k, v in zip(n.keys, n.values)]
            if all(isinstance(k, ast.Constant) for k in n.keys):
                items.sort()
            return "{" + ", ".join(f"{k}: {v}" for k, v in items) + "}"
        if isinstance(n, ast.JoinedStr):
            parts: list[Any] = []
            for v in n.values:
                lit = None
                if isinstance(v, ast.Constant):
                    lit = str(v.value)
                elif isinstance(v, ast.FormattedValue) and v.format_spec is None and v.conversion == -1 and isinstance(v.value, ast.Constant) \
                        and isinstance(v.value.value, str):
                    lit = v.value.value
                if lit is not None:
                    if parts and isinstance(parts[-1], list):
                        parts[-1][0] += lit
                    else:
                        parts.append([lit])
                elif isinstance(v, ast.FormattedValue):
                    spec = self.s(v.format_spec) if v.format_spec is not None else ""
                    parts.append("{" + self.s(v.value) + ("!" + chr(v.conversion) if v.conversion != -1 else "") + ":" + spec + "}")
            if len(parts) == 1 and isinstance(parts[0], list):
                return repr(parts[0][0])
            return "f(" + " ".join(repr(p[0]) if isinstance(p, list) else p for p in parts if not (isinstance(p, list) and p[0] == "")) + ")"
        if isinstance(n, ast.IfExp):
            k, pol = self.atom(n.test)
            a, b = self.s(n.body), self.s(n.orelse)
            return f"ite({k}, {a}, {b})" if pol else f"ite({k}, {b}, {a})"
        if isinstance(n, ast.Starred):
            return "*" + self.s(n.value)
        if isinstance(n, ast.Lambda):
            ps = [a.arg for a in n.args.args]
            ren = {p: f"$l{i}" for i, p in enumerate(ps)}
            body = _Rename(ren).visit(_c(n.body))
            return f"lambda[{len(ps)}]: {self.s(body)}"
        return ast.unparse(n)

    def call(self, n: ast.Call) -> str:
        if _size(n) < 40:
            folded = _const_fold(n)
            if folded is not None:
                return repr(folded.value)
        fd = core.dotted(n.func)
        if fd == "getattr" and len(n.args) == 2 and not n.keywords and isinstance(n.args[1], ast.Constant) and isinstance(n.args[1].value, str) \
                and n.args[1].value.isidentifier():
            return f"{self.s(n.args[0])}.{n.args[1].value}"
        f = self.s(n.func)
        if fd in ("min", "max") and not n.keywords and len(n.args) >= 2 and not any(isinstance(a, ast.Starred) for a in n.args):
            return f"{fd}({', '.join(sorted(self.s(a) for a in n.args))})"
        names = self.signature(n)
        dflt = self._sig_defaults
        self._sig_defaults = {}
        args: list[str] = []
        kws: list[tuple[str, str]] = []
        for i, a in enumerate(n.args):
            if isinstance(a, ast.Starred):
                args.append("*" + self.s(a.value))
            elif names is not None and i < len(names) and not any(isinstance(x, ast.Starred) for x in n.args[:i + 1]):
                kws.append((names[i], self.s(a)))
            else:
                args.append(self.s(a))
        for k in n.keywords:
            if k.arg is None:
                if isinstance(k.value, ast.Dict) and all(isinstance(x, ast.Constant) and isinstance(x.value, str) for x in k.value.keys):
                    for kk, vv in zip(k.value.keys, k.value.values):
                        kws.append((kk.value, self.s(vv)))
                elif isinstance(k.value, ast.Call) and core.dotted(k.value.func) == "dict" and len(k.value.args) == 1 and not k.value.keywords \
                        and not isinstance(k.value.args[0], ast.Starred):
                    kws.append(("**", self.s(k.value.args[0])))        # f(**dict(m)) passes what f(**m) passes
                else:
                    kws.append(("**", self.s(k.value)))
            else:
                kws.append((k.arg, self.s(k.value)))
        if names is not None and not any(k == "**" for k, _ in kws) and not any(a.startswith("*") for a in args):
            given = {k for k, _ in kws}
            for p, dv in dflt.items():          # omitted parameters take their declared default
                if p not in given and p in names:
                    kws.append((p, self.s(dv)))
        kws.sort()
        return f"{f}({', '.join(args + [f'{k}={v}' for k, v in kws])})"

    def signature(self, n: ast.Call) -> list[str] | None:
        self._sig_defaults = {}
        r = self._signature(n)
        return r

    def _sig_of(self, fn, skip: int) -> list[str]:
        pos, defaults, _va, _kw, kwonly = _params(fn)
        self._sig_defaults = {k: v for k, v in defaults.items() if isinstance(v, ast.Constant)}
        return pos[skip:]

    def _signature(self, n: ast.Call) -> list[str] | None:
        f = n.func
        d = core.dotted(f)
        if d in SIGS:
            return SIGS[d]
        fn = None
        if isinstance(f, ast.Name):
            fn = self.ctx.funcs.get(f.id)
            if fn is None and f.id in self.ctx.classes:
                fn = self.ctx.classes[f.id].get("__new__") or self.ctx.classes[f.id].get("__init__")
                if fn is not None:
                    return self._sig_of(fn, 1)
            if fn is None and f.id == "cls" and self.cls:
                fn = self.ctx.method(self.cls, "__new__") or self.ctx.method(self.cls, "__init__")
                if fn is not None:
                    return self._sig_of(fn, 1)
        elif isinstance(f, ast.Attribute):
            base = core.un(f.value) if isinstance(f.value, (ast.Name, ast.Attribute)) else ""
            if base in ("self", "cls", "self.__class__") and self.cls:
                fn = self.ctx.method(self.cls, f.attr)
                if fn is not None:
                    st = any(core.dotted(dd) == "staticmethod" for dd in fn.decorator_list)
                    return self._sig_of(fn, 0 if st else 1)
            if d == "self.__class__" and self.cls:
                fn = self.ctx.method(self.cls, "__new__") or self.ctx.method(self.cls, "__init__")
                if fn is not None:
                    return self._sig_of(fn, 1)
            return None
        if fn is not None:
            return self._sig_of(fn, 0)
        return None

    # atoms of conditions -------------------------------------------------------------------------------------------
    def atom(self, n) -> tuple[str, bool]:
        m = self._memo_a.get(id(n))
        if m is not None:
            return m[1]
        k, p = self._atom(n)
        r = (k if (k.startswith("#") and k[1:].isdigit()) else intern(k), p)
        self._memo_a[id(n)] = (n, r)
        return r

    def _atom(self, n) -> tuple[str, bool]:
        """canonical (text, polarity) of a condition atom"""
        if isinstance(n, ast.UnaryOp) and isinstance(n.op, ast.Not):
            k, p = self.atom(n.operand)
            return k, not p
        if isinstance(n, ast.Compare) and len(n.ops) == 1:
            op, l, r = n.ops[0], n.left, n.comparators[0]
            if isinstance(op, (ast.Lt, ast.LtE, ast.Gt, ast.GtE, ast.Eq, ast.NotEq)) and not self.stringish(l) and not self.stringish(r):
                d = _add(self.poly(l), self.poly(r), -1)
                sym = {ast.Lt: "<", ast.LtE: "<=", ast.Gt: ">", ast.GtE: ">=", ast.Eq: "==", ast.NotEq: "!="}[type(op)]
                flip = {"<": ">", "<=": ">=", ">": "<", ">=": "<=", "==": "==", "!=": "!="}
                if d:
                    first = sorted(d, key=lambda t: (len(t), t))[-1]
                    if d[first] < 0:
                        d = {m: -c for m, c in d.items()}
                        sym = flip[sym]
                neg = {">=": "<", ">": "<=", "!=": "=="}
                pol = True
                if sym in neg:
                    sym, pol = neg[sym], False
                # len(x) is never negative: `len(x) <= 0` and `len(x) < 1` are `len(x) == 0`
                mons = [m for m in d if m != ()]
                if len(mons) == 1 and len(mons[0]) == 1 and d[mons[0]] == 1 and detok(mons[0][0], 3).startswith("len("):
                    c = d.get((), Fraction(0))
                    if (sym == "<=" and c == 0) or (sym == "<" and c == -1):
                        return f"{mons[0][0]} == 0", pol
                return f"{show(d)} {sym} 0", pol
            if isinstance(op, ast.Eq):
                a, b = sorted([self.s(l), self.s(r)])
                return f"{a} == {b}", True
            if isinstance(op, ast.NotEq):
                a, b = sorted([self.s(l), self.s(r)])
                return f"{a} == {b}", False
            if isinstance(op, ast.IsNot):
                return f"{self.s(l)} is {self.s(r)}", False
            if isinstance(op, ast.Is):
                return f"{self.s(l)} is {self.s(r)}", True
            if isinstance(op, (ast.In, ast.NotIn)):
                coll = self.s(r)
                if isinstance(r, (ast.Tuple, ast.List, ast.Set)) and r.elts and all(isinstance(x, ast.Constant) for x in r.elts):
                    coll = "{" + ", ".join(sorted(repr(x.value) for x in r.elts)) + "}"     # membership in a literal: order and kind do not matter
                return f"{self.s(l)} in {coll}", isinstance(op, ast.In)
        if isinstance(n, ast.Call) and core.dotted(n.func) == "bool" and len(n.args) == 1 and not n.keywords:
            return self.atom(n.args[0])
        return self.s(n), True


class _Rename(ast.NodeTransformer):
    def __init__(self, ren: dict[str, str]):
        self.ren = ren

    def visit_Name(self, node: ast.Name):
        if node.id in self.ren:
            return ast.Name(self.ren[node.id], node.ctx)
        return node


# ---------------------------------------------------------------------------------------------------------------------
# conditions -> alternatives of atoms (short-circuit DNF)

def decide(e: ast.expr, want: bool) -> list[list[tuple[ast.expr, bool]]]:
    if isinstance(e, ast.UnaryOp) and isinstance(e.op, ast.Not):
        return decide(e.operand, not want)
    if isinstance(e, ast.Compare) and len(e.ops) > 1:       # a < b < c  ==  a < b and b < c
        parts = []
        left = e.left
        for op, r in zip(e.ops, e.comparators):
            parts.append(ast.Compare(left, [op], [r]))
            left = r
        return decide(ast.BoolOp(ast.And(), parts), want)
    if isinstance(e, ast.BoolOp):
        is_and = isinstance(e.op, ast.And)
        first, rest = e.values[0], e.values[1:]
        rest_e = rest[0] if len(rest) == 1 else ast.BoolOp(e.op, rest)
        out = []
        if is_and == want:
            # all must be `want` (and/True, or/False)
            for a in decide(first, want):
                for b in decide(rest_e, want):
                    out.append(a + b)
        else:
            # one suffices: first is `want`, or first is not and the rest decides
            out += decide(first, want)
            for a in decide(first, not want):
                for b in decide(rest_e, want):
                    out.append(a + b)
        return out
    if isinstance(e, ast.IfExp):
        out = []
        for a in decide(e.test, True):
            for b in decide(e.body, want):
                out.append(a + b)
        for a in decide(e.test, False):
            for b in decide(e.orelse, want):
                out.append(a + b)
        return out
    if isinstance(e, ast.Constant):
        return [[]] if bool(e.value) == want else []
    return [[(e, want)]]


# ---------------------------------------------------------------------------------------------------------------------
# symbolic execution

class State:
    __slots__ = ("env", "stores", "effects", "conds")

    def __init__(self, env=None, stores=None, effects=None, conds=None):
        self.env: dict[str, ast.expr] = env if env is not None else {}
        self.stores: dict[str, ast.expr] = stores if stores is not None else {}
        self.effects: list[Any] = effects if effects is not None else []
        self.conds: list[tuple[ast.expr, bool]] = conds if conds is not None else []

    def copy(self) -> "State":
        return State(dict(self.env), dict(self.stores), list(self.effects), list(self.conds))


FALL, RET, RAISE, BRK, CONT = "fall", "return", "raise", "break", "continue"


class Exec:
    def __init__(self, ctx: ModCtx, cls: str | None, depth: int = 0, stack: tuple = (), loop_base: list | None = None):
        self.ctx = ctx
        self.cls = cls
        self.depth = depth
        self.stack = stack
        self.printer = Printer(ctx, cls)
        self.local_defs: dict[str, ast.AST] = {}
        self.loop_counter = loop_base if loop_base is not None else [0]
        self.budget = [0]

    # -- expressions ---------------------------------------------------------------------------------------------------
    def ev(self, e: ast.expr, st: State) -> ast.expr:
        """substitute locals / stored attributes, inline helpers, normalise"""
        e = core.strip_casts(_c(e))
        return self._ev(e, st, frozenset())

    def _ev(self, e, st: State, bound: frozenset):
        if e is None or not isinstance(e, ast.AST):
            return e
        self.budget[0] += 1
        if self.budget[0] % 2000 == 0:
            _tick()
            if self.budget[0] > 3_000_000:
                raise Giveup("expression too large")
        if isinstance(e, ast.Name):
            if isinstance(e.ctx, ast.Load) and e.id not in bound and e.id in st.env:
                return st.env[e.id]          # shared, never mutated: values form a DAG
            return e
        if isinstance(e, ast.Attribute):
            full = core.un(e)
            if full in st.stores and isinstance(e.ctx, ast.Load):
                return st.stores[full]
            v = self._ev(e.value, st, bound)
            return ast.Attribute(v, e.attr, e.ctx)
        if isinstance(e, ast.Subscript):
            v = self._ev(e.value, st, bound)
            sl = self._ev(e.slice, st, bound)
            if isinstance(v, ast.Dict) and isinstance(sl, ast.Constant):
                for k, val in zip(v.keys, v.values):
                    if isinstance(k, ast.Constant) and k.value == sl.value:
                        return val
            if isinstance(v, (ast.Tuple, ast.List)) and isinstance(sl, ast.Constant) and isinstance(sl.value, int) \
                    and -len(v.elts) <= sl.value < len(v.elts) and not any(isinstance(x, ast.Starred) for x in v.elts):
                return v.elts[sl.value]
            return ast.Subscript(v, sl, e.ctx)
        if isinstance(e, ast.Lambda):
            b2 = bound | {a.arg for a in e.args.args}
            return ast.Lambda(e.args, self._ev(e.body, st, b2))
        if isinstance(e, (ast.ListComp, ast.SetComp, ast.GeneratorExp, ast.DictComp)):
            b2 = set(bound)
            gens = []
            for g in e.generators:
                it = self._ev(g.iter, st, frozenset(b2))
                for t in ast.walk(g.target):
                    if isinstance(t, ast.Name):
                        b2.add(t.id)
                gens.append(ast.comprehension(g.target, it, [self._ev(c_, st, frozenset(b2)) for c_ in g.ifs], g.is_async))
            fb = frozenset(b2)
            if isinstance(e, ast.DictComp):
                return ast.DictComp(self._ev(e.key, st, fb), self._ev(e.value, st, fb), gens)
            return type(e)(self._ev(e.elt, st, fb), gens)
        if isinstance(e, ast.Call):
            return self._call(e, st, bound)
        if isinstance(e, ast.Compare) and len(e.ops) > 1:
            parts, left = [], e.left
            for op, r in zip(e.ops, e.comparators):
                parts.append(ast.Compare(left, [op], [r]))
                left = r
            return self._ev(ast.BoolOp(ast.And(), parts), st, bound)
        if isinstance(e, ast.IfExp):
            t, a, b = self._ev(e.test, st, bound), self._ev(e.body, st, bound), self._ev(e.orelse, st, bound)
            return _minmax(t, a, b, self.printer) or ast.IfExp(t, a, b)
        if isinstance(e, ast.BoolOp) and len(e.values) >= 2:
            # `a or b` is `a if a else b`, `a and b` is `b if a else a` (as a test this decides the same way)
            vals = [self._ev(v, st, bound) for v in e.values]
            res = vals[-1]
            for v in reversed(vals[:-1]):
                res = ast.IfExp(v, v, res) if isinstance(e.op, ast.Or) else ast.IfExp(v, res, v)
            return res
        if isinstance(e, ast.BinOp) and isinstance(e.op, ast.Add):
            l, r = self._ev(e.left, st, bound), self._ev(e.right, st, bound)
            if isinstance(l, ast.Constant) and isinstance(r, ast.Constant) and isinstance(l.value, str) and isinstance(r.value, str):
                return ast.Constant(l.value + r.value)
            return ast.BinOp(l, e.op, r)
        # generic
        new = type(e)()
        for f, v in ast.iter_fields(e):
            if isinstance(v, list):
                setattr(new, f, [self._ev(x, st, bound) if isinstance(x, ast.AST) else x for x in v])
            elif isinstance(v, ast.AST):
                setattr(new, f, self._ev(v, st, bound) if not isinstance(v, (ast.expr_context, ast.operator, ast.unaryop, ast.cmpop, ast.boolop)) else v)
            else:
                setattr(new, f, v)
        return new

    def _call(self, e: ast.Call, st: State, bound: frozenset):
        fsrc = core.un(e.func)
        if fsrc == "type" and len(e.args) == 1 and core.un(e.args[0]) == "self" and not e.keywords:
            return ast.Attribute(_name("self"), "__class__", ast.Load())
        args = [ast.Starred(self._ev(a.value, st, bound), a.ctx) if isinstance(a, ast.Starred) else self._ev(a, st, bound) for a in e.args]
        kws = []
        for k in e.keywords:
            v = self._ev(k.value, st, bound)
            if k.arg is None and isinstance(v, ast.Dict) and v.keys and all(isinstance(x, ast.Constant) and isinstance(x.value, str) for x in v.keys):
                kws += [ast.keyword(kk.value, vv) for kk, vv in zip(v.keys, v.values)]
            else:
                kws.append(ast.keyword(k.arg, v))
        # "...".format(...) -> f-string
        if isinstance(e.func, ast.Attribute) and e.func.attr == "format" and isinstance(e.func.value, ast.Constant) \
                and isinstance(e.func.value.value, str) and not kws and not any(isinstance(a, ast.Starred) for a in args):
            js = _format_to_fstring(e.func.value.value, args)
            if js is not None:
                return js
        if fsrc == "getattr" and len(args) == 2 and not kws and isinstance(args[1], ast.Constant) and isinstance(args[1].value, str) \
                and args[1].value.isidentifier():
            return ast.Attribute(args[0], args[1].value, ast.Load())
        func = self._ev(e.func, st, bound) if not isinstance(e.func, ast.Name) or e.func.id in st.env else e.func
        call = ast.Call(func, args, kws)
        folded = _const_fold(call)
        if folded is not None:
            return folded
        helper = self._resolve_helper(e.func, st)
        if helper is not None and self.depth < MAX_DEPTH:
            v = self._inline(helper, call, st)
            if v is not None:
                return v
        return call

    def _resolve_helper(self, f: ast.expr, st: State):
        """(FunctionDef | Lambda, bound-self?) for private helpers of this module / class and local closures"""
        if isinstance(f, ast.Name):
            if f.id in self.local_defs:
                return (self.local_defs[f.id], False, f.id)
            if f.id in st.env and isinstance(st.env[f.id], ast.Lambda):
                return (st.env[f.id], False, f.id)
            if f.id.startswith("_") and not f.id.startswith("__") and f.id in self.ctx.funcs:
                return (self.ctx.funcs[f.id], False, f.id)
            return None
        if isinstance(f, ast.Attribute) and f.attr.startswith("_") and not f.attr.startswith("__") and self.cls:
            base = core.un(f.value)
            if base in ("self", "cls", "self.__class__"):
                fn = self.ctx.method(self.cls, f.attr)
                if fn is not None:
                    if any(core.dotted(d) == "property" for d in fn.decorator_list):
                        return None
                    static = any(core.dotted(d) == "staticmethod" for d in fn.decorator_list)
                    return (fn, not static, f"{self.cls}.{f.attr}")
        return None

    def _inline(self, helper, call: ast.Call, st: State):
        fn, drop_first, key = helper
        if key in self.stack:
            return None
        if isinstance(fn, ast.Lambda):
            pos = [a.arg for a in fn.args.args]
            defaults = {n: d for n, d in zip(pos[len(pos) - len(fn.args.defaults):], fn.args.defaults)}
            vararg = kwarg = None
            body = [ast.Return(fn.body)]
        else:
            pos, defaults, vararg, kwarg, kwonly = _params(fn)
            if drop_first:
                pos = pos[1:]
            pos = pos + kwonly
            body = fn.body
        if vararg or kwarg or any(isinstance(a, ast.Starred) for a in call.args) or any(k.arg is None for k in call.keywords):
            return None
        env: dict[str, ast.expr] = {}
        if len(call.args) > len(pos):
            return None
        for p, a in zip(pos, call.args):
            env[p] = a
        for k in call.keywords:
            if k.arg not in pos or k.arg in env:
                return None
            env[k.arg] = k.value
        for p in pos:
            if p not in env:
                if p not in defaults:
                    return None
                env[p] = _c(defaults[p])
        sub = Exec(self.ctx, self.cls, self.depth + 1, self.stack + (key,), self.loop_counter)
        sub.local_defs = dict(self.local_defs)
        if key in self.local_defs or isinstance(fn, ast.Lambda):      # closure: free variables see the enclosing values
            st0 = State(env={**{k: v for k, v in st.env.items() if k not in env}, **env})
        else:
            st0 = State(env=env)
        try:
            outs = sub.block(list(body), st0)
        except Giveup:
            return None
        vals = []
        for s2, kind, val in outs:
            if s2.stores or s2.effects:
                return None
            if kind == RET:
                vals.append((s2.conds, val if val is not None else ast.Constant(None)))
            elif kind == FALL:
                vals.append((s2.conds, ast.Constant(None)))
            elif kind == RAISE:
                vals.append((s2.conds, ast.Call(_name("__raise__"), [val if val is not None else ast.Constant(None)], [])))
            else:
                return None
        if not vals:
            return None
        # fold the partition of paths into a conditional value
        res = vals[-1][1]
        for conds, v in reversed(vals[:-1]):
            test = _conj(conds)
            res = v if test is None else ast.IfExp(test, v, res)
        return res

    # -- statements --------------------------------------------------------------------------------------------------
    def block(self, stmts: list[ast.stmt], st: State) -> list[tuple[State, str, Any]]:
        """-> [(state, exit kind, value)]"""
        states = [st]
        out: list[tuple[State, str, Any]] = []
        for i, s in enumerate(stmts):
            nxt: list[State] = []
            for cur in states:
                for s2, kind, val in self.stmt(s, cur):
                    if kind == FALL:
                        nxt.append(s2)
                    else:
                        out.append((s2, kind, val))
            states = nxt
            self.budget[0] += len(states)
            if len(states) > 400 or self.budget[0] > 200000:
                raise Giveup("too many paths")
            if not states:
                break
        out += [(s2, FALL, None) for s2 in states]
        return out

    def stmt(self, s: ast.stmt, st: State) -> list[tuple[State, str, Any]]:
        _tick()
        if isinstance(s, ast.Expr):
            if isinstance(s.value, ast.Constant):
                return [(st, FALL, None)]
            if isinstance(s.value, (ast.Yield, ast.YieldFrom)):
                st.effects.append(("yield", self.ev(s.value.value, st) if s.value.value is not None else None))
                return [(st, FALL, None)]
            outs = self._inline_stmt(s.value, st)
            if outs is not None:
                return [(s2, kind, None if kind == FALL else val) for s2, kind, val in outs]
            v = self.ev(s.value, st)
            if isinstance(v, ast.Constant):
                return [(st, FALL, None)]
            st.effects.append(("do", v))
            return [(st, FALL, None)]
        if isinstance(s, (ast.Pass, ast.Global, ast.Nonlocal)):
            return [(st, FALL, None)]
        if isinstance(s, (ast.Import, ast.ImportFrom)):
            return [(st, FALL, None)]
        if isinstance(s, ast.AnnAssign):
            if s.value is None:
                return [(st, FALL, None)]
            return self.assign([s.target], s.value, st)
        if isinstance(s, ast.Assign):
            return self.assign(s.targets, s.value, st)
        if isinstance(s, ast.AugAssign):
            tgt_load = _c(s.target)
            for n in ast.walk(tgt_load):
                if hasattr(n, "ctx"):
                    n.ctx = ast.Load()
            return self.assign([s.target], ast.BinOp(tgt_load, s.op, s.value), st)
        if isinstance(s, ast.Return):
            outs = self._inline_stmt(s.value, st) if s.value is not None else None
            if outs is not None:
                return [(s2, RET if kind == FALL else kind, val) for s2, kind, val in outs]
            return [(st, RET, self.ev(s.value, st) if s.value is not None else None)]
        if isinstance(s, ast.Raise):
            return [(st, RAISE, self.ev(s.exc, st) if s.exc is not None else None)]
        if isinstance(s, ast.Break):
            return [(st, BRK, None)]
        if isinstance(s, ast.Continue):
            return [(st, CONT, None)]
        if isinstance(s, ast.Assert):
            st.effects.append(("assert", self.ev(s.test, st)))
            return [(st, FALL, None)]
        if isinstance(s, (ast.FunctionDef, ast.AsyncFunctionDef)):
            self.local_defs[s.name] = s
            return [(st, FALL, None)]
        if isinstance(s, ast.If):
            return self.if_(s, st)
        if isinstance(s, (ast.For, ast.While)):
            return self.loop(s, st)
        if isinstance(s, ast.With):
            return self.with_(s, st)
        if isinstance(s, ast.Try):
            return self.try_(s, st)
        if isinstance(s, ast.Delete):
            st.effects.append(("del", [self.ev(t, st) for t in s.targets]))
            return [(st, FALL, None)]
        raise Giveup(f"statement {type(s).__name__}")

    def assign(self, targets, value, st: State):
        outs = self._inline_stmt(value, st)
        if outs is not None:
            res = []
            for s2, kind, val in outs:
                if kind == FALL:
                    for t in targets:
                        self.bind(t, val if val is not None else ast.Constant(None), s2)
                    res.append((s2, FALL, None))
                else:
                    res.append((s2, kind, val))
            return res
        v = self.ev(value, st)
        for t in targets:
            self.bind(t, v, st)
        return [(st, FALL, None)]

    def _inline_stmt(self, value, st: State):
        """`x = helper(...)`, `return helper(...)`, `helper(...)` where the private helper has effects (a loop, stores,
        calls made for their effect): its body is executed in place.  -> [(state, FALL | RAISE, value)] or None"""
        value = core.strip_casts(_c(value)) if isinstance(value, ast.AST) else value
        if not isinstance(value, ast.Call) or self.depth >= MAX_DEPTH:
            return None
        helper = self._resolve_helper(value.func, st)
        if helper is None:
            return None
        fn, drop_first, key = helper
        if key in self.stack or isinstance(fn, ast.Lambda) or not _impure(fn):
            return None
        pos, defaults, vararg, kwarg, kwonly = _params(fn)
        if drop_first:
            pos = pos[1:]
        pos = pos + kwonly
        if vararg or kwarg or any(isinstance(a, ast.Starred) for a in value.args) or any(k.arg is None for k in value.keywords) or len(value.args) > len(pos):
            return None
        env: dict[str, ast.expr] = {}
        for p, a in zip(pos, value.args):
            env[p] = self.ev(a, st)
        for k in value.keywords:
            if k.arg not in pos or k.arg in env:
                return None
            env[k.arg] = self.ev(k.value, st)
        for p in pos:
            if p not in env:
                if p not in defaults:
                    return None
                env[p] = _c(defaults[p])
        sub = Exec(self.ctx, self.cls, self.depth + 1, self.stack + (key,), self.loop_counter)
        sub.local_defs = dict(self.local_defs)
        sub.budget = self.budget
        outer_env = st.env
        st2 = State(env={**outer_env, **env} if key in self.local_defs else env, stores=st.stores, effects=st.effects, conds=st.conds)
        res = []
        for s2, kind, val in sub.block(list(fn.body), st2):
            back = State(dict(outer_env), s2.stores, s2.effects, s2.conds)
            if kind in (RET, FALL):
                res.append((back, FALL, val))
            elif kind == RAISE:
                res.append((back, RAISE, val))
            else:
                return None
        return res

    def bind(self, t, v, st: State) -> None:
        if isinstance(t, ast.Name):
            if isinstance(v, ast.Lambda):
                st.env[t.id] = v
            else:
                st.env[t.id] = v
            return
        if isinstance(t, (ast.Tuple, ast.List)):
            if isinstance(v, ast.Call) and core.un(v.func) == "divmod" and len(v.args) == 2 and len(t.elts) == 2:
                a, b = v.args
                self.bind(t.elts[0], ast.BinOp(_c(a), ast.FloorDiv(), _c(b)), st)
                self.bind(t.elts[1], ast.BinOp(_c(a), ast.Mod(), _c(b)), st)
                return
            if isinstance(v, (ast.Tuple, ast.List)) and len(v.elts) == len(t.elts) and not any(isinstance(x, ast.Starred) for x in list(v.elts) + list(t.elts)):
                for tt, vv in zip(t.elts, v.elts):
                    self.bind(tt, vv, st)
                return
            for i, tt in enumerate(t.elts):
                if isinstance(tt, ast.Starred):
                    raise Giveup("starred unpack")
                self.bind(tt, ast.Subscript(_c(v), ast.Constant(i), ast.Load()), st)
            return
        if isinstance(t, ast.Attribute):
            base = self.ev(t.value, st)
            key = f"{core.un(base)}.{t.attr}"
            st.stores[key] = v
            return
        if isinstance(t, ast.Subscript):
            if isinstance(t.value, ast.Name) and isinstance(st.env.get(t.value.id), ast.Dict):
                d = st.env[t.value.id]
                k = self.ev(t.slice, st)
                if isinstance(k, ast.Constant) and all(isinstance(x, ast.Constant) for x in d.keys):
                    keys, vals = list(d.keys), list(d.values)
                    for i, kk in enumerate(keys):
                        if kk.value == k.value:
                            vals[i] = v
                            break
                    else:
                        keys.append(k)
                        vals.append(v)
                    st.env[t.value.id] = ast.Dict(keys, vals)
                    return
            st.effects.append(("setitem", self.ev(t.value, st), self.ev(t.slice, st), v))
            return
        raise Giveup(f"assignment target {type(t).__name__}")

    def if_(self, s: ast.If, st: State):
        test = self.ev(s.test, st)
        if isinstance(test, ast.Constant):
            return self.block(s.body if test.value else s.orelse, st)
        a = self.block(list(s.body), self._with_cond(st, test, True))
        b = self.block(list(s.orelse), self._with_cond(st, test, False))
        # merge: both arms are single fall-through states with identical effects -> conditional values
        if len(a) == 1 and len(b) == 1 and a[0][1] == FALL and b[0][1] == FALL:
            sa, sb = a[0][0], b[0][0]
            if _eff_same(sa.effects, sb.effects) and len(sa.conds) == len(st.conds) + 1 == len(sb.conds) \
                    and _merge_cost(st, sa, sb, test) <= MERGE_LIMIT:
                merged = State(dict(st.env), dict(st.stores), list(sa.effects), list(st.conds))
                for k in set(sa.env) | set(sb.env):
                    va, vb = sa.env.get(k), sb.env.get(k)
                    if va is None or vb is None:
                        # not bound in one arm: the name keeps what it denoted before (a parameter, a global)
                        va = va if va is not None else _name(k)
                        vb = vb if vb is not None else _name(k)
                    merged.env[k] = va if (va is vb or _same(va, vb)) else (_minmax(test, va, vb, self.printer) or ast.IfExp(test, va, vb))
                for k in set(sa.stores) | set(sb.stores):
                    va, vb = sa.stores.get(k), sb.stores.get(k)
                    if va is None:
                        va = _attr_from_key(k)
                    if vb is None:
                        vb = _attr_from_key(k)
                    merged.stores[k] = va if (va is vb or _same(va, vb)) else (_minmax(test, va, vb, self.printer) or ast.IfExp(test, va, vb))
                return [(merged, FALL, None)]
        return a + b

    def _with_cond(self, st: State, test, pol: bool) -> State:
        s2 = st.copy()
        s2.conds.append((test, pol))
        return s2

    def loop(self, s, st: State):
        # unroll `for x in <constant sequence>`
        if isinstance(s, ast.For) and not s.orelse:
            it = self.ev(s.iter, st)
            seq = None
            if isinstance(it, (ast.Tuple, ast.List)) and not any(isinstance(x, ast.Starred) for x in it.elts):
                seq = list(it.elts)
            elif isinstance(it, ast.Name) and isinstance(self.ctx.consts.get(it.id), (ast.Tuple, ast.List)):
                seq = list(self.ctx.consts[it.id].elts)
            elif isinstance(it, ast.Call) and core.un(it.func) == "enumerate" and len(it.args) == 1:
                inner = it.args[0]
                if isinstance(inner, ast.Name) and isinstance(self.ctx.consts.get(inner.id), (ast.Tuple, ast.List)):
                    inner = self.ctx.consts[inner.id]
                if isinstance(inner, (ast.Tuple, ast.List)):
                    seq = [ast.Tuple([ast.Constant(i), x], ast.Load()) for i, x in enumerate(inner.elts)]
            if seq is not None and len(seq) <= 24 and not any(isinstance(n, (ast.Break, ast.Continue)) for b in s.body for n in ast.walk(b)):
                states = [(st, FALL, None)]
                for item in seq:
                    nxt = []
                    for cur, kind, val in states:
                        if kind != FALL:
                            nxt.append((cur, kind, val))
                            continue
                        self.bind(s.target, _c(item), cur)
                        nxt += self.block(list(s.body), cur)
                    states = nxt
                return states
        k = self.loop_counter[0]
        self.loop_counter[0] += 1
        assigned: list[str] = []
        if isinstance(s, ast.For):
            for n in ast.walk(s.target):
                if isinstance(n, ast.Name) and n.id not in assigned:
                    assigned.append(n.id)
        for b in s.body:
            for n in ast.walk(b):
                if isinstance(n, ast.Name) and isinstance(n.ctx, ast.Store) and n.id not in assigned:
                    assigned.append(n.id)
        inner = st.copy()
        inner.conds, inner.effects = [], []
        entry_vals = {}
        for i, v in enumerate(assigned):
            entry_vals[v] = st.env.get(v)
            inner.env[v] = _name(f"$L{k}v{i}")
        stored_in_body = set()
        for b in s.body:
            for n in ast.walk(b):
                if isinstance(n, ast.Attribute) and isinstance(n.ctx, ast.Store):
                    stored_in_body.add(core.un(n))
        for key in stored_in_body:
            inner.stores.pop(key, None)
        head = ("for", self.printer.s(_rn_target(s.target, assigned, k)), self.printer.s(self.ev(s.iter, _loopless(st, assigned, k)))) \
            if isinstance(s, ast.For) else ("while", self._cond_canon(self.ev(s.test, inner)))
        body_paths = self.block(list(s.body), inner)
        summ = []
        for s2, kind, val in body_paths:
            summ.append(self.leafset(s2, kind, val, finals=[(f"$L{k}v{i}", s2.env.get(v)) for i, v in enumerate(assigned)]))
        orelse = []
        if s.orelse:
            for s2, kind, val in self.block(list(s.orelse), inner.copy()):
                orelse.append(self.leafset(s2, kind, val, finals=[]))
        init = tuple((f"$L{k}v{i}", self.printer.s(entry_vals[v]) if entry_vals[v] is not None else "$undef") for i, v in enumerate(assigned))
        rec = ("loop", head, init, frozenset(x for ss in summ for x in ss), frozenset(x for ss in orelse for x in ss))
        st.effects.append(rec)
        for i, v in enumerate(assigned):
            st.env[v] = _name(f"$L{k}v{i}_out")
        for key in stored_in_body:
            st.stores[key] = _name(f"$L{k}s_{key}")
        return [(st, FALL, None)]

    def _cond_canon(self, test) -> str:
        alts = decide(test, True)
        return " | ".join(sorted(" & ".join(sorted(f"{'' if p else '!'}{self.printer.atom(a)[0] if self.printer.atom(a)[1] else '!' + self.printer.atom(a)[0]}" for a, p in alt)) for alt in alts))

    def with_(self, s: ast.With, st: State):
        if len(s.items) == 1 and isinstance(s.items[0].context_expr, ast.Call) and core.un(s.items[0].context_expr.func) in ("contextlib.suppress", "suppress") \
                and s.items[0].optional_vars is None:
            exc = s.items[0].context_expr.args
            t = ast.Try(body=s.body, handlers=[ast.ExceptHandler(ast.Tuple(list(exc), ast.Load()) if len(exc) != 1 else exc[0], None, [ast.Pass()])], orelse=[], finalbody=[])
            return self.try_(t, st)
        for it in s.items:
            st.effects.append(("with", self.ev(it.context_expr, st)))
            if it.optional_vars is not None:
                self.bind(it.optional_vars, ast.Call(_name("__enter__"), [self.ev(it.context_expr, st)], []), st)
        return self.block(list(s.body), st)

    def try_(self, s: ast.Try, st: State):
        """normal paths run the body (and else) under a ("try", handled types) marker; every handler contributes its own
        paths, started from the state at entry under an ("except", type) marker - a handler that falls through continues
        after the statement, so code after `try: return f() except E: pass` stays reachable"""
        k = self.loop_counter[0]
        self.loop_counter[0] += 1
        entry = st.copy()
        types = []
        for h in s.handlers:
            if h.type is None:
                types.append("*")
            elif isinstance(h.type, ast.Tuple):
                types.append("(" + ", ".join(sorted(self.printer.s(self.ev(x, entry)) for x in h.type.elts)) + ")")
            else:
                types.append(self.printer.s(self.ev(h.type, entry)))
        st.effects.append(("try", tuple(types)))
        outs = self.block(list(s.body) + list(s.orelse), st)
        for h, tcanon in zip(s.handlers, types):
            hs = entry.copy()
            hs.effects.append(("except", tcanon))
            if h.name:
                hs.env[h.name] = _name(f"$exc{k}")
            outs += self.block(list(h.body), hs)
        if s.finalbody:
            res = []
            for s2, kind, val in outs:
                for s3, k3, v3 in self.block(list(s.finalbody), s2):
                    res.append((s3, kind if k3 == FALL else k3, val if k3 == FALL else v3))
            outs = res
        return outs

    # -- leaves --------------------------------------------------------------------------------------------------------
    def leafset(self, st: State, kind: str, val, finals) -> frozenset:
        """canonical leaves of one path.  Every component of the outcome (the exit value - argument by argument when it is
        a constructor call / tuple -, each stored attribute, each effect, each loop-carried final value) is expanded on its
        own: a component only forks on the atoms it depends on, and two functions whose components agree agree as a whole."""
        items: list[Any] = []
        v = val
        if isinstance(v, ast.AST) and kind == RET and isinstance(v, (ast.Call, ast.Tuple)) and not _is_raise(v):
            if isinstance(v, ast.Tuple) and not any(isinstance(x, ast.Starred) for x in v.elts):
                items.append(("exit", kind, ast.Constant(f"<tuple/{len(v.elts)}>")))
                for i, x in enumerate(v.elts):
                    items.append(("exitarg", f"[{i}]", x))
            elif isinstance(v, ast.Call) and not any(isinstance(a, ast.Starred) for a in v.args) and not any(k.arg is None for k in v.keywords) \
                    and len(v.args) + len(v.keywords) >= 3:
                names = self.printer.signature(v)
                items.append(("exit", kind, ast.Call(ast.Name("$split", ast.Load()), [v.func], [])))
                for i, a in enumerate(v.args):
                    items.append(("exitarg", names[i] if names is not None and i < len(names) else f"[{i}]", a))
                for k in v.keywords:
                    items.append(("exitarg", k.arg, k.value))
            else:
                items.append(("exit", kind, v))
        elif isinstance(v, ast.BinOp) and kind == RET and isinstance(v.op, (ast.Add, ast.Sub)) and _size(v) > 200:
            items.append(("exit", kind, ast.Constant(f"<{type(v.op).__name__}>")))
            items.append(("exitarg", "left", v.left))
            items.append(("exitarg", "right", v.right))
        else:
            items.append(("exit", kind, v))
        for k in sorted(st.stores):
            items.append(("store", k, st.stores[k]))
        for i, e in enumerate(st.effects):
            items.append(("effect", i, e))
        for n, v2 in finals:
            items.append(("final", n, v2))
        leaves: set = set()
        conds = list(st.conds)
        path_key = None
        for it in items:
            part: set = set()
            try:
                self._cap = 160
                self._expand(conds, {}, [it], part)
                leaves |= _minimise(part)
            except Giveup as e:
                if "leaves" not in str(e):
                    raise
                # too many combinations to enumerate: compare the conditional value structurally instead (the tests then
                # have to come in the same order on both sides)
                if path_key is None:
                    path_key = frozenset((self._cond_canon(t if p else ast.UnaryOp(ast.Not(), t)), True) for t, p in conds)
                leaves.add((path_key, (self._item_struct(it),)))
        return frozenset(leaves)

    def _item_struct(self, it):
        def rec(x):
            if isinstance(x, ast.AST):
                return self.printer.s(x)
            if isinstance(x, (tuple, list)):
                return tuple(rec(y) for y in x)
            return x
        return ("struct",) + tuple(rec(x) for x in it)

    def _expand(self, conds, decided: dict, items, leaves: set) -> None:
        """fork on one undecided atom at a time (in evaluation order) until every path condition is decided and no
        conditional value is left.  Each fork first simplifies conditions and values under the decisions taken so far and
        hands the simplified forms to its children, so the work shrinks as decisions accumulate; shared sub-expressions are
        resolved once per fork (memo by node identity)."""
        if len(leaves) > getattr(self, "_cap", MAX_LEAVES):
            raise Giveup("too many leaves")
        _tick()
        memo: dict[int, Any] = {}
        ask: list[str] = []
        new_conds = []
        for test, pol in conds:
            t = self._truth(test, decided, memo, ask)
            if t is None:
                new_conds.append((self._resolve(test, decided, memo, ask), pol))
            elif t != pol:
                return                      # infeasible combination
        new_items = [self._resolve_item(it, decided, memo, ask) for it in items]
        if not ask:
            raised = None
            for it in new_items:
                for node in _item_exprs(it):
                    r = _find_raise(node)
                    if r is not None and raised is None:
                        raised = r
            cset = self._simplify(decided)
            if cset is None:
                return
            if raised is not None:
                leaves.add((cset, (("exit", RAISE, self.printer.s(raised)),)))
            else:
                outc = tuple(x for x in (self._item_canon(it) for it in new_items) if not (x[0] == "store" and x[2] == "$same"))
                if outc:
                    leaves.add((cset, outc))
            return
        k = ask[0]
        for v in (True, False):
            d2 = dict(decided)
            d2[k] = v
            self._expand(new_conds, d2, new_items, leaves)

    def _truth(self, e, decided: dict, memo: dict, ask: list):
        """value of a condition under `decided`; None when an atom is still open (the first open one is put into `ask`)"""
        if isinstance(e, ast.UnaryOp) and isinstance(e.op, ast.Not):
            t = self._truth(e.operand, decided, memo, ask)
            return None if t is None else (not t)
        if isinstance(e, ast.Compare) and len(e.ops) > 1:
            left = e.left
            for op, r in zip(e.ops, e.comparators):
                t = self._truth(ast.Compare(left, [op], [r]), decided, memo, ask)
                if t is None:
                    return None
                if not t:
                    return False
                left = r
            return True
        if isinstance(e, ast.BoolOp):
            is_and = isinstance(e.op, ast.And)
            for v in e.values:
                t = self._truth(v, decided, memo, ask)
                if t is None:
                    return None
                if t != is_and:
                    return t
            return is_and
        if isinstance(e, ast.IfExp):
            t = self._truth(e.test, decided, memo, ask)
            if t is None:
                return None
            return self._truth(e.body if t else e.orelse, decided, memo, ask)
        if isinstance(e, ast.Constant):
            return bool(e.value)
        if isinstance(e, ast.Call) and not e.keywords:
            fd = core.dotted(e.func)
            if fd in ("any", "all") and len(e.args) == 1 and isinstance(e.args[0], (ast.List, ast.Tuple)) and e.args[0].elts \
                    and not any(isinstance(x, ast.Starred) for x in e.args[0].elts):
                return self._truth(ast.BoolOp(ast.Or() if fd == "any" else ast.And(), list(e.args[0].elts)), decided, memo, ask)
            if fd == "bool" and len(e.args) == 1:
                return self._truth(e.args[0], decided, memo, ask)
            if fd == "isinstance" and len(e.args) == 2 and isinstance(e.args[1], ast.Tuple) and e.args[1].elts:
                return self._truth(ast.BoolOp(ast.Or(), [ast.Call(e.func, [e.args[0], t], []) for t in e.args[1].elts]), decided, memo, ask)
        if isinstance(e, ast.Compare) and len(e.ops) == 1 and isinstance(e.ops[0], (ast.Eq, ast.NotEq)) \
                and _boolish(e.left) and _boolish(e.comparators[0]):
            # a == b / a != b on truth values: decided through the operands (xor written either way)
            ta = self._truth(e.left, decided, memo, ask)
            if ta is None:
                return None
            tb = self._truth(e.comparators[0], decided, memo, ask)
            if tb is None:
                return None
            return (ta == tb) if isinstance(e.ops[0], ast.Eq) else (ta != tb)
        hit = memo.get(("t", id(e)))
        if hit is not None:
            return hit[1]
        r = self._resolve(e, decided, memo, ask)
        if _has_ite(r):
            # the atom still contains an open conditional value: its test has been asked while resolving
            return None
        k, p = self.printer.atom(r)
        if k in decided:
            res = decided[k] if p else (not decided[k])
            memo[("t", id(e))] = (e, res)
            return res
        if not ask:
            ask.append(k)
        return None

    def _resolve(self, n, decided: dict, memo: dict, ask: list):
        """n with every conditional value whose test is decided replaced by the chosen branch"""
        if not isinstance(n, ast.AST) or not _has_ite(n):
            return n
        hit = memo.get(id(n))
        if hit is not None:
            return hit[1]
        if isinstance(n, ast.IfExp):
            t = self._truth(n.test, decided, memo, ask)
            if t is None:
                a_, b_ = self._resolve(n.body, decided, memo, ask), self._resolve(n.orelse, decided, memo, ask)
                tt = self._resolve(n.test, decided, memo, ask)
                r = n if (a_ is n.body and b_ is n.orelse and tt is n.test) else ast.IfExp(tt, a_, b_)
            else:
                r = self._resolve(n.body if t else n.orelse, decided, memo, ask)
        else:
            changed = False
            vals = {}
            for f, v in ast.iter_fields(n):
                if isinstance(v, list):
                    nv = []
                    for x in v:
                        y = self._resolve(x, decided, memo, ask) if isinstance(x, ast.AST) else x
                        changed = changed or (y is not x)
                        nv.append(y)
                    vals[f] = nv
                elif isinstance(v, ast.AST):
                    y = self._resolve(v, decided, memo, ask)
                    changed = changed or (y is not v)
                    vals[f] = y
                else:
                    vals[f] = v
            if changed:
                r = type(n)()
                for f, v in vals.items():
                    setattr(r, f, v)
            else:
                r = n
        memo[id(n)] = (n, r)
        return r

    def _resolve_item(self, it, decided, memo, ask):
        def rec(x):
            if isinstance(x, ast.AST):
                return self._resolve(x, decided, memo, ask)
            if isinstance(x, tuple):
                return tuple(rec(y) for y in x)
            if isinstance(x, list):
                return [rec(y) for y in x]
            return x
        return rec(it)

    def _simplify(self, decided: dict) -> frozenset:
        """drop path-condition atoms implied by others through the class hierarchy (isinstance(x, Sub) => isinstance(x,
        Base)); an impossible combination yields None"""
        items = dict(decided)
        inst = []
        for k, v in items.items():
            info = _isinstance_info(k)
            if info is not None:
                inst.append((k, info[0], info[1], v))
        if len(inst) < 2:
            return frozenset(items.items())
        drop = set()
        for k1, x1, c1, v1 in inst:
            for k2, x2, c2, v2 in inst:
                if k1 == k2 or x1 != x2 or c1 == c2:
                    continue
                r1, r2 = layout_root(c1), layout_root(c2)
                if r1 and r2 and r1 != r2:           # e.g. an int is never a timedelta
                    if v1 and v2:
                        return None
                    if v1 and not v2:
                        drop.add(k2)
                    continue
                if c2 in subclasses_of(c1):          # c2 is a subclass of c1
                    if v2 and not v1:
                        return None                 # is a Sub but not a Base: impossible
                    if v2 and v1:
                        drop.add(k1)                # Base follows from Sub
                    if not v1 and not v2:
                        drop.add(k2)                # not Sub follows from not Base
        return frozenset((k, v) for k, v in items.items() if k not in drop)

    def _item_canon(self, it):
        tag = it[0]
        if tag == "store" and isinstance(it[2], ast.AST):
            try:
                if self.printer.s(it[2]) == self.printer.s(_attr_from_key(it[1])):
                    return ("store", it[1], "$same")           # writes back what was read: no effect
            except SyntaxError:
                pass
        if tag == "exit":
            return (tag, it[1], self.printer.s(it[2]) if isinstance(it[2], ast.AST) else None)
        if tag in ("store", "final", "exitarg"):
            return (tag, it[1], self.printer.s(it[2]) if isinstance(it[2], ast.AST) else "$undef")
        if tag == "effect":
            return (tag, it[1], _eff_canon(it[2], self.printer))
        return it


def _boolish(n) -> bool:
    if isinstance(n, (ast.Compare, ast.BoolOp)):
        return True
    if isinstance(n, ast.UnaryOp) and isinstance(n.op, ast.Not):
        return True
    if isinstance(n, ast.Call) and core.dotted(n.func) in ("isinstance", "issubclass", "callable", "hasattr", "bool"):
        return True
    return False


_HAS_ITE: dict[int, tuple[Any, bool]] = {}


def _has_ite(n) -> bool:
    if not isinstance(n, ast.AST):
        return False
    hit = _HAS_ITE.get(id(n))
    if hit is not None and hit[0] is n:
        return hit[1]
    r = isinstance(n, ast.IfExp) or any(_has_ite(c) for c in ast.iter_child_nodes(n))
    _HAS_ITE[id(n)] = (n, r)
    return r


_RAISE_MEMO: dict[int, tuple[Any, Any]] = {}


def _find_raise(n):
    if not isinstance(n, ast.AST):
        return None
    hit = _RAISE_MEMO.get(id(n))
    if hit is not None and hit[0] is n:
        return hit[1]
    r = n.args[0] if _is_raise(n) else None
    if r is None:
        for c in ast.iter_child_nodes(n):
            r = _find_raise(c)
            if r is not None:
                break
    _RAISE_MEMO[id(n)] = (n, r)
    return r


_SAME: dict[tuple[int, int], bool] = {}


def _same(a, b) -> bool:
    if a is b:
        return True
    if a is None or b is None or type(a) is not type(b):
        return False
    if _size(a) != _size(b):
        return False
    if _size(a) > 300:
        return False            # large values: identity only (a merge then keeps both, which is merely less compact)
    return _dump(a) == _dump(b)


_IMPURE: dict[int, bool] = {}


def _impure(fn) -> bool:
    """syntactic: the helper has a loop, a store through an attribute / subscript, a yield or a statement evaluated for its effect"""
    r = _IMPURE.get(id(fn))
    if r is None:
        r = False
        for n in ast.walk(fn):
            if isinstance(n, (ast.For, ast.While, ast.Yield, ast.YieldFrom, ast.With, ast.Try)):
                r = True
            elif isinstance(n, (ast.Attribute, ast.Subscript)) and isinstance(n.ctx, ast.Store):
                r = True
            elif isinstance(n, ast.Expr) and not isinstance(n.value, ast.Constant):
                r = True
        _IMPURE[id(fn)] = r
    return r


def _size(n) -> int:
    if not isinstance(n, ast.AST):
        return 1
    c = getattr(n, "_sz", None)
    if c is None:
        c = 1 + sum(_size(x) for x in ast.iter_child_nodes(n))
        try:
            n._sz = c
        except AttributeError:
            pass
    return c


def _merge_cost(st: "State", sa: "State", sb: "State", test) -> int:
    """size of the conditional values a merge would create (large values are forked instead: along one path they stay small)"""
    cost = 0
    for k in set(sa.env) | set(sb.env):
        va, vb = sa.env.get(k), sb.env.get(k)
        if va is None or vb is None or va is vb:
            continue
        if not _same(va, vb):
            cost += _size(va) + _size(vb) + _size(test)
    for k in set(sa.stores) | set(sb.stores):
        va, vb = sa.stores.get(k), sb.stores.get(k)
        if va is None or vb is None or not _same(va, vb):
            cost += _size(va) + _size(vb) + _size(test)
    return cost


def _eff_same(a, b) -> bool:
    if a is b:
        return True
    if isinstance(a, (tuple, list)) and isinstance(b, (tuple, list)):
        return len(a) == len(b) and all(_eff_same(x, y) for x, y in zip(a, b))
    if isinstance(a, ast.AST) and isinstance(b, ast.AST):
        return _same(a, b)
    return type(a) is type(b) and a == b


def _eff_dump(e) -> str:
    if isinstance(e, tuple):
        return "(" + ",".join(_eff_dump(x) for x in e) + ")"
    if isinstance(e, list):
        return "[" + ",".join(_eff_dump(x) for x in e) + "]"
    if isinstance(e, ast.AST):
        return ast.dump(e)
    return repr(e)


def _eff_canon(e, pr: Printer):
    if isinstance(e, tuple):
        return tuple(_eff_canon(x, pr) for x in e)
    if isinstance(e, list):
        return tuple(_eff_canon(x, pr) for x in e)
    if isinstance(e, ast.AST):
        return pr.s(e)
    return e


def _item_exprs(it) -> list:
    out = []

    def rec(x):
        if isinstance(x, ast.AST):
            out.append(x)
        elif isinstance(x, (tuple, list)):
            for y in x:
                rec(y)
    rec(it[2:] if it[0] != "exit" else it[2:])
    return out


def _item_replace(it, old, new):
    def rec(x):
        if x is old:
            return new
        if isinstance(x, tuple):
            return tuple(rec(y) for y in x)
        if isinstance(x, list):
            return [rec(y) for y in x]
        return x
    return rec(it)


_PURE = {"int": int, "float": float, "abs": abs, "round": round, "len": len, "str": str, "bool": bool, "min": min, "max": max}


def _const_value(n):
    """python value of an expression made of literals, timedelta(...) and a few pure builtins; raises ValueError otherwise"""
    import datetime as _dtm
    if isinstance(n, ast.Constant):
        return n.value
    if isinstance(n, (ast.Tuple, ast.List)):
        return tuple(_const_value(x) for x in n.elts)
    if isinstance(n, ast.UnaryOp) and isinstance(n.op, ast.USub):
        return -_const_value(n.operand)
    if isinstance(n, ast.Call) and not any(k.arg is None for k in n.keywords):
        d = core.dotted(n.func)
        args = [_const_value(a) for a in n.args]
        kws = {k.arg: _const_value(k.value) for k in n.keywords}
        if d in _PURE:
            return _PURE[d](*args, **kws)
        if d in ("timedelta", "datetime.timedelta", "_datetime.timedelta"):
            return _dtm.timedelta(*args, **kws)
        if isinstance(n.func, ast.Attribute) and n.func.attr == "total_seconds" and not args and not kws:
            v = _const_value(n.func.value)
            if isinstance(v, _dtm.timedelta):
                return v.total_seconds()
    raise ValueError


def _const_fold(call: ast.Call):
    if not isinstance(call.func, (ast.Name, ast.Attribute)):
        return None
    try:
        v = _const_value(call)
    except Exception:       # noqa: BLE001 - anything that is not a closed constant expression
        return None
    if isinstance(v, (int, float, str, bool)) or v is None:
        return ast.Constant(v)
    return None


def _minmax(t, a, b, pr=None):
    """`a if a < b else b` (or <=) is min(a, b); with > / >= max(a, b)"""
    if isinstance(t, ast.Compare) and len(t.ops) == 1 and isinstance(t.ops[0], (ast.Lt, ast.LtE, ast.Gt, ast.GtE)):
        tl, tr = t.left, t.comparators[0]
        if pr is not None:
            try:
                l, r, da, db = pr.s(tl), pr.s(tr), pr.s(a), pr.s(b)
            except Giveup:
                return None
        elif (tl is a and tr is b) or (tl is b and tr is a):
            l, r, da, db = ("a", "b", "a", "b") if tl is a else ("b", "a", "a", "b")
        else:
            if _size(a) + _size(b) > 400:
                return None
            l, r, da, db = _dump(tl), _dump(tr), _dump(a), _dump(b)
        if {l, r} == {da, db} and da != db:
            less = isinstance(t.ops[0], (ast.Lt, ast.LtE))
            picks_left = l == da
            fn = "min" if less == picks_left else "max"
            return ast.Call(_name(fn), [a, b], [])
    return None


def _conj(conds):
    parts = []
    for t, pol in conds:
        parts.append(_c(t) if pol else ast.UnaryOp(ast.Not(), _c(t)))
    if not parts:
        return None
    return parts[0] if len(parts) == 1 else ast.BoolOp(ast.And(), parts)


def _attr_from_key(k: str):
    return ast.parse(k, mode="eval").body


def _rn_target(t, assigned, k):
    ren = {v: f"$L{k}v{i}" for i, v in enumerate(assigned)}
    return _Rename(ren).visit(_c(t))


def _loopless(st: State, assigned, k) -> State:
    s2 = st.copy()
    return s2


def _format_to_fstring(fmt: str, args):
    import string
    try:
        parts = list(string.Formatter().parse(fmt))
    except ValueError:
        return None
    vals = []
    auto = 0
    for lit, field, spec, conv in parts:
        if lit:
            vals.append(ast.Constant(lit))
        if field is None:
            continue
        if field == "":
            idx = auto
            auto += 1
        elif field.isdigit():
            idx = int(field)
        else:
            return None
        if idx >= len(args):
            return None
        vals.append(ast.FormattedValue(args[idx], ord(conv) if conv else -1, ast.JoinedStr([ast.Constant(spec)]) if spec else None))
    return ast.JoinedStr(vals)


# ---------------------------------------------------------------------------------------------------------------------
# function summaries and the hybrid tree

def summary(fn: ast.FunctionDef, ctx: ModCtx, cls: str | None):
    """canonical form of one function: (signature, frozenset of leaves)"""
    import time
    _DEADLINE[0] = time.time() + TIME_BUDGET
    ex = Exec(ctx, cls)
    pos, defaults, vararg, kwarg, kwonly = _params(fn)
    pr = ex.printer
    sig = (tuple(pos), tuple(sorted((k, pr.s(v)) for k, v in defaults.items())), vararg, kwarg, tuple(kwonly),
           tuple(sorted(core.dotted(d) or core.un(d) for d in fn.decorator_list)))
    body = list(fn.body)
    if body and isinstance(body[0], ast.Expr) and isinstance(body[0].value, ast.Constant) and isinstance(body[0].value.value, str):
        body = body[1:]
    leaves: set = set()
    for st, kind, val in ex.block(body, State()):
        leaves |= ex.leafset(st, kind, val, finals=[])
    return sig, frozenset(_minimise(leaves))


# ---------------------------------------------------------------------------------------------------------------------
# large functions: structure-preserving comparison with semantic leaves

SMALL_NODES = 200


def _assigned_names(stmts) -> list[str]:
    out: list[str] = []
    for st in stmts:
        for n in ast.walk(st):
            if isinstance(n, ast.Name) and isinstance(n.ctx, ast.Store) and n.id not in out:
                out.append(n.id)
    return out


def _loads(stmts) -> set[str]:
    return {n.id for st in stmts for n in ast.walk(st) if isinstance(n, ast.Name) and isinstance(n.ctx, ast.Load)}


def _has_loop_or_try(st) -> bool:
    return any(isinstance(n, (ast.For, ast.While, ast.Try, ast.With, ast.FunctionDef, ast.Lambda)) for n in ast.walk(st))


def _groupable(st) -> bool:
    if isinstance(st, (ast.FunctionDef, ast.AsyncFunctionDef, ast.ClassDef)):
        return False
    if isinstance(st, ast.If):
        return _size(st) <= SMALL_NODES and not _has_loop_or_try(st)
    return not _has_loop_or_try(st) and not isinstance(st, (ast.For, ast.While, ast.Try, ast.With))


def chunked(stmts: list[ast.stmt], ctx: ModCtx, cls: str | None, live_after: set[str], local_defs: dict, loop_counter: list):
    """canonical form of a statement list that keeps its top-level structure: runs of small statements are summarised
    semantically (symbolic inputs, the variables still needed afterwards as outputs), large compound statements are
    descended into.  Used when the whole-function summary is too expensive."""
    out: list[Any] = []
    i = 0
    n = len(stmts)
    while i < n:
        st = stmts[i]
        if isinstance(st, ast.FunctionDef):
            local_defs[st.name] = st
            i += 1
            continue
        if _groupable(st):
            # a maximal run of simple statements and small ifs: the run boundaries depend on the compound statements only,
            # so both versions of a function are cut at the same places
            j = i
            while j < n and _groupable(stmts[j]):
                j += 1
            group = stmts[i:j]
            later = _loads(stmts[j:]) | live_after
            ex = Exec(ctx, cls, loop_base=loop_counter)
            ex.local_defs = dict(local_defs)
            assigned = [v for v in _assigned_names(group) if v in later]
            leaves: set = set()
            for s2, kind, val in ex.block(list(group), State()):
                finals = [(v, s2.env.get(v, _name(v))) for v in sorted(assigned)] if kind == FALL else []
                leaves |= ex.leafset(s2, kind, val, finals=finals)
            out.append(("sem", frozenset(_minimise(leaves))))
            i = j
            continue
        later = _loads(stmts[i + 1:]) | live_after
        pr = Printer(ctx, cls)
        if isinstance(st, ast.If):
            ex = Exec(ctx, cls, loop_base=loop_counter)
            test = ex.ev(st.test, State())
            k = ex._cond_canon(test)
            out.append(("if", k, chunked(list(st.body), ctx, cls, later, local_defs, loop_counter),
                        chunked(list(st.orelse), ctx, cls, later, local_defs, loop_counter)))
        elif isinstance(st, (ast.For, ast.While)):
            inner_live = later | _loads([st])
            head = ("for", pr.s(st.target), pr.s(Exec(ctx, cls).ev(st.iter, State()))) if isinstance(st, ast.For) else \
                ("while", Exec(ctx, cls)._cond_canon(Exec(ctx, cls).ev(st.test, State())))
            out.append(("loop", head, chunked(list(st.body), ctx, cls, inner_live, local_defs, loop_counter),
                        chunked(list(st.orelse), ctx, cls, later, local_defs, loop_counter)))
        elif isinstance(st, ast.Try):
            hs = []
            for h in st.handlers:
                hs.append((pr.s(h.type) if h.type is not None else "*", h.name or "", chunked(list(h.body), ctx, cls, later, local_defs, loop_counter)))
            out.append(("try", chunked(list(st.body), ctx, cls, later | _loads([st]), local_defs, loop_counter), tuple(hs),
                        chunked(list(st.orelse), ctx, cls, later, local_defs, loop_counter), chunked(list(st.finalbody), ctx, cls, later, local_defs, loop_counter)))
        elif isinstance(st, ast.With):
            out.append(("with", tuple(pr.s(it.context_expr) for it in st.items), chunked(list(st.body), ctx, cls, later, local_defs, loop_counter)))
        else:
            raise Giveup(f"large {type(st).__name__}")
        i += 1
    return tuple(out)


class _AlphaLocals(ast.NodeTransformer):
    def __init__(self, ren):
        self.ren = ren

    def visit_Name(self, node):
        if node.id in self.ren:
            return ast.Name(self.ren[node.id], node.ctx)
        return node


def chunk_summary(fn: ast.FunctionDef, ctx: ModCtx, cls: str | None, alpha: bool):
    import time
    _DEADLINE[0] = time.time() + 4 * TIME_BUDGET
    body = list(fn.body)
    if body and isinstance(body[0], ast.Expr) and isinstance(body[0].value, ast.Constant) and isinstance(body[0].value.value, str):
        body = body[1:]
    if alpha:
        params = set(_params(fn)[0]) | {fn.args.vararg.arg if fn.args.vararg else "", fn.args.kwarg.arg if fn.args.kwarg else ""}
        ren = {v: f"$a{i}" for i, v in enumerate(x for x in _assigned_names(body) if x not in params)}
        body = [_AlphaLocals(ren).visit(_c(st)) for st in body]
    pos, defaults, vararg, kwarg, kwonly = _params(fn)
    pr = Printer(ctx, cls)
    sig = (tuple(pos), tuple(sorted((k, pr.s(v)) for k, v in defaults.items())), vararg, kwarg, tuple(kwonly),
           tuple(sorted(core.dotted(d) or core.un(d) for d in fn.decorator_list)))
    return sig, chunked(body, ctx, cls, set(), {}, [0])


def leaves_of(m: "core.Mod", qual: str) -> list[tuple[dict[str, bool], list[tuple]]]:
    """readable canonical leaves of a function of module `m` (as the rules see it): [(conditions, outcome items)] with
    conditions {atom text: truth} and items such as ('exit', 'return', text), ('exitarg', name, text), ('store', attr, text),
    ('effect', i, text).  Rules stated on leaves do not depend on how the branches are written."""
    fn = m.func(qual)
    cls = qual.split(".")[0] if "." in qual else None
    ctx = ModCtx(m.tree, core.REPO)
    sig, leaves = summary(fn, ctx, cls)
    out = []
    for conds, items in leaves:
        out.append(({detok(k, 10): v for k, v in conds}, [tuple(detok(x, 10) if isinstance(x, str) else x for x in it) for it in items]))
    return out


def conds_compatible(c1: dict[str, bool], c2: dict[str, bool]) -> bool:
    """can both readable condition sets hold at once?  (same atoms with the same truth; isinstance atoms on the same value
    respect the class hierarchy of the analysed tree)"""
    import re as _re
    both = dict(c1)
    for a, v in c2.items():
        if both.setdefault(a, v) != v:
            return False
    inst: dict[str, list[tuple[str, bool]]] = {}
    for a, v in both.items():
        mo = _re.fullmatch(r"isinstance\((.+), ([\w.]+)\)", a)
        if mo:
            inst.setdefault(mo.group(1), []).append((mo.group(2).split(".")[-1], v))
    for x, lst in inst.items():
        for ca, va in lst:
            for cb, vb in lst:
                if va and not vb and (ca == cb or ca in subclasses_of(cb)):
                    return False        # an instance of ca is an instance of its base cb
    return True


def call_arms(m: "core.Mod", qual: str) -> list[tuple[dict[str, bool], str, dict[str, str], str | None]]:
    """the outcomes of a function whose every exit returns a call, read off its leaves:
    [(conditions, callee text, {parameter: canonical argument text}, text of a `**mapping` argument | None)].
    Arguments the engine expanded on their own ('exitarg' leaves) are put back on the arm whose conditions they are
    compatible with; Giveup when that is ambiguous or an exit is not a call."""
    lv = leaves_of(m, qual)
    exits = [(c, it[2]) for c, items in lv for it in items if it[0] == "exit" and it[1] == "return"]
    others = [it for c, items in lv for it in items if it[0] == "exit" and it[1] != "return" and "raise" not in str(it[1])]
    if others:
        raise Giveup(f"{qual}: an exit that does not return ({others[0][1]})")
    eargs = [(c, it[1], it[2]) for c, items in lv for it in items if it[0] == "exitarg"]
    out = []
    for conds, text in exits:
        try:
            node = ast.parse(text.replace("**=", "**").replace("$split(", "_split_("), mode="eval").body
        except SyntaxError:
            raise Giveup(f"{qual}: exit `{text[:60]}`")
        if not isinstance(node, ast.Call):
            raise Giveup(f"{qual}: exit `{text[:60]}` is not a call")
        split = isinstance(node.func, ast.Name) and node.func.id == "_split_"
        if split:
            node = ast.Call(node.args[0], [], [])
        kws: dict[str, str] = {}
        star = None
        for i, a in enumerate(node.args):
            kws[f"<positional {i}>"] = ast.unparse(a)
        for k in node.keywords:
            if k.arg is None:
                star = ast.unparse(k.value)
            else:
                kws[k.arg] = ast.unparse(k.value)
        byname: dict[str, set[str]] = {}
        for c2, name, val in eargs:
            if split and conds_compatible(conds, c2):
                byname.setdefault(name, set()).add(val)
        for name, vals in byname.items():
            if len(vals) != 1:
                raise Giveup(f"{qual}: argument {name} of the exit under {conds} is ambiguous")
            kws[name] = next(iter(vals))
        out.append((conds, ast.unparse(node.func), kws, star))
    return out


def _strip_positions(fn: ast.AST) -> str:
    return ast.dump(fn, include_attributes=False)


def _iter_funcs(tree: ast.Module):
    """(qualname, class | None, node, container list, index)"""
    def rec(body, cls):
        for i, st in enumerate(body):
            if isinstance(st, (ast.FunctionDef, ast.AsyncFunctionDef)):
                if any((core.dotted(d) or "").endswith("overload") for d in st.decorator_list):
                    continue
                yield (f"{cls}.{st.name}" if cls else st.name), cls, st, body, i
            elif isinstance(st, ast.ClassDef) and cls is None:
                yield from rec(st.body, st.name)
            elif isinstance(st, (ast.If, ast.Try)) and cls is None:
                yield from rec(st.body, cls)
                for h in getattr(st, "handlers", []):
                    yield from rec(h.body, cls)
                yield from rec(st.orelse, cls)
    yield from rec(tree.body, None)


_SUBCLS: dict[str, dict[str, set[str]]] = {}


def subclasses_of(base: str) -> set[str]:
    """names of the classes of the analysed tree that derive (transitively) from `base` (by simple name)"""
    root = str(core.REPO)
    tab = _SUBCLS.get(root)
    if tab is None:
        parents: dict[str, set[str]] = {"datetime": {"date"}, "bool": {"int"}}
        srcdir = core.REPO / "src/pendulum"
        for p in srcdir.rglob("*.py") if srcdir.exists() else []:
            if "locales" in p.parts:
                continue
            try:
                t = ast.parse(p.read_text(encoding="utf-8"))
            except (SyntaxError, OSError):
                continue
            for n in ast.walk(t):
                if isinstance(n, ast.ClassDef):
                    parents.setdefault(n.name, set()).update((core.dotted(b) or "").split(".")[-1] for b in n.bases)
        tab = {}
        for c in parents:
            seen, work = set(), [c]
            while work:
                x = work.pop()
                for b in parents.get(x, ()):
                    if b and b not in seen:
                        seen.add(b)
                        work.append(b)
            for b in seen:
                tab.setdefault(b, set()).add(c)
        _SUBCLS[root] = tab
    return tab.get(base, set())


_ISINST: dict[str, Any] = {}


def _isinstance_info(key: str):
    if key in _ISINST:
        return _ISINST[key]
    import re as _re
    m = _re.fullmatch(r"isinstance\((.+), ([\w.]+)\)", detok(key, 8)) if key.startswith("#") else None
    r = (m.group(1), m.group(2).split(".")[-1]) if m else None
    _ISINST[key] = r
    return r


_LAYOUT = {"int": "int", "bool": "int", "float": "float", "str": "str", "timedelta": "timedelta", "date": "date", "datetime": "date",
           "time": "time", "tuple": "tuple", "list": "list", "dict": "dict"}


def layout_root(cls: str) -> str | None:
    """the builtin whose instance layout a class is built on: two classes with different roots have no common instances"""
    if cls in _LAYOUT:
        return _LAYOUT[cls]
    for base, root in _LAYOUT.items():
        if cls in subclasses_of(base):
            return root
    return None


def _minimise(leaves: set) -> set:
    """merge leaves with the same outcome whose conditions differ in the polarity of one atom, and drop leaves subsumed by a
    weaker one (boolean minimisation, so that the order in which independent tests are made does not matter)"""
    by_out: dict[Any, set] = {}
    for conds, out in leaves:
        by_out.setdefault(out, set()).add(conds)
    res = set()
    for out, group in by_out.items():
        changed = True
        rounds = 0
        while changed and rounds < 12 and len(group) < 600:
            changed = False
            rounds += 1
            lst = sorted(group, key=lambda c: (len(c), sorted(c)))
            for i, a in enumerate(lst):
                if a not in group:
                    continue
                for b in lst[i + 1:]:
                    if b not in group or len(a) != len(b):
                        continue
                    diff = a ^ b
                    if len(diff) == 2:
                        (k1, v1), (k2, v2) = tuple(diff)
                        if k1 == k2 and v1 != v2:
                            group.discard(a)
                            group.discard(b)
                            group.add(a & b)
                            changed = True
                            break
            # absorption
            lst = sorted(group, key=len)
            for i, a in enumerate(lst):
                for b in lst[i + 1:]:
                    if b in group and a in group and a < b:
                        group.discard(b)
                        changed = True
        for c in group:
            res.add((c, out))
    return res


STATS: dict[str, dict[str, list[str]]] = {}


def reference_available() -> bool:
    return (REF_ROOT / "REFERENCE.json").exists() and os.environ.get("PVS_NO_REFERENCE") != "1"


_DIFFERS: dict[str, list[str]] = {}


def changed_files() -> list[str]:
    """sources of the analysed tree that differ from the reference snapshot (or are new / missing)"""
    root = str(core.REPO)
    if root in _DIFFERS:
        return _DIFFERS[root]
    out: list[str] = []
    if reference_available():
        for sub, pat in (("src/pendulum", "*.py"), ("rust/src", "*.rs")):
            a = {str(p.relative_to(core.REPO)): p for p in (core.REPO / sub).rglob(pat)} if (core.REPO / sub).exists() else {}
            b = {str(p.relative_to(REF_ROOT)): p for p in (REF_ROOT / sub).rglob(pat)} if (REF_ROOT / sub).exists() else {}
            for rel in sorted(set(a) | set(b)):
                if rel not in a or rel not in b or a[rel].read_bytes() != b[rel].read_bytes():
                    out.append(rel)
    _DIFFERS[root] = out
    return out


def reference_info() -> dict:
    try:
        return json.loads((REF_ROOT / "REFERENCE.json").read_text())
    except OSError:
        return {}


def hybridise(tree: ast.Module, text: str, rel: str) -> ast.Module:
    """replace every function that is provably equivalent to its reference counterpart by the reference node"""
    ref_path = REF_ROOT / rel
    if not reference_available() or not ref_path.exists():
        return tree
    ref_text = ref_path.read_text(encoding="utf-8")
    if ref_text == text:
        return tree
    try:
        ref_tree = ast.parse(ref_text)
    except SyntaxError:
        return tree
    stats = STATS.setdefault(rel, {"identical": [], "equivalent": [], "different": [], "new": [], "restored": [], "gave_up": []})
    ctx_a, ctx_r = ModCtx(tree, core.REPO), ModCtx(ref_tree, REF_ROOT)
    ref_funcs = {q: (cls, node) for q, cls, node, _b, _i in _iter_funcs(ref_tree)}
    seen = set()
    all_equiv_or_same = True
    for q, cls, node, body, i in list(_iter_funcs(tree)):
        seen.add(q)
        if q not in ref_funcs:
            stats["new"].append(q)
            continue
        rcls, rnode = ref_funcs[q]
        if _strip_positions(node) == _strip_positions(rnode):
            stats["identical"].append(q)
            continue
        try:
            if max(_size(node), _size(rnode)) > 1800:
                raise Giveup("large function: compared piecewise")
            sa = summary(node, ctx_a, cls)
            sr = summary(rnode, ctx_r, rcls)
        except (Giveup, RecursionError, KeyError, AttributeError, TypeError, ValueError, IndexError) as e:
            # too large for a whole-function summary: keep the top-level structure, compare the pieces
            sa = sr = None
            try:
                for alpha in (False, True):
                    ca_, cr_ = chunk_summary(node, ctx_a, cls, alpha), chunk_summary(rnode, ctx_r, rcls, alpha)
                    if ca_ == cr_:
                        sa = sr = ca_
                        break
            except (Giveup, RecursionError, KeyError, AttributeError, TypeError, ValueError, IndexError) as e2:
                e = e2
            if sa is None:
                stats["gave_up"].append(f"{q}: {type(e).__name__} {e}")
                all_equiv_or_same = False
                continue
        if sa == sr:
            # the reference node may call private helpers the analysed module no longer has (they are inlined in the summaries):
            # then the function is left as it stands - rules and interpreters must be able to resolve what the node names
            cur = {q2 for q2, *_ in _iter_funcs(tree)}
            needs = set()
            for n_ in ast.walk(rnode):
                if isinstance(n_, ast.Name) and n_.id in ref_funcs and ref_funcs[n_.id][0] is None:
                    needs.add(n_.id)
                elif isinstance(n_, ast.Attribute) and isinstance(n_.value, ast.Name) and n_.value.id in ("self", "cls") and rcls \
                        and f"{rcls}.{n_.attr}" in ref_funcs:
                    needs.add(f"{rcls}.{n_.attr}")
            if needs <= cur:
                body[i] = rnode
            stats["equivalent"].append(q)
        else:
            stats["different"].append(q)
            all_equiv_or_same = False
    # reference functions that disappeared (renamed / inlined private helpers): when every surviving function of the
    # module is identical or equivalent to its reference (helpers inlined on both sides), the helper's behaviour is
    # preserved through its callers and the reference node is put back so that rules anchored in it still resolve
    missing = [q for q in ref_funcs if q not in seen]
    if missing and all_equiv_or_same:
        for q in missing:
            cls, rnode = ref_funcs[q]
            if not rnode.name.startswith("_") or rnode.name.startswith("__"):
                continue
            if cls is None:
                tree.body.append(rnode)
            else:
                for st in ast.walk(tree):
                    if isinstance(st, ast.ClassDef) and st.name == cls:
                        st.body.append(rnode)
                        break
                else:
                    continue
            stats["restored"].append(q)
    return tree
