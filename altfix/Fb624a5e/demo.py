"""from_format() must accept the documented Y token (year, any number of digits)."""
import datetime
import sys

import pendulum

failures = []


def check(string, fmt, expected, **kwargs):
    try:
        got = pendulum.from_format(string, fmt, **kwargs)
    except Exception as e:  # noqa: BLE001
        failures.append(f"from_format({string!r}, {fmt!r}) raised {type(e).__name__}: {e}")
        return
    got_native = datetime.datetime(
        got.year, got.month, got.day, got.hour, got.minute, got.second,
        got.microsecond, tzinfo=datetime.timezone(got.utcoffset()),
    )
    if got_native != expected or got_native.utcoffset() != expected.utcoffset():
        failures.append(f"from_format({string!r}, {fmt!r}) = {got}, expected {expected}")


utc = datetime.timezone.utc
check("2020", "Y", datetime.datetime(2020, 1, 1, tzinfo=utc))
check("+2020", "Y", datetime.datetime(2020, 1, 1, tzinfo=utc))
check("987", "Y", datetime.datetime(987, 1, 1, tzinfo=utc))
check("2020-03-04 05:06", "Y-MM-DD HH:mm", datetime.datetime(2020, 3, 4, 5, 6, tzinfo=utc))
check("12/1987", "M/Y", datetime.datetime(1987, 12, 1, tzinfo=utc))
check(
    "1987 07 15", "Y MM DD",
    datetime.datetime(1987, 7, 15, tzinfo=datetime.timezone(datetime.timedelta(hours=2))),
    tz="Europe/Paris",
)

# round trip with format(), which renders Y as the plain year
for year in (1, 45, 999, 1970, 2024, 9999):
    dt = pendulum.datetime(year, 6, 7)
    text = dt.format("Y|M|D")
    if text != f"{year}|6|7":
        failures.append(f"format('Y|M|D') of year {year} gave {text!r}")
    check(text, "Y|M|D", datetime.datetime(year, 6, 7, tzinfo=utc))

# years that do not exist are still rejected with a ValueError
for bad in ("-5", "12345", "abcd"):
    try:
        pendulum.from_format(bad, "Y")
    except ValueError:
        pass
    except Exception as e:  # noqa: BLE001
        failures.append(f"from_format({bad!r}, 'Y') raised {type(e).__name__}")
    else:
        failures.append(f"from_format({bad!r}, 'Y') did not raise")

# the other year tokens are unchanged
check("20", "YY", datetime.datetime(2020, 1, 1, tzinfo=utc))
check("2020", "YYYY", datetime.datetime(2020, 1, 1, tzinfo=utc))

if failures:
    print("\n".join(failures))
    sys.exit(1)
print("ok")
