"""Interval / diff() must order two aware datetimes of one zone by instant, also
inside a repeated hour (fold).  Expected values come from the standard library
(conversion to UTC) and from hand computation."""
import sys
from datetime import datetime, timezone

import pendulum

failures = []


def utc(dt):
    return datetime(
        dt.year, dt.month, dt.day, dt.hour, dt.minute, dt.second, dt.microsecond
    ) - dt.utcoffset()


def check(a, b):
    want = (utc(b) - utc(a)).total_seconds()  # signed, by instant
    for absolute in (True, False):
        it = pendulum.Interval(a, b, absolute=absolute)
        exp_total = abs(want) if absolute else want
        exp_invert = want < 0
        exp_start = (b if want < 0 else a) if absolute else a
        ok = (
            it.total_seconds() == exp_total
            and it.invert is exp_invert
            and it.start.isoformat() == exp_start.isoformat()
            and utc(it.start) == utc(exp_start)
        )
        if absolute:
            ok = ok and utc(it.start) <= utc(it.end)
        if not ok:
            failures.append(
                (a.isoformat(), b.isoformat(), absolute, it.total_seconds(),
                 it.invert, it.start.isoformat(), "want", exp_total, exp_invert)
            )
    d = a.diff(b)
    if d.total_seconds() != abs(want) or d.invert is not (want < 0):
        failures.append(("diff", a.isoformat(), b.isoformat(), d.total_seconds(), d.invert))
    d = a.diff(b, False)
    if d.total_seconds() != want:
        failures.append(("diff signed", a.isoformat(), b.isoformat(), d.total_seconds()))


cases = [
    ("Europe/Paris", (2013, 10, 27), 2),
    ("America/New_York", (2021, 11, 7), 1),
    ("Australia/Lord_Howe", (2022, 4, 3), 1),  # 30 minute shift
]
for name, (y, m, d), hour in cases:
    tz = pendulum.timezone(name)
    pts = []
    for minute in (0, 10, 29, 31, 50, 59):
        for fold in (0, 1):
            pts.append(pendulum.DateTime(y, m, d, hour, minute, tzinfo=tz, fold=fold))
    # plus ordinary points around the transition
    pts.append(pendulum.DateTime(y, m, d, hour - 1, 30, tzinfo=tz))
    pts.append(pendulum.DateTime(y, m, d, hour + 1, 30, tzinfo=tz))
    for a in pts:
        for b in pts:
            check(a, b)

# hand computed: 02:10+01:00 is 01:10Z, 02:50+02:00 is 00:50Z -> 20 minutes, second one earlier
tz = pendulum.timezone("Europe/Paris")
late = pendulum.DateTime(2013, 10, 27, 2, 10, tzinfo=tz, fold=1)
early = pendulum.DateTime(2013, 10, 27, 2, 50, tzinfo=tz, fold=0)
assert late.isoformat() == "2013-10-27T02:10:00+01:00"
assert early.isoformat() == "2013-10-27T02:50:00+02:00"
it = late.diff(early)
if (it.total_seconds(), it.invert, it.start.isoformat()) != (1200.0, True, "2013-10-27T02:50:00+02:00"):
    failures.append(("hand", it.total_seconds(), it.invert, it.start.isoformat()))
it = early.diff(late)
if (it.total_seconds(), it.invert) != (1200.0, False):
    failures.append(("hand2", it.total_seconds(), it.invert))

# ordinary orderings are unchanged (naive, different zones, dates)
n1, n2 = pendulum.naive(2020, 1, 1, 5), pendulum.naive(2020, 1, 1, 3)
it = pendulum.Interval(n1, n2, absolute=True)
if (it.total_seconds(), it.invert, it.start) != (7200.0, True, n2):
    failures.append(("naive", it.total_seconds(), it.invert))
x = pendulum.datetime(2020, 1, 1, 12, tz="Europe/Paris")
y = pendulum.datetime(2020, 1, 1, 8, tz="America/New_York")
it = pendulum.Interval(x, y)
if (it.total_seconds(), it.invert) != (7200.0, False):
    failures.append(("zones", it.total_seconds(), it.invert))
it = pendulum.Interval(pendulum.date(2020, 1, 3), pendulum.date(2020, 1, 1), absolute=True)
if (it.total_seconds(), it.invert) != (2 * 86400.0, True):
    failures.append(("dates", it.total_seconds(), it.invert))

for f in failures[:20]:
    print("FAIL", f)
print("ok" if not failures else f"{len(failures)} failures")
sys.exit(1 if failures else 0)
