"""The compiled parser must accept a time-only string with the T designator
in extended format (Thh:mm:ss[.f][offset]) like it accepts the basic format,
and keep rejecting a date and a time in different formats.
Reference values: datetime.time.fromisoformat() of the standard library."""
import sys
from datetime import datetime, time

import pendulum.parsing as parsing
from pendulum.parsing import parse, parse_iso8601
from pendulum.parsing.exceptions import ParserError

failures = []

if not parsing.with_extensions:
    print("note: running with the pure-Python parser (PENDULUM_EXTENSIONS=0)")


def same_time(got, ref):
    return (
        isinstance(got, time)
        and not isinstance(got, datetime)
        and (got.hour, got.minute, got.second, got.microsecond)
        == (ref.hour, ref.minute, ref.second, ref.microsecond)
        and got.utcoffset() == ref.utcoffset()
    )


now = datetime(2000, 2, 29, 1, 2, 3)
accepted = [
    "T06:07:08",
    "T06:07:08+00:00",
    "T06:07:08.5-03:30",
    "T23:59:59.999999",
    "T00:00:00Z",
    "T06:07:08,25+05:45",
    "T12:30:45.123456-08:00",
    # already fine before
    "T060708",
    "T060708.5-0330",
    "T06:07",
    "T06",
    "06:07:08",
]
for text in accepted:
    # the standard library wants a '.' as decimal mark and hh:mm offsets
    iso = text.replace(",", ".")
    if iso.endswith("-0330"):
        iso = iso[:-5] + "-03:30"
    ref = time.fromisoformat(iso)
    try:
        got = parse_iso8601(text)
    except Exception as e:  # noqa: BLE001
        failures.append(f"parse_iso8601({text!r}) raised {type(e).__name__}: {e}")
    else:
        if not same_time(got, ref):
            failures.append(f"parse_iso8601({text!r}) = {got!r}, expected {ref!r}")
    try:
        got = parse(text, now=now)
    except Exception as e:  # noqa: BLE001
        failures.append(f"parse({text!r}) raised {type(e).__name__}: {e}")
    else:
        expected = datetime.combine(now.date(), ref.replace(tzinfo=None))
        if got != expected:
            failures.append(f"parse({text!r}) = {got!r}, expected {expected!r}")

# a date and a time must still be written in the same format
if parsing.with_extensions:
    for text in ["20210307T06:07:08", "2021-03-07T060708", "2021067T06:07:08",
                 "2021-W10-1T060708", "2021W101T06:07:08"]:
        try:
            got = parse(text)
        except ParserError:
            pass
        else:
            failures.append(f"parse({text!r}) accepted: {got!r}")

# consistent forms
for text, expected in [
    ("2021-03-07T06:07:08", datetime(2021, 3, 7, 6, 7, 8)),
    ("20210307T060708", datetime(2021, 3, 7, 6, 7, 8)),
    ("2021-03-07 06:07:08.5", datetime(2021, 3, 7, 6, 7, 8, 500000)),
]:
    try:
        got = parse(text)
    except Exception as e:  # noqa: BLE001
        failures.append(f"parse({text!r}) raised {type(e).__name__}: {e}")
    else:
        if got != expected:
            failures.append(f"parse({text!r}) = {got!r}, expected {expected!r}")

for f in failures:
    print("FAIL", f)
print("failures:", len(failures))
sys.exit(1 if failures else 0)
