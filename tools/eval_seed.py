#!/venv/bin/python
"""eval_seed.py <seed dir with patch.diff, demo.py, meta.json> [--no-confirm]
1. confirms the seeded change in the scratch worktree /tmp/wt/verify: baseline suite still passes with it, the
   demonstration fails with it and passes without it (Rust changes: the extension is rebuilt for the worktree);
2. applies it to a scratch copy of the sources and runs every quick check on that copy.
Prints a JSON summary."""
import json, os, re, shutil, subprocess, sys, tempfile
VERIF = os.path.dirname(os.path.dirname(os.path.abspath(__file__)))
sys.path.insert(0, VERIF)
sys.dont_write_bytecode = True
WT = "/tmp/wt/verify"
SO = "src/pendulum/_pendulum.cpython-312-x86_64-linux-gnu.so"


def sh(cmd, **kw):
    return subprocess.run(cmd, shell=isinstance(cmd, str), capture_output=True, text=True, **kw)


def rebuild(wt):
    r = sh("CARGO_NET_OFFLINE=true CARGO_TARGET_DIR=/tmp/wt/target-verify cargo build --offline --release --lib", cwd=wt + "/rust")
    if r.returncode != 0:
        raise SystemExit("cargo build failed: " + r.stderr[-500:])
    shutil.copy("/tmp/wt/target-verify/release/lib_pendulum.so", f"{wt}/{SO}")


def main():
    d = os.path.abspath(sys.argv[1])
    meta = json.load(open(f"{d}/meta.json"))
    patch = f"{d}/patch.diff"
    env = dict(os.environ, PYTHONPATH=f"{WT}/src", **{k: str(v) for k, v in (meta.get("env") or {}).items()})
    out = {"seed": d, "property": meta.get("property")}
    rust = "rust/src" in open(patch).read()
    if "--no-confirm" not in sys.argv:
        sh(["git", "-C", WT, "checkout", "--", "."])
        if rust:
            rebuild(WT)
        r0 = sh(["/venv/bin/python", f"{d}/demo.py"], env=env, cwd=d)
        a = sh(["git", "-C", WT, "apply", patch])
        if a.returncode != 0:
            out["error"] = "patch does not apply: " + a.stderr[:200]
            print(json.dumps(out)); return
        if rust:
            rebuild(WT)
        r1 = sh(["/venv/bin/python", f"{d}/demo.py"], env=env, cwd=d)
        s = sh(["/tmp/wt/suite_check.py", WT] + [f"{k}={v}" for k, v in (meta.get("env") or {}).items()])
        s2 = sh(["/tmp/wt/suite_check.py", WT])
        sh(["git", "-C", WT, "checkout", "--", "."])
        if rust:
            rebuild(WT)
        out.update(demo_passes_without=r0.returncode == 0, demo_fails_with=r1.returncode != 0,
                   suite_passes_with=s2.returncode == 0, suite_passes_with_seed_env=s.returncode == 0, demo_err=(r1.stdout + r1.stderr)[-300:])
    # checks on a scratch copy
    from pvs.selftest import runner
    tmp = tempfile.mkdtemp(prefix="pvs-seed-")
    try:
        runner.make_copy(__import__("pathlib").Path(tmp))
        a = sh(["git", "apply", "--unsafe-paths", f"--directory={tmp}", patch], cwd="/")
        if a.returncode != 0:
            a = sh(["patch", "-p1", "-i", patch], cwd=tmp)
        if a.returncode != 0:
            out["error"] = "patch does not apply to the scratch copy: " + (a.stderr + a.stdout)[:300]
            print(json.dumps(out)); return
        fired = {}
        for i in range(1, 21):
            pid = f"C{i:02d}"
            r = sh([f"{VERIF}/check", pid, "--repo", tmp], env=dict(os.environ, PVS_NO_EVIDENCE="1", PVS_REPO=tmp), cwd=VERIF)
            if r.returncode != 0:
                rules = sorted(set(re.findall(r"rule=(\S+) construct=(.+?) site=", r.stdout)))
                fired[pid] = {"rc": r.returncode, "rules": [f"{a} {b}" for a, b in rules][:6], "tail": r.stdout[-200:] if r.returncode == 2 else ""}
            elif "UNVERIFIED" in r.stdout:
                fired.setdefault("_unverified", {})[pid] = re.findall(r"UNVERIFIED: property=\S+ (\S+ \S+)", r.stdout)[:4]
        out["checks_fired"] = fired
        out["caught_by_own_property"] = fired.get(meta.get("property"), {}).get("rc") == 1
        out["caught"] = any(isinstance(v, dict) and v.get("rc") == 1 for k, v in fired.items() if k != "_unverified")
    finally:
        shutil.rmtree(tmp, ignore_errors=True)
    print(json.dumps(out, indent=1))


if __name__ == "__main__":
    main()
