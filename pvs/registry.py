"""Per-property claims: the single source MANIFEST.json is generated from
(tools/gen_manifest.py).  A property appears in CLAIMS only once its check is
built, quiet on the reference tree and shown to fire on seeded variants."""

NOTE = ("Static analysis of /repo's current working tree only (Python ast, rustc MIR): nothing of pendulum is imported, run, "
        "fuzzed or handed to a solver. Two kinds of rule: syntactic / dataflow rules (paths, reconstruction sites, funnels, "
        "tables, MIR summaries) and value rules, in which the checker's own interpreter (pvs/rules/minieval.py) evaluates the "
        "analysed source - functions, methods on instance stubs, MIR path summaries, and (pvs/mirexec.py) the MIR basic blocks of the compiled parsers - over a finite table of inputs and "
        "compares with the standard library or the checker's own calendar arithmetic (partial evaluation of the source by "
        "the analyser; DESIGN.md section 0). Where a value rule is discharged on every case, the syntactic rules for the "
        "same construct are recorded as established by it; they decide only code outside the interpreter. A green result "
        "means every decided clause holds at every site and on every tabulated case; clauses listed as 'not decided' in "
        "DESIGN.md section 4 / the EXPLANATION of the evidence file are outside the claim. Trusted: CPython ast/re parsers, "
        "stdlib datetime/calendar/zoneinfo semantics, the frozen idiom and intentional-drop tables in /verif/pvs.")

VALUE_RULES = {
    "C01": "Value rules: from_timestamp tabulated (UTC fields tagged UTC, converted to the requested zone), _safe_timezone decided per kind of argument on the function's leaves, ASTIMEZONE.tabulated (astimezone evaluated with super() answered by the standard library: same fields, instant and utcoffset as the native answer). UNITS.int_timestamp (tabulated) runs the int_timestamp property on aware instances of both folds, both sides of 1970, year 1 and 9999. INSTANCE.tabulated runs DateTime.instance and _safe_timezone on aware standard-library values (fixed offsets, zoneinfo, a nameless zone with an offset change); REPLACE.tabulated runs replace() / set() with a recording create().",
    "C02": "Value rules: CONVERT.tabulated runs Timezone/FixedTimezone.convert and .datetime on stdlib values with a scenario tzinfo (gaps and overlaps of 30 min, 1 h, a whole day, both folds, raise flag); LOCAL.env runs _tz_from_env. CREATE.tabulated runs DateTime.create with a recording zone: what convert() receives (naive wall time, fold, flag) and that the instance takes every field, tzinfo and fold of its answer.",
    "C03": "Value rules: ADD.tabulated (helpers.add_duration on stdlib values, ~700 cases) and SHIFT.tabulated (DateTime/Date add and subtract interpreted in a wall-clock world with one skip/repeat transition, ~3200 cases).",
    "C04": "Value rules: ADD.tabulated and SHIFT.tabulated (see C03; amounts given by keyword and by position: add(*a) == subtract(*-a)); the operand-kind arms of + and - are read off function leaves. DELTA.tabulated runs the `+ delta` / `- delta` helpers of DateTime and Date with an Interval, a Duration (also negated / scaled) and native timedeltas on an instance whose add() / subtract() record their amounts; ARITH.tabulated decides Duration.__neg__.",
    "C05": "Value rules: LENGTH.tabulated runs Interval.__new__ on stdlib and pendulum-typed stubs (zoneinfo pairs inside repeated/skipped hours, zero-offset zones, fixed offsets, naive, dates, spans up to 9998 years - exact below 2**33 s, within the 64 us the statement allows beyond); DIRECTION.tabulated runs -/diff(). ORDER.tabulated runs interval._is_after on standard-library values inside a repeated hour (both folds, one and two tzinfo objects), naive values and dates.",
    "C06": "Value rules: DIFF.tabulated runs the pure-Python precise_diff on ordered pairs of stdlib values (a + (b - a) == b, canonical ranges, reversal); the month-borrow branch of both back ends and the Rust date roller are tabulated from path summaries; LENGTH.exact (the Duration behind remaining_seconds / microseconds is built from the exact difference, spans up to 9998 years); DIRECTION.tabulated (b - a with a native operand on either side). INIT.tabulated runs Interval.__init__ on pendulum and standard-library end points (the swap of an absolute interval, what precise_diff receives); MEMO.instants: no memoisation keyed by aware datetimes of a function that decomposes them.",
    "C07": "Value rules: PYISO.tabulated runs the pure-Python parse_iso8601 and RSISO.tabulated the MIR of the compiled parser (pvs/mirexec.py, from python::parsing::parse_iso8601 down) on one table of strings (117; every day of ten years in six forms in the thorough tier); RSWEEK.tabulated; offset parsers of both back ends tabulated (a valid offset without an accepting path counts as rejected).",
    "C08": "Value rules (formatter world, rules/fmtstub.py: Formatter.format / parse, Locale and the locale literals evaluated by the checker's interpreter): RENDER.tabulated (every documented token and token sequences with escapes x DateTimes x offsets against the documented rendering computed from the standard library), ROUNDTRIP.tabulated (24 full formats, timestamps, zone names, month and day names of all 27 locales), NOWFILL.tabulated, NOMATCH.tabulated, WEEKDAY.tabulated; offset rendering / parsing tabulated.  Known finding: weekday token d (0 = Sunday when formatted, 0 = Monday when parsed).",
    "C09": "Value rules: DIVMOD.tabulated runs the whole Duration/AbsoluteDuration constructors on instance stubs (stdlib timedelta as base class); RADIX.tabulated the lazily cached digits; STATE-COMPLETE.tabulated the copy/pickle state. SIGNATURE.tabulated compares the recorded constructor arguments.",
    "C10": "Value rules: ARITH.tabulated runs every operator of Duration on instance stubs and native timedeltas against the same operation on stdlib timedeltas.",
    "C11": "Value rules: DIRECTION.tabulated (- between values, diff()), NATIVE.tabulated (astimezone, Date.today / fromtimestamp / fromordinal evaluated with super() answered by the standard library), the replace()/set() funnel and instance() reconstruction shared with C01/C02.",
    "C12": "Value rules: UNIT.tabulated runs start_of/end_of and every helper in a wall-clock world (9 units x dates x times x both folds x zone transitions x 7 week configurations) against the checker's own calendar arithmetic. SETTER.tabulated runs week_starts_at / week_ends_at.",
    "C13": "Value rules: PYDUR.tabulated runs the pure-Python duration parser and RSDUR.tabulated the MIR of the compiled one (pvs/mirexec.py) on one table of strings (88: every designator, fractions whose carry does not stop at a whole second, every repeated / out-of-order designator; 1200 generated strings in the thorough tier); INTERVAL.tabulated runs parser._parse on the three interval forms; Rust fraction radix by MIR dataflow.",
    "C14": "Value rules: STATE-COMPLETE.tabulated rebuilds values from __reduce_ex__/__deepcopy__/__getinitargs__ evaluated on instance stubs (Duration, DateTime, Time, FixedTimezone). For Duration and AbsoluteDuration the constructor call produced by __reduce__ / __deepcopy__ is evaluated in turn and the rebuilt instance compared field by field (timedelta value, components, sign).",
    "C15": "Value rules: PRIM.tabulated runs is_leap/days_in_year/is_long_year/week_day/local_time of _helpers.py against the standard library (all years in the thorough tier); RSPRIM.tabulated evaluates the MIR path summaries of the compiled versions the same way.",
    "C16": "Value rules: CALENDAR.tabulated runs next/previous/first_of/last_of/nth_of in a calendar world (dates, time of day to the microsecond, fold) over every month shape, quarters, leap years, all weekdays, n past the end of the unit, keep_time and skipped/repeated midnights. The first and last month / quarter / year of the calendar (0001-01, 9999-12) are among the instances.",
    "C17": "Value rules: CAST-UNION by running _parse_iso8601_interval on every combination of half kinds; PYISO / PYDUR and RSISO / RSDUR tabulations on the same tables (both back ends: the same values, refused strings a ValueError, never another exception or a panic). CHAIN.tabulated runs parsing.parse -> _parse with the three parsers and dateutil as stubs over every combination of acceptance / refusal, strict / non-strict.",
    "C18": "Value rules: HUMAN.tabulated runs DifferenceFormatter.format on difference stubs x flags x locale shapes (it also yields the key templates and how each is filled - by position and / or by name - which PLACEHOLDERS checks in all locales); INWORDS.tabulated; RADIX.tabulated. ORDINALIZE.tabulated runs Locale.ordinalize on the data of every locale for 0..130, 200, 1000.",
    "C19": "Value rules: RANGE.tabulated runs the generator Interval.range, __iter__ and __contains__ on interval stubs (an empty interval is false, like the timedelta it is; membership probed with pendulum and native values); SHIFT/ADD tabulations for the steps (amounts also by position).",
    "C20": "Value rules: TIME.tabulated runs every arithmetic method of Time on Time stubs and native operands; the Duration/AbsoluteDuration constructors behind diff() are tabulated.",
}

CLAIMS: dict[str, dict[str, str]] = {
    "C01": {
        "text": "Static rule checking: all aware paths of the two convert() methods return dt.astimezone(self); "
                "in_timezone/in_tz funnel into it; every re-wrap site on a conversion path copies 7 fields + tzinfo + "
                "fold; FixedTimezone's tzinfo contract; UTC-frame algebra of from_timestamp/add; int_timestamp units; "
                "instance() of foreign aware values preserves the instant for every tzinfo kind. These are necessary "
                "conditions of instant preservation visible in the code on every path; tz-database agreement itself "
                "is run-time behaviour of zoneinfo and not claimed.",
        "note": NOTE,
        "technique": "AST path enumeration (must-return), reconstruction-site field fidelity, offset-frame algebra",
    },
    "C02": {
        "text": "Static rule checking: who-may-call/must-pass-through from the 11 wall-clock entry points into "
                "DateTime.create -> tz.convert with parameter forwarding (fold, raise_on_unknown_times) checked on "
                "every syntactic path; fold defaults fold to 1; Timezone.convert's naive branch is evaluated by the "
                "checker's own path enumerator over the finite abstract domain {after>,=,<before} x fold x raise "
                "(12 cases, exhaustive) against the table the property states. The values only reach the code "
                "through comparisons, so the finite case analysis is complete for the branch logic; which wall times "
                "are skipped/repeated in which zone is zone data and not claimed.",
        "note": NOTE,
        "technique": "call-path funnel + parameter-forwarding check, finite abstract case analysis of convert()",
    },
    "C03": {
        "text": "Static rule checking of DateTime.add's fixed-length branch on every syntactic path: classification "
                "list == signature minus the four fixed units; value flow naive copy - utcoffset -> add_duration (8 "
                "units forwarded) -> tzinfo=UTC -> self.tz.convert -> rebuilt with zone and converted fold; exit "
                "guards; subtract() negation symmetry; mirrored timedelta arms and operator routing; radix/target of "
                "every carry in add_duration. Each is a necessary condition of exact elapsed-time arithmetic; float "
                "exactness of `seconds` and zoneinfo rendering are not claimed.",
        "note": NOTE,
        "technique": "path-sensitive value-flow reconstruction, negation-symmetry and carry-chain (radix) checks",
    },
    "C04": {
        "text": "Static rule checking: statement order and operands of the month shift / overflow / clamp / replace / "
                "timedelta sequence in add_duration; calendar exit of DateTime.add; Date.add reconstruction; "
                "negation symmetry of both subtract(); sibling agreement of the +delta and -delta helper ladders per "
                "operand kind incl. component completeness; Duration.__neg__ and _signature completeness; constructor "
                "completeness for private attributes read under isinstance(delta, Duration).",
        "note": NOTE,
        "technique": "ordering/def-use check, sibling-ladder agreement, component completeness, init-completeness",
    },
    "C05": {
        "text": "Static rule checking: operand direction of the six subtraction/diff entry points; value-flow "
                "reconstruction of `_end - _start` on every non-raising path of Interval.__new__ (72 distinct forms "
                "today), each side required to be a full copy of its own endpoint, offset-corrected only with its own "
                "utcoffset(); swap-before-copy order; identity guard; Duration built from total_seconds(); total_*/in_* "
                "constants and int() truncation. Float precision and the stdlib's aware subtraction are not claimed.",
        "note": NOTE,
        "technique": "path-sensitive value-flow reconstruction, operand-direction and unit/truncation rules",
    },
    "C06": {
        "text": "Cross-language sibling checking: borrow chain (radix/target/order) extracted from the Python AST and "
                "from rustc MIR; the day<0 month branch is executed symbolically on all paths in both languages and "
                "the sets of (condition, day update, month update) must coincide; sign/slot of the 8 outputs; Rust "
                "operand descriptors and offset-normalisation regions must be mirror images (symbolic summaries under "
                "1<->2 renaming); back-end switch names and arity across .pyi/#[pyfunction]/_helpers.py; Interval "
                "accessors. Shows the two back ends implement the same decomposition with the stated radices; that the "
                "month-branch is arithmetically right for every date pair is not claimed.",
        "note": NOTE + " rustc --emit=mir (release overflow setting, opt-level 0) is trusted to reflect the helper.",
        "technique": "AST vs MIR symbolic path summaries (translation-validation style sibling agreement)",
    },
    "C07": {
        "text": "Static rule checking on the Python AST and rustc MIR: the four searches over the cumulative "
                "days-before-month table use the comparison the table's meaning forces (derived: d in month k iff "
                "T[k] < d <= T[k+1]) and return (i-1, d-T[i-1]); week-date ordinal formula, range guards and year "
                "wrap are the same normal forms in both parsers; 6-digit fraction cut/pad; offset = ((h*60)+m)*60*sign "
                "in both parsers and the formatter clone; field-faithful wrapping in parser._parse/_normalize; "
                "exact=True pass-through. The grammar mapping as a whole is run-time behaviour and not claimed.",
        "note": NOTE + " rustc --emit=mir is trusted to reflect the compiled parser.",
        "technique": "cumulative-table search rule, AST/MIR symbolic normal forms, sibling agreement, recon fidelity",
    },
    "C08": {
        "text": "Static table agreement: token language of _TOKENS (regex AST, 74 tokens) vs the 46 documented "
                "tokens vs handlers (if/elif ladders evaluated per token) vs regex/parse tables vs the parsed[] slots "
                "written, initialised and read; per-token render rule (value expression, pad width), parse scale "
                "10^(6-n), strict regex widths, 12-hour and meridiem rules, Z/ZZ render and parse, named-format "
                "tables/constants/methods, from_format forwarding. A wrong table entry is visible without choosing "
                "a value; equality with strftime for all values is not claimed.",
        "note": NOTE + " The per-token meaning table in pvs/props/C08.py transcribes docs/docs/string_formatting.md.",
        "technique": "reader/writer table agreement over regex-AST token language, per-token width/scale rules",
    },
    "C09": {
        "text": "Static rule checking of the decomposition shape: positional slots and the 365/30-day terms of "
                "timedelta.__new__, removal of exactly that part from the total, divmod pairing ((x//86400, x%86400) of "
                "one x with one sign; (y//7, y%7)), mixed-radix digits of _seconds with radices 60/60/24 and its sign, "
                "integer guard, AbsoluteDuration's divmod pairs, total_*/in_* constants. Canonical ranges and exact "
                "sum follow from these shapes for integer arithmetic; float effects are not claimed.",
        "note": NOTE,
        "technique": "polynomial normal forms of the normalisation expressions (divmod-pair / mixed-radix rules)",
    },
    "C10": {
        "text": "Static rule checking: operator protocol on every type-feasible path of the 7 binary special methods; "
                "attribute-under-guard (attributes read from the other operand exist on each admitted class, using "
                "dir(timedelta) of the interpreter); component-wise __neg__/__mul__; microsecond weights for both "
                "operand kinds; numerator/denominator of each rounding call; statement-level agreement of "
                "_divide_and_round with Lib/_pydatetime.py; constructor compatibility of inherited operators in "
                "subclasses; Interval delegation.",
        "note": NOTE,
        "technique": "path-sensitive operator-protocol and attribute-under-guard analysis, stdlib-reference sibling check",
    },
    "C11": {
        "text": "Static rule checking: inventory of the native methods that must be overridden (those whose C "
                "implementation returns base-class objects) and a return-through-pendulum-constructor rule on every "
                "path of each override; replace() signature order against the interpreter's own reference signature "
                "and keep-when-omitted semantics per field incl. fold; reconstruction fidelity of date()/time()/"
                "int_timestamp/Date and Time constructors; __eq__/__hash__ pairing and str delegation. Value equality "
                "of inherited accessors is the C base class at run time and not claimed.",
        "note": NOTE,
        "technique": "override inventory + return-constructor rule, signature LSP vs Lib/_pydatetime.py, recon fidelity",
    },
    "C12": {
        "text": "Static rule checking: dispatch-table exhaustiveness (units x {start,end} through the MRO); field "
                "lattice of all 28 modifier methods (fields below the unit pinned to min / max from the radix table, "
                "fields at or above taken from self); linear normal form of the decade/century year expressions and "
                "DateTime/Date agreement; week pairing and setter validation; fold information-flow rule in the "
                "dispatcher (instance fold cannot reach create() for day-and-above units, is forwarded for "
                "second/minute/hour). The +-1 microsecond neighbour clauses on DST days are zone data and not claimed.",
        "note": NOTE,
        "technique": "dispatch exhaustiveness, field-lattice rule, linear normal forms, fold information flow",
    },
    "C13": {
        "text": "Static rule checking: fraction-scale rule at every split('.') site of the pure-Python duration parser "
                "(length-aware scaling, no truncation of digits or of the carry), fraction-last / no fractional Y,M / "
                "weeks-exclusive guards; on rustc MIR with the release overflow setting: loop classification "
                "(constant-bounded vs input-bounded) and a no-plain-arithmetic rule for loop-carried integers in "
                "input-bounded loops plus a taint rule for the one unbounded parsed number; interval assembly "
                "(add/subtract with the same 8 components) and attribute agreement across .pyi / Rust getters / "
                "pendulum.Duration. Exact rational rounding is float behaviour and not claimed.",
        "note": NOTE + " rustc --emit=mir with profile.release's overflow-checks=false is trusted to show unchecked arithmetic as plain Add/Mul.",
        "technique": "fraction-scale lint over def-use chains, MIR loop classification + unchecked-arithmetic taint rule",
    },
    "C14": {
        "text": "Static state-completeness checking: every hand-written serialisation path (__reduce_ex__ + state "
                "function incl. a functools.partial callable, __deepcopy__, __getinitargs__) is bound against the "
                "constructor parameters and must carry each state component of its type from that component's own "
                "accessor (tzinfo lossless, fold, weeks, years/months, absolute flag with the swap undone); inherited "
                "paths must be constructible in subclasses (CTOR-LSP). Once the state is complete nothing "
                "value-dependent remains; protocol byte encodings are the stdlib's.",
        "note": NOTE,
        "technique": "state-completeness (constructor binding of reduce/deepcopy state), CTOR-LSP",
    },
    "C15": {
        "text": "Static checking of calendar tables and formulas: defining recurrences of the folded tables (prefix "
                "sums, leap counts, the weekday table re-derived from the month offsets, dense enumerations), value "
                "equality of every constant shared with rust/src/constants.rs, canonical decision tables / polynomial "
                "normal forms of is_leap, p/is_long_year, week_day, days_in_year, day_number and of local_time's "
                "epoch shift, chunk loops and month search compared between the Python AST and rustc MIR (and with "
                "the Gregorian rule), finite tabulation (month 1..12 x leap, by the checker's own evaluator) of the "
                "day_of_year/quarter closed forms, delegation idioms of the getters. Agreement with the calendar over "
                "all years/timestamps is enumeration and not claimed.",
        "note": NOTE + " rustc --emit=mir is trusted to reflect the compiled helpers.",
        "technique": "table recurrences, AST/MIR canonical decision tables and normal forms, finite-enum tabulation",
    },
    "C16": {
        "text": "Static shape checking: next/previous loop shape (unconditional first step, direction pairing, both "
                "validation bounds, keep_time start), the 18 first/last/nth helper bodies of DateTime and Date reduced "
                "to one reference shape per unit after the legitimate class deltas (sibling agreement + reference), "
                "monthcalendar row/column pairing, quarter/year bounds, dispatch lists and exhaustiveness, the "
                "PendulumException condition. Differences in constants, operators, receivers or called methods are "
                "violations; pure restructurings are reported as UNVERIFIED. Landing on the right date for all month "
                "shapes is value-level and not claimed.",
        "note": NOTE,
        "technique": "reference-shape matching with alpha-renaming and feature-multiset triage, clone agreement",
    },
    "C17": {
        "text": "Static exception-escape analysis from pendulum.parse, limited to source classes that can be decided "
                "exactly: conditional nullability of regex groups (regex AST + dominating truthiness facts) at every "
                "int/len/slice/+/method use in the three parsing functions; OverflowError sources fed by unbounded "
                "digit groups must lie under a handler on every call chain from the entry, and the handler converts to "
                "ParserError; typestate of the interval halves at the _Interval construction (cast() is not a proof); "
                "exhaustive isinstance ladder; PyValueError-only error constructors in the Rust arm (MIR); strict gate "
                "and handlers of the dateutil fall-back; every explicit raise in the parsing modules is a ValueError "
                "subclass. Other implicit exception sources and value agreement of the back ends are not claimed.",
        "note": NOTE + " The may-raise table for the builtins/stdlib calls involved is frozen in pvs/props/C17.py.",
        "technique": "exception-escape analysis: regex-AST nullability + dominance facts, handler reachability, typestate",
    },
    "C18": {
        "text": "Static key-closure checking: key templates of DifferenceFormatter.format are extracted with a symbolic "
                "string evaluator on every path, those of in_words/Formatter from their f-strings; instantiated over "
                "7 units x {future,past} x each locale's plural classes (tabulated for counts 0..1000 from the lambda "
                "AST) and resolved in the 27 locale literals with the optional fall-backs honoured (about 3700 "
                "obligations); placeholder fields must be fillable by one positional argument; direction markers are "
                "paired with diff.invert / suppressed by absolute on every path; locale tables for the localized "
                "tokens; reference shape and arm order of the unit ladder. Translation wording and the numeric "
                "rounding for every pair of instants are not claimed.",
        "note": NOTE,
        "technique": "symbolic key-template extraction + locale-literal closure, placeholder and direction-pairing rules",
    },
    "C19": {
        "text": "Static shape checking of the generator Interval.range: loop-invariant receiver of every step (no "
                "drift), multiplier i starting at and advanced by amount, (add,<=)/(subtract,>=) pairing selected by "
                "`not absolute and invert`, candidate compared with the end before being yielded, yield/compute/"
                "advance order, __iter__ and __contains__. Rename-invariant; restructurings with the same operators "
                "and calls are UNVERIFIED. Finiteness for amount <= 0 is outside the quantifier.",
        "note": NOTE,
        "technique": "loop-shape and loop-invariance (information-flow) rules with reference-shape triage",
    },
    "C20": {
        "text": "Static rule checking: component completeness and unit weights of both scalars in Time.diff (linear "
                "form over hour/minute/second/microsecond), operand direction, abs class selection; mirror shape of "
                "add/subtract on the UTC epoch carrier; day-component guard and forwarding of the timedelta helpers; "
                "operator guards/routing; closest/farthest must order by a non-truncating quantity with the right "
                "comparison; reconstruction fidelity of the operand copies.",
        "note": NOTE,
        "technique": "component-completeness/unit-weight linear forms, sibling mirror rule, lossy-projection lint",
    },
}

NOT_APPLICABLE: dict[str, str] = {}

PENDING_REASON = "check not built yet (work in progress; see DESIGN.md section 4 for the planned static rules)"
