#!/venv/bin/python
"""debug: show why a function of a patched tree is not equivalent to the reference.  usage: semdiff.py <patch.diff> <rel.py> <qualname>"""
import sys, ast, subprocess, tempfile, shutil
sys.path.insert(0, '/verif')
from pvs import core, sem
patch, rel, qual = sys.argv[1:4]
tmp = tempfile.mkdtemp(prefix="pvs-semdiff-")
shutil.copytree("/repo/src/pendulum", f"{tmp}/src/pendulum", ignore=shutil.ignore_patterns("*.so", "__pycache__"))
r = subprocess.run(["git", "apply", "--unsafe-paths", f"--directory={tmp}", patch], capture_output=True, text=True, cwd="/")
if r.returncode:
    subprocess.run(["patch", "-p1", "--fuzz=3", "-s", "-i", patch], cwd=tmp)
ta = ast.parse(open(f"{tmp}/{rel}").read()); tr = ast.parse(open(f"/verif/reference/{rel}").read())
from pathlib import Path
ca, cr = sem.ModCtx(ta, Path(tmp)), sem.ModCtx(tr, sem.REF_ROOT)
def find(tree, q):
    for qq, cls, node, b, i in sem._iter_funcs(tree):
        if qq == q: return cls, node
cls, na = find(ta, qual); _, nr = find(tr, qual)
sem.TIME_BUDGET = 60
sa = sem.summary(na, ca, cls); sr = sem.summary(nr, cr, cls)
print("sig equal", sa[0] == sr[0], "| leaves", len(sa[1]), len(sr[1]))
def show(leaf):
    conds, items = leaf
    return "  IF " + " & ".join(sorted(("" if v else "!") + sem.detok(k) for k, v in conds)) + "\n     -> " + "\n        ".join(sem.detok(str(it)) for it in items)
only_a, only_r = sa[1] - sr[1], sr[1] - sa[1]
print("--- only in analysed:", len(only_a))
for l in sorted(map(show, only_a))[:int(sys.argv[4]) if len(sys.argv) > 4 else 3]: print(l)
print("--- only in reference:", len(only_r))
for l in sorted(map(show, only_r))[:int(sys.argv[4]) if len(sys.argv) > 4 else 3]: print(l)
shutil.rmtree(tmp)
