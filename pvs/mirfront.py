"""E8: Rust through rustc's own MIR (text form).

`load()` builds (or fetches from the digest-keyed cache) the unoptimised MIR of
the crate with the *release* profile's overflow setting, so that unchecked
arithmetic shows as plain `Add/Mul/Sub` and checked arithmetic as
`AddWithOverflow` + assert or as calls to `checked_*`.
"""
from __future__ import annotations

import hashlib
import os
import re
import shutil
import subprocess
import sys
from dataclasses import dataclass, field
from pathlib import Path

from . import core

CACHE = Path(os.environ.get("PVS_MIR_CACHE", str(core.VERIF / ".cache")))


class MirUnavailable(Exception):
    pass


def _digest(rust: Path) -> str:
    h = hashlib.sha256()
    files = sorted((rust / "src").rglob("*.rs")) + [rust / "Cargo.toml", rust / "Cargo.lock"]
    for f in files:
        if f.exists():
            h.update(str(f.relative_to(rust)).encode())
            h.update(f.read_bytes())
    return h.hexdigest()[:24]


def mir_path(repo: Path | None = None) -> Path:
    repo = repo or core.REPO
    rust = repo / "rust"
    if not (rust / "Cargo.toml").exists():
        raise core.AnchorMissing("rust/Cargo.toml not found")
    dg = _digest(rust)
    out = CACHE / "mir" / f"{dg}.mir"
    if out.exists() and out.stat().st_size > 1000:
        return out
    out.parent.mkdir(parents=True, exist_ok=True)
    target = CACHE / "cargo"
    target.mkdir(parents=True, exist_ok=True)
    import fcntl
    lock = open(CACHE / "mir.lock", "w")
    fcntl.flock(lock, fcntl.LOCK_EX)     # build + copy must not interleave with another check's build
    try:
        if out.exists() and out.stat().st_size > 1000:
            return out
        return _build(rust, target, out)
    finally:
        fcntl.flock(lock, fcntl.LOCK_UN)
        lock.close()


def _build(rust: Path, target: Path, out: Path) -> Path:
    # cargo decides freshness by mtime and a path-independent package hash, so two
    # trees with equal names would be confused: always build from one staging
    # directory whose files are re-written (fresh mtimes) for every build.
    stage = CACHE / "stage" / "rust"
    if stage.exists():
        shutil.rmtree(stage)
    stage.mkdir(parents=True)
    shutil.copytree(rust / "src", stage / "src", copy_function=shutil.copy)   # fresh mtimes
    for f in ("Cargo.toml", "Cargo.lock"):
        if (rust / f).exists():
            shutil.copy(rust / f, stage / f)
    if (rust / ".cargo").exists():
        shutil.copytree(rust / ".cargo", stage / ".cargo")
    rust = stage
    env = dict(os.environ, CARGO_NET_OFFLINE="true", CARGO_TARGET_DIR=str(target))
    cmd = ["cargo", "rustc", "--offline", "--lib", "--release",
           "--config", "profile.release.lto=false", "--config", "profile.release.opt-level=0",
           "--config", "profile.release.strip=false", "--config", "profile.release.codegen-units=16",
           "--", "--emit=mir"]
    try:
        r = subprocess.run(cmd, cwd=str(rust), env=env, capture_output=True, text=True, timeout=900)
    except (OSError, subprocess.TimeoutExpired) as e:
        raise MirUnavailable(f"cargo could not be run: {e}")
    if r.returncode != 0:
        raise MirUnavailable("cargo rustc failed:\n" + r.stderr[-1500:])
    produced = target / "release" / "deps" / "_pendulum.mir"
    if not produced.exists():
        raise MirUnavailable("cargo produced no MIR file")
    tmp = out.with_suffix(f".{os.getpid()}.tmp")
    shutil.copy(produced, tmp)
    os.replace(tmp, out)
    return out


# ---------------------------------------------------------------------------

BINOPS = {"Add", "Sub", "Mul", "Div", "Rem", "Lt", "Le", "Gt", "Ge", "Eq", "Ne", "BitAnd", "BitOr", "BitXor",
          "Shl", "Shr", "AddWithOverflow", "SubWithOverflow", "MulWithOverflow", "AddUnchecked", "SubUnchecked",
          "MulUnchecked", "Offset", "Cmp"}


@dataclass
class Stmt:
    dest: str | None
    op: str             # binary op name, 'use', 'cast', 'neg', 'not', 'call', 'discr', 'other'
    args: list[str]
    raw: str
    callee: str = ""


@dataclass
class Block:
    idx: int
    stmts: list[Stmt] = field(default_factory=list)
    term: str = ""
    succs: list[int] = field(default_factory=list)
    switch: tuple[str, dict[str, int]] | None = None   # (operand, {value|'otherwise': bb})


@dataclass
class MirFn:
    name: str
    sig: str
    debug: dict[str, list[str]] = field(default_factory=dict)
    types: dict[str, str] = field(default_factory=dict)
    blocks: dict[int, Block] = field(default_factory=dict)
    text: str = ""
    debug_order: list[tuple[str, str]] = field(default_factory=list)   # (name, local) in declaration order

    def local(self, name: str) -> str:
        v = self.debug.get(name)
        if not v:
            raise core.AnchorMissing(f"MIR: no local named {name} in {self.name}")
        return v[0]

    def names(self) -> dict[str, str]:
        """local -> the first (outermost) source name bound to it."""
        out: dict[str, str] = {}
        for n, loc in self.debug_order:
            out.setdefault(loc, n)
        return out

    def all_stmts(self):
        for b in self.blocks.values():
            for s in b.stmts:
                yield b, s

    def calls(self):
        for b in self.blocks.values():
            for s in b.stmts:
                if s.op == "call":
                    yield b, s

    def defs(self, local: str) -> list[Stmt]:
        return [s for _, s in self.all_stmts() if s.dest == local]

    # strongly connected components (loops)
    def sccs(self) -> list[set[int]]:
        index: dict[int, int] = {}
        low: dict[int, int] = {}
        stack: list[int] = []
        on: set[int] = set()
        out: list[set[int]] = []
        counter = [0]
        sys.setrecursionlimit(10000)

        def strong(v: int):
            index[v] = low[v] = counter[0]
            counter[0] += 1
            stack.append(v)
            on.add(v)
            for w in self.blocks[v].succs:
                if w not in self.blocks:
                    continue
                if w not in index:
                    strong(w)
                    low[v] = min(low[v], low[w])
                elif w in on:
                    low[v] = min(low[v], index[w])
            if low[v] == index[v]:
                comp = set()
                while True:
                    w = stack.pop()
                    on.discard(w)
                    comp.add(w)
                    if w == v:
                        break
                if len(comp) > 1 or v in self.blocks[v].succs:
                    out.append(comp)

        for v in self.blocks:
            if v not in index:
                strong(v)
        return out


_OPERAND = r"(?:copy |move )?(?:\(\*?_\d+\)|_\d+|\([^()]*(?:\([^()]*\)[^()]*)*\))(?:\.\d+)?|const [^,)]+"


def _split_args(s: str) -> list[str]:
    out, depth, cur = [], 0, ""
    for ch in s:
        if ch in "([{<":
            depth += 1
        elif ch in ")]}>":
            depth -= 1
        if ch == "," and depth == 0:
            out.append(cur.strip())
            cur = ""
        else:
            cur += ch
    if cur.strip():
        out.append(cur.strip())
    return out


def _strip(a: str) -> str:
    a = a.strip()
    for p in ("copy ", "move "):
        if a.startswith(p):
            a = a[len(p):]
    return a


def _parse_call(s: str) -> tuple[str | None, str, str] | None:
    """`[dest = ]callee(args) -> [return: bbN, ...]` with a callee that may itself contain parentheses."""
    i = s.find(") -> [return: bb")
    if i < 0:
        return None
    head = s[:i + 1]
    depth = 0
    j = len(head) - 1
    while j >= 0:
        if head[j] == ")":
            depth += 1
        elif head[j] == "(":
            depth -= 1
            if depth == 0:
                break
        j -= 1
    if j <= 0:
        return None
    pre, args = head[:j], head[j + 1:-1]
    dest = None
    m = re.match(r"^(_\d+|\(.*?\)) = (.*)$", pre)
    if m:
        dest, pre = m.group(1), m.group(2)
    return dest, pre, args


def _parse_stmt(line: str) -> Stmt:
    raw = line
    m = re.match(r"^(\S.*?) = (.*);$", line)
    if not m:
        return Stmt(None, "other", [], raw)
    dest, rv = m.group(1), m.group(2)
    mm = re.match(r"^(\w+)\((.*)\)$", rv)
    if mm and mm.group(1) in BINOPS:
        return Stmt(dest, mm.group(1), [_strip(a) for a in _split_args(mm.group(2))], raw)
    if mm and mm.group(1) in ("Neg", "Not"):
        return Stmt(dest, mm.group(1).lower(), [_strip(mm.group(2))], raw)
    if rv.startswith("discriminant("):
        return Stmt(dest, "discr", [rv[len("discriminant("):-1]], raw)
    mc = re.match(r"^(.*) as (\S+) \((\w+)\)$", rv)
    if mc:
        return Stmt(dest, "cast", [_strip(mc.group(1)), mc.group(2), mc.group(3)], raw)
    if re.match(r"^(copy |move |const )", rv) or re.match(r"^_\d+$", rv):
        return Stmt(dest, "use", [_strip(rv)], raw)
    return Stmt(dest, "other", [rv], raw)


def parse(text: str) -> dict[str, MirFn]:
    fns: dict[str, MirFn] = {}
    cur: MirFn | None = None
    blk: Block | None = None
    lines = text.splitlines()
    i = 0
    while i < len(lines):
        ln = lines[i]
        mc = re.match(r"^const (.+?::promoted\[\d+\]): (.+) = \{$", ln)
        if mc:
            # a promoted constant of a function: kept as a function without parameters (its body computes _0)
            cur = MirFn(mc.group(1), ln)
            fns[cur.name] = cur
            blk = None
            i += 1
            continue
        mk = re.match(r"^const ([A-Za-z_][\w:]*): (.+) = \{$", ln)
        if mk and "promoted[" not in mk.group(1):
            # a constant item whose value is computed by a body (a table literal, a call of a const fn): kept as a function without parameters
            cur = MirFn("const:" + mk.group(1), ln)
            fns.setdefault(cur.name, cur)
            cur = fns[cur.name]
            blk = None
            i += 1
            continue
        m = re.match(r"^fn (.+?)\((.*)\) -> (.+) \{$", ln)
        if m:
            cur = MirFn(m.group(1), ln)
            n = cur.name
            while n in fns:
                n += "'"
            fns[n] = cur
            blk = None
            for am in re.finditer(r"(_\d+): ([^,]+(?:<[^>]*>)?[^,]*)", m.group(2)):
                cur.types[am.group(1)] = am.group(2).strip()
            i += 1
            continue
        if cur is None:
            i += 1
            continue
        if ln == "}":
            cur = None
            i += 1
            continue
        s = ln.strip()
        md = re.match(r"^debug (\w+) => (_\d+)", s)
        if md:
            cur.debug.setdefault(md.group(1), []).append(md.group(2))
            cur.debug_order.append((md.group(1), md.group(2)))
        ml = re.match(r"^let (?:mut )?(_\d+): (.+);$", s)
        if ml:
            cur.types[ml.group(1)] = ml.group(2)
        mb = re.match(r"^bb(\d+)(?: \(cleanup\))?: \{$", s)
        if mb:
            blk = Block(int(mb.group(1)))
            cur.blocks[blk.idx] = blk
            i += 1
            continue
        if blk is not None:
            if s == "}":
                blk = None
            elif s:
                succs = [int(x) for x in re.findall(r"bb(\d+)", s.split("->", 1)[1])] if "->" in s else []
                is_term = ("->" in s and re.search(r"-> (\[|bb\d)", s)) or s in ("return;", "unreachable;", "resume;") \
                    or s.startswith("goto ") or s.startswith("switchInt(")
                if is_term:
                    blk.term = s
                    blk.succs = succs
                    sw = re.match(r"^switchInt\((.*?)\) -> \[(.*)\];$", s)
                    if sw:
                        targets = {}
                        for part in sw.group(2).split(","):
                            k, v = part.strip().split(":")
                            targets[k.strip()] = int(v.strip()[2:])
                        blk.switch = (_strip(sw.group(1)), targets)
                    mcall = _parse_call(s)
                    if mcall and not s.startswith(("switchInt", "assert", "drop", "goto")):
                        blk.stmts.append(Stmt(mcall[0], "call", [_strip(a) for a in _split_args(mcall[2])],
                                              s, callee=mcall[1]))
                    elif s.startswith("assert("):
                        blk.stmts.append(Stmt(None, "assert", [s], s))
                else:
                    blk.stmts.append(_parse_stmt(s))
        i += 1
    return fns


class Mir:
    def __init__(self, path: Path):
        self.path = path
        self.text = path.read_text()
        self.fns = parse(self.text)

    def fn(self, suffix: str) -> MirFn:
        cands = [f for n, f in self.fns.items()
                 if (n == suffix or n.endswith("::" + suffix)) and "{closure" not in n.rsplit("::", 1)[-1]]
        if not cands:
            raise core.AnchorMissing(f"MIR: function {suffix} not found")
        if len(cands) > 1:
            # prefer the non-python wrapper when both helpers::x and python::helpers::x exist
            pref = [f for f in cands if not f.name.startswith("python::")]
            cands = pref or cands
        return cands[0]

    def closures_of(self, suffix: str) -> list[MirFn]:
        return [f for n, f in self.fns.items() if f"::{suffix}::{{closure" in n or n.startswith(f"{suffix}::{{closure")]


_LOADED: dict[str, Mir] = {}


def load() -> Mir:
    key = str(core.REPO)
    if key not in _LOADED:
        _LOADED[key] = Mir(mir_path())
    return _LOADED[key]


INT_TYPES = {"u8", "u16", "u32", "u64", "usize", "i8", "i16", "i32", "i64", "isize", "u128", "i128"}


def const_val(a: str) -> int | None:
    m = re.match(r"^const (-?\d+)_(\w+)$", a)
    return int(m.group(1)) if m else None


if __name__ == "__main__":
    if "--build" in sys.argv:
        try:
            p = mir_path(Path("/repo"))
            print("MIR ready:", p)
        except (MirUnavailable, core.AnchorMissing) as e:
            print("MIR unavailable:", e)
            sys.exit(1)
