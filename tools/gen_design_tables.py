#!/venv/bin/python
"""Regenerates the tables of DESIGN.md section 9 from pvs/selftest/variants.py and seeded/*/meta.json."""
import glob, json, os, re, sys
sys.path.insert(0, os.path.dirname(os.path.dirname(os.path.abspath(__file__))))
sys.dont_write_bytecode = True
from pvs.selftest.variants import VARIANTS
by = {}
for v in VARIANTS:
    by.setdefault(v[1], []).append(v)
lines = []
for prop in sorted(by):
    vs = by[prop]
    fire = [v for v in vs if v[5]]
    quiet = [v for v in vs if not v[5]]
    lines.append(f"**{prop}** ({len(fire)} must fire, {len(quiet)} must stay quiet)  ")
    lines.append(", ".join(f"`{v[0].split('-', 1)[1]}`→{v[5]}" for v in fire) + ("; quiet: " + ", ".join(f"`{v[0].split('-', 1)[1]}`" for v in quiet) if quiet else "") + "\n")
tbl = "\n".join(lines)
seeded = []
for mf in sorted(glob.glob("/verif/seeded/*/meta.json")):
    m = json.load(open(mf))
    seeded.append(f"| `{os.path.basename(os.path.dirname(mf))}` | {m['property']} | {m.get('clause','')[:90]} | {m.get('needs','')[:90]} | {m.get('caught_by','-')} |")
stbl = ("| id | property | clause broken | needs | caught by |\n|---|---|---|---|---|\n" + "\n".join(seeded)) if seeded else "(none yet)"
p = "/verif/DESIGN.md"
s = open(p).read()
s = re.sub(r"<!-- BEGIN-SELFTEST-TABLE -->.*?<!-- END-SELFTEST-TABLE -->", "<!-- BEGIN-SELFTEST-TABLE -->\n" + tbl.replace("\\", "\\\\") + "\n<!-- END-SELFTEST-TABLE -->", s, flags=re.S)
s = re.sub(r"<!-- BEGIN-SEEDED-TABLE -->.*?<!-- END-SEEDED-TABLE -->", "<!-- BEGIN-SEEDED-TABLE -->\n" + stbl.replace("\\", "\\\\") + "\n<!-- END-SEEDED-TABLE -->", s, flags=re.S)
benign = []
for mf in sorted(glob.glob("/verif/benign/*/meta.json")):
    m = json.load(open(mf))
    kind = str(m.get("kind") or "")[:110].replace("|", "/").replace("\n", " ")
    fns = ", ".join(str(x).split("/")[-1] for x in (m.get("functions") or []))[:110].replace("|", "/")
    benign.append(f"| `{os.path.basename(os.path.dirname(mf))}` | {m['property']}{' +' + ','.join(m['also_run_under']) if m.get('also_run_under') else ''} | {fns} | {kind} |")
btbl = ("| id | run under | functions | kind of refactoring |\n|---|---|---|---|\n" + "\n".join(benign)) if benign else "(none yet)"
s = re.sub(r"<!-- BEGIN-BENIGN-TABLE -->.*?<!-- END-BENIGN-TABLE -->", "<!-- BEGIN-BENIGN-TABLE -->\n" + btbl.replace("\\", "\\\\") + "\n<!-- END-BENIGN-TABLE -->", s, flags=re.S)
alt = []
for mf in sorted(glob.glob("/verif/altfix/*/meta.json")):
    m = json.load(open(mf))
    ap = str(m.get("approach") or "")[:150].replace("|", "/").replace("\n", " ")
    alt.append(f"| `{os.path.basename(os.path.dirname(mf))}` | {m.get('subject','')[:75]} | {', '.join(x.split('/')[-1] for x in m.get('files', []))} | {ap} | {len(m.get('run_under') or [])} |")
atbl = ("| id (reverted fix) | defect | files | the other repair | checks replayed |\n|---|---|---|---|---|\n" + "\n".join(alt)) if alt else "(none yet)"
s = re.sub(r"<!-- BEGIN-ALTFIX-TABLE -->.*?<!-- END-ALTFIX-TABLE -->", "<!-- BEGIN-ALTFIX-TABLE -->\n" + atbl.replace("\\", "\\\\") + "\n<!-- END-ALTFIX-TABLE -->", s, flags=re.S)
open(p, "w").write(s)
print("variants:", len(VARIANTS), "seeded:", len(seeded), "benign:", len(benign))
