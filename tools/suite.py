#!/venv/bin/python
"""Run the pinned test-suite on a tree (default /repo) and compare the set of
passing tests with BASELINE.json's stable_pass.  Exit 0 iff every stable_pass
test still passes."""
import json, subprocess, sys, tempfile, os, xml.etree.ElementTree as ET
repo = sys.argv[1] if len(sys.argv) > 1 else "/repo"
env = dict(os.environ)
for a in sys.argv[2:]:
    k, v = a.split("=", 1); env[k] = v
base = json.load(open("/root/.vp/BASELINE.json"))
want = set(base["stable_pass"])
with tempfile.NamedTemporaryFile(suffix=".xml", delete=False) as f:
    out = f.name
subprocess.run(["/venv/bin/python", "-m", "pytest", "-q", "-p", "no:cacheprovider", "--timeout=900",
                "--continue-on-collection-errors", f"--junitxml={out}"], cwd=repo, env=env,
               stdout=subprocess.DEVNULL, stderr=subprocess.DEVNULL)
passed = set()
for tc in ET.parse(out).getroot().iter("testcase"):
    if not any(c.tag in ("failure", "error", "skipped") for c in tc):
        passed.add(f"{tc.get('classname')}::{tc.get('name')}")
os.unlink(out)
missing = sorted(want - passed)
print(f"passed={len(passed)} stable_pass={len(want)} missing={len(missing)} new={len(passed - want)}")
for m in missing[:40]:
    print("  MISSING", m)
sys.exit(1 if missing else 0)
