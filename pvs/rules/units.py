"""E5 / F4: polynomial normal form of integer expressions over named constants
and opaque atoms; helpers for unit / weight checks."""
from __future__ import annotations

import ast
from fractions import Fraction
from typing import Any

from .. import core
from ..core import Unsupported, strip_casts, un

Poly = dict[tuple[str, ...], Fraction]


def _mul(a: Poly, b: Poly) -> Poly:
    out: Poly = {}
    for ma, ca in a.items():
        for mb, cb in b.items():
            m = tuple(sorted(ma + mb))
            out[m] = out.get(m, 0) + ca * cb
    return {m: c for m, c in out.items() if c != 0}


def _add(a: Poly, b: Poly, sign: int = 1) -> Poly:
    out = dict(a)
    for m, c in b.items():
        out[m] = out.get(m, 0) + sign * c
    return {m: c for m, c in out.items() if c != 0}


def poly(node: ast.AST, m: core.Mod | None = None, cls: str | None = None,
         env: dict[str, Any] | None = None, atoms_ok: bool = True) -> Poly:
    """Normal form.  Names that fold to numbers (module / class constants, env)
    become coefficients; everything non-arithmetic becomes an opaque atom."""
    node = strip_casts(node)
    env = env or {}

    def rec(n: ast.AST) -> Poly:
        if isinstance(n, ast.Constant) and isinstance(n.value, (int, float)) and not isinstance(n.value, bool):
            return {(): Fraction(n.value)} if n.value != 0 else {}
        if isinstance(n, ast.UnaryOp) and isinstance(n.op, ast.USub):
            return _add({}, rec(n.operand), -1)
        if isinstance(n, ast.UnaryOp) and isinstance(n.op, ast.UAdd):
            return rec(n.operand)
        if isinstance(n, ast.BinOp):
            if isinstance(n.op, ast.Add):
                return _add(rec(n.left), rec(n.right))
            if isinstance(n.op, ast.Sub):
                return _add(rec(n.left), rec(n.right), -1)
            if isinstance(n.op, ast.Mult):
                return _mul(rec(n.left), rec(n.right))
            if isinstance(n.op, (ast.FloorDiv, ast.Mod, ast.Div)):
                l, r = rec(n.left), rec(n.right)
                opn = {ast.FloorDiv: "fdiv", ast.Mod: "mod", ast.Div: "div"}[type(n.op)]
                if isinstance(n.op, ast.Div) and set(r) == {()}:
                    k = r[()]
                    return {mm: c / k for mm, c in l.items()}
                return {(f"{opn}({show(l)}, {show(r)})",): Fraction(1)}
        if isinstance(n, ast.Name):
            if n.id in env:
                v = env[n.id]
                if isinstance(v, (int, float)) and not isinstance(v, bool):
                    return {(): Fraction(v)} if v != 0 else {}
                if isinstance(v, ast.AST):
                    return rec(v)
            if m is not None:
                try:
                    v = core.fold_name(n.id, m, cls)
                    if isinstance(v, (int, float)) and not isinstance(v, bool):
                        return {(): Fraction(v)} if v != 0 else {}
                except (core.NotConst, core.AnchorMissing):
                    pass
        if isinstance(n, ast.Call) and core.dotted(n.func) in ("int",) and len(n.args) == 1 and not n.keywords:
            inner = rec(n.args[0])
            return {(f"int({show(inner)})",): Fraction(1)}
        if not atoms_ok:
            raise Unsupported(f"non-arithmetic term `{un(n)}`")
        return {(un(n),): Fraction(1)}

    return rec(node)


def show(p: Poly) -> str:
    if not p:
        return "0"
    parts = []
    for mono in sorted(p, key=lambda t: (len(t), t)):
        c = p[mono]
        cs = str(c.numerator) if c.denominator == 1 else str(c)
        if not mono:
            parts.append(cs)
        elif c == 1:
            parts.append("*".join(mono))
        else:
            parts.append(cs + "*" + "*".join(mono))
    return " + ".join(parts)


def linear_terms(node: ast.AST, m: core.Mod | None = None, cls: str | None = None) -> list[tuple[str, str, int]]:
    """expr must be sum of c * <base>.<attr>; returns (base, attr, c)."""
    p = poly(node, m, cls)
    out = []
    for mono, c in p.items():
        if len(mono) != 1 or "." not in mono[0] or c.denominator != 1:
            raise Unsupported(f"term {mono} (coefficient {c}) is not c*<value>.<component>")
        base, attr = mono[0].rsplit(".", 1)
        if base.startswith("(") and base.endswith(")"):
            base = base[1:-1]
        out.append((base, attr, int(c)))
    return out


def weights(node: ast.AST, m: core.Mod | None = None, cls: str | None = None,
            env: dict[str, Any] | None = None) -> dict[str, Fraction]:
    """Linear form: atom -> coefficient ('' for the constant term).  Raises
    Unsupported when a monomial is not linear."""
    p = poly(node, m, cls, env)
    out: dict[str, Fraction] = {}
    for mono, c in p.items():
        if len(mono) > 1:
            raise Unsupported(f"non-linear term {'*'.join(mono)}")
        out[mono[0] if mono else ""] = c
    return out


# ---------------------------------------------------------------------------
# partial reads of a timedelta

_TD_PARTS = ("days", "seconds", "microseconds")


def _is_timedelta(e: ast.AST, defs: dict[str, list[ast.expr]], depth: int = 0) -> bool | None:
    """True: provably a datetime.timedelta; None: unknown"""
    e = core.strip_casts(e)
    if depth > 6:
        return None
    if isinstance(e, ast.Call):
        f = core.nun(e.func)
        if f.endswith(".utcoffset") or f.endswith(".dst") or f.split(".")[-1] == "timedelta":
            return True
        if f == "abs" and len(e.args) == 1:
            return _is_timedelta(e.args[0], defs, depth + 1)
        return None
    if isinstance(e, ast.BinOp) and isinstance(e.op, (ast.Add, ast.Sub)):
        a, b = _is_timedelta(e.left, defs, depth + 1), _is_timedelta(e.right, defs, depth + 1)
        return True if (a and b) else None
    if isinstance(e, ast.UnaryOp) and isinstance(e.op, (ast.USub, ast.UAdd)):
        return _is_timedelta(e.operand, defs, depth + 1)
    if isinstance(e, ast.IfExp):
        a, b = _is_timedelta(e.body, defs, depth + 1), _is_timedelta(e.orelse, defs, depth + 1)
        return True if (a and b) else None
    if isinstance(e, ast.Name) and e.id in defs:
        rs = [_is_timedelta(v, defs, depth + 1) for v in defs[e.id]]
        return True if rs and all(rs) else None
    return None


def partial_timedelta_reads(ctx, rule: str, m: core.Mod, quals: list[str], why: str) -> int:
    """A timedelta has three slots (days, seconds, microseconds); `.seconds` alone is its value modulo one day and is
    never negative.  Inside the listed functions every read of one slot of a provable timedelta must be accompanied, in
    the same statement, by a read of `.days` of the same receiver (the accepted idiom is days*86400 + seconds) or stand
    under a test of `.days`; a lone `.seconds` is reported."""
    n = 0
    for q in quals:
        fn = m.func(q)
        defs: dict[str, list[ast.expr]] = {}
        for st in core.walk_fn(fn):
            if isinstance(st, ast.Assign) and len(st.targets) == 1 and isinstance(st.targets[0], ast.Name):
                defs.setdefault(st.targets[0].id, []).append(st.value)
            elif isinstance(st, ast.AnnAssign) and isinstance(st.target, ast.Name) and st.value is not None:
                defs.setdefault(st.target.id, []).append(st.value)
        reads = [a for a in core.walk_fn(fn) if isinstance(a, ast.Attribute) and a.attr in _TD_PARTS and isinstance(a.ctx, ast.Load)]
        bad = 0
        for a in reads:
            if a.attr != "seconds":
                continue
            td = _is_timedelta(a.value, defs)
            if not td:
                continue
            recv = core.nun(a.value)
            stmt = a
            while not isinstance(stmt, ast.stmt):
                stmt = stmt._parent
            paired = any(isinstance(x, ast.Attribute) and x.attr == "days" and core.nun(x.value) == recv for x in ast.walk(stmt))
            if not paired:
                p = stmt
                while p is not fn and not paired:
                    p = p._parent
                    if isinstance(p, (ast.If, ast.IfExp)):
                        paired = any(isinstance(x, ast.Attribute) and x.attr == "days" and core.nun(x.value) == recv for x in ast.walk(p.test))
                # an earlier always-exit guard on .days (`if delta.days: raise`)
                for st in core.walk_fn(fn):
                    if isinstance(st, ast.If) and st.lineno < stmt.lineno and st.body and isinstance(st.body[-1], (ast.Raise, ast.Return)) \
                            and any(isinstance(x, ast.Attribute) and x.attr == "days" and core.nun(x.value) == recv for x in ast.walk(st.test)):
                        paired = True
            if True:
                n += 1
                bad += 0 if paired else 1
                ctx.ob(rule, f"{q}/{recv}.{a.attr}", paired,
                       f"`{core.nun(stmt)[:90]}` reads only .{a.attr} of the timedelta `{recv}`: the whole days are dropped and a "
                       f"negative value wraps to 86400 - x; {why}", m.loc(a))
        ctx.ob(rule, f"{q}/scan", bad == 0, f"{len(reads)} timedelta slot reads inspected", m.loc(fn), nontrivial=False)
        n += 1
    return n
