"""Seeded one-site variants (id, property, file, old, new, expected rule | None[, count])."""
DT = "src/pendulum/datetime.py"
TZ = "src/pendulum/tz/timezone.py"
INIT = "src/pendulum/__init__.py"

VARIANTS = [
    ("C01-clean", "C01", None, "", "", None),
    ("C01-astz-replace", "C01", TZ, "return cast(_DT, dt.astimezone(self))\n\n    def datetime(\n        self,\n        year: int,\n        month: int,\n        day: int,\n        hour: int = 0,\n        minute: int = 0,\n        second: int = 0,\n        microsecond: int = 0,\n    ) -> _datetime.datetime:\n        \"\"\"",
     "return cast(_DT, dt.replace(tzinfo=self))\n\n    def datetime(\n        self,\n        year: int,\n        month: int,\n        day: int,\n        hour: int = 0,\n        minute: int = 0,\n        second: int = 0,\n        microsecond: int = 0,\n    ) -> _datetime.datetime:\n        \"\"\"", "FUNNEL.aware"),
    ("C01-astimezone-dropfold", "C01", DT, "            fold=dt.fold,\n            tzinfo=dt.tzinfo,\n", "            tzinfo=dt.tzinfo,\n", "RECON.state"),
    ("C01-fromutc-sub", "C01", TZ, "_datetime.datetime.__add__(dt, self._utcoffset)", "_datetime.datetime.__sub__(dt, self._utcoffset)", "TZINFO.fromutc"),
    ("C01-add-plus-offset", "C01", DT, "current_dt = current_dt - offset", "current_dt = current_dt + offset", "OFFSET.add-utc-frame"),
    ("C01-secs-per-hour", "C01", DT, "return delta.days * SECONDS_PER_DAY + delta.seconds", "return delta.days * SECONDS_PER_MINUTE * MINUTES_PER_HOUR + delta.seconds", "UNITS.int_timestamp"),
    ("C01-in_tz-noforward", "C01", DT, "        return self.in_timezone(tz)\n", "        return self.replace(tzinfo=pendulum._safe_timezone(tz))\n", "FUNNEL.forward"),
    ("C01-in_timezone-swap-min-sec", "C01", DT, "            dt.minute,\n            dt.second,\n            dt.microsecond,\n            fold=dt.fold,\n            tzinfo=dt.tzinfo,", "            dt.second,\n            dt.minute,\n            dt.microsecond,\n            fold=dt.fold,\n            tzinfo=dt.tzinfo,", "RECON.slot"),
    ("C01-instance-no-astz", "C01", DT, "            dt = dt.astimezone(tz)\n\n        return cls.create(", "            pass\n\n        return cls.create(", "AWARE-INSTANT.kinds"),
    ("C01-from_timestamp-local", "C01", INIT, "dt = _datetime.datetime.utcfromtimestamp(timestamp)", "dt = _datetime.datetime.fromtimestamp(timestamp)", "OFFSET.from_timestamp"),
    ("C01-dst-nonzero", "C01", TZ, "        return _datetime.timedelta()\n", "        return self._utcoffset\n", "TZINFO.dst"),
    ("C01-utcoffset-minutes", "C01", TZ, "self._utcoffset = _datetime.timedelta(seconds=offset)", "self._utcoffset = _datetime.timedelta(minutes=offset)", "TZINFO.utcoffset"),
]
