"""
dt - Duration must subtract the calendar components of the duration,
like dt.subtract(...) and dt + (-duration) do.
"""
import datetime
import sys

from zoneinfo import ZoneInfo

import pendulum

failures = []
paris = ZoneInfo("Europe/Paris")
utc = datetime.timezone.utc


def same(label, got, expected):
    """got: pendulum DateTime, expected: aware stdlib datetime (same wall clock + offset)"""
    g = (got.year, got.month, got.day, got.hour, got.minute, got.second,
         got.microsecond, got.utcoffset())
    e = (expected.year, expected.month, expected.day, expected.hour, expected.minute,
         expected.second, expected.microsecond, expected.utcoffset())
    if g != e:
        failures.append(f"{label}: got {got.isoformat()}, expected {expected.isoformat()}")


def wall(dt, **kw):
    """calendar-day arithmetic of the standard library: on the wall clock"""
    return dt.replace(tzinfo=None) - datetime.timedelta(**kw)


def elapsed(dt, **kw):
    """elapsed-time arithmetic of the standard library: through UTC"""
    return (dt.astimezone(utc) - datetime.timedelta(**kw)).astimezone(paris)


# 1. the example of the report: one calendar day back over the DST change
dt = pendulum.datetime(2013, 3, 31, 12, 0, tz="Europe/Paris")
ndt = datetime.datetime(2013, 3, 31, 12, 0, tzinfo=paris)
same("12:00 - 1 day", dt - pendulum.duration(days=1),
     wall(ndt, days=1).replace(tzinfo=paris))
same("12:00 - 1 week 3 hours", dt - pendulum.duration(weeks=1, hours=3),
     wall(ndt, weeks=1, hours=3).replace(tzinfo=paris))
# hours only: elapsed time (24 h before 12:00 CEST is 11:00 CET)
same("12:00 - 24 hours", dt - pendulum.duration(hours=24), elapsed(ndt, hours=24))

# the same in autumn
dt2 = pendulum.datetime(2013, 10, 27, 12, 0, tz="Europe/Paris")
ndt2 = datetime.datetime(2013, 10, 27, 12, 0, tzinfo=paris)
same("autumn - 1 day", dt2 - pendulum.duration(days=1),
     wall(ndt2, days=1).replace(tzinfo=paris))
same("autumn - 36 hours", dt2 - pendulum.duration(hours=36), elapsed(ndt2, hours=36))

# 2. consistency with subtract() and with adding the negated duration
for start in (dt, dt2, pendulum.datetime(2020, 3, 31, tz="UTC"),
              pendulum.naive(2020, 3, 31, 5)):
    for kw in (
        dict(days=1),
        dict(weeks=2, hours=5),
        dict(years=1, months=1, days=2, seconds=5),
        dict(months=1, days=1, minutes=90, microseconds=7),
        dict(days=-3, hours=-2),
    ):
        d = pendulum.duration(**kw)
        a = start - d
        b = start.subtract(**kw)
        c = start + (-d)
        if not (a.isoformat() == b.isoformat() == c.isoformat()):
            failures.append(
                f"{start} {kw}: dt - d = {a.isoformat()}, subtract() = {b.isoformat()},"
                f" dt + (-d) = {c.isoformat()}"
            )

# 3. an Interval is subtracted once, not with its years and months twice
begin = pendulum.datetime(2020, 1, 15, 8, 0)
end = pendulum.datetime(2021, 3, 20, 9, 30)
interval = end - begin  # 1 year 2 months 5 days 1 hour 30 minutes
same("end - interval", end - interval,
     datetime.datetime(2020, 1, 15, 8, 0, tzinfo=utc))
same("other - interval", pendulum.datetime(2022, 6, 30, 12) - interval,
     datetime.datetime(2021, 4, 25, 10, 30, tzinfo=utc))

# 4. native timedeltas are elapsed time, as before
same("12:00 - timedelta(days=1)", dt - datetime.timedelta(days=1), elapsed(ndt, days=1))

if failures:
    print("\n".join(failures))
    sys.exit(1)
print("ok")
