"""copy.deepcopy() of an Interval works and yields an equal, independent Interval.
Expected lengths are computed with the standard library."""
import copy
import datetime
import sys

import pendulum

failures = []


def check(label, cond, detail=""):
    if not cond:
        failures.append(f"{label} {detail}")


paris = pendulum.timezone("Europe/Paris")
a = pendulum.datetime(2020, 1, 1, 12, 0, 0, tz=paris)
b = pendulum.datetime(2020, 3, 29, 6, 30, 0, tz=paris)  # after the DST change
std = datetime.datetime(2020, 3, 29, 4, 30, tzinfo=datetime.timezone.utc) - datetime.datetime(
    2020, 1, 1, 11, 0, tzinfo=datetime.timezone.utc
)

cases = {
    "forward": (pendulum.interval(a, b), a, b, std),
    "inverted": (pendulum.interval(b, a), b, a, -std),
    "absolute": (pendulum.interval(b, a, absolute=True), a, b, std),
    "dates": (
        pendulum.interval(pendulum.date(2020, 1, 31), pendulum.date(2021, 3, 1)),
        pendulum.date(2020, 1, 31),
        pendulum.date(2021, 3, 1),
        datetime.date(2021, 3, 1) - datetime.date(2020, 1, 31),
    ),
    "naive": (
        pendulum.interval(pendulum.naive(2020, 1, 1), pendulum.naive(2020, 1, 2, 3, 4, 5, 6)),
        pendulum.naive(2020, 1, 1),
        pendulum.naive(2020, 1, 2, 3, 4, 5, 6),
        datetime.timedelta(days=1, hours=3, minutes=4, seconds=5, microseconds=6),
    ),
}

for name, (interval, start, end, length) in cases.items():
    try:
        clone = copy.deepcopy(interval)
    except BaseException as e:
        failures.append(f"{name}: deepcopy raised {type(e).__name__}: {e}")
        continue
    check(name, type(clone) is type(interval), f"type {type(clone)}")
    check(name, clone is not interval, "same object")
    check(name, clone == interval and hash(clone) == hash(interval), f"{clone!r} != {interval!r}")
    check(name, (clone.start, clone.end) == (start, end), f"end points {clone.start!r} {clone.end!r}")
    check(name, type(clone.start) is type(start) and type(clone.end) is type(end), "end point types")
    check(name, clone.as_timedelta() == length, f"length {clone.as_timedelta()} != {length}")
    check(name, clone._absolute == interval._absolute and clone._invert == interval._invert, "flags")
    check(
        name,
        (clone.years, clone.months, clone.weeks, clone.remaining_days, clone.hours, clone.minutes,
         clone.remaining_seconds, clone.microseconds)
        == (interval.years, interval.months, interval.weeks, interval.remaining_days, interval.hours,
            interval.minutes, interval.remaining_seconds, interval.microseconds),
        "components",
    )

# nested in a container, shared references stay shared (memo is honoured)
i = cases["forward"][0]
box = copy.deepcopy({"x": i, "y": [i]}) if not failures else None
if box is not None:
    check("container", box["x"] == i and box["x"] is box["y"][0] and box["x"] is not i, repr(box))

# a plain Duration is still deep-copied component-wise
d = pendulum.duration(years=1, months=2, days=3, seconds=4)
dc = copy.deepcopy(d)
check("duration", dc == d and (dc.years, dc.months, dc.remaining_days, dc.remaining_seconds) == (1, 2, 3, 4), repr(dc))

for f in failures:
    print("FAIL", f)
print("ok" if not failures else f"{len(failures)} failure(s)")
sys.exit(1 if failures else 0)
