#!/venv/bin/python
"""stores the confirmed round-8 seeds as /verif/seeded/Cxx-18, Cxx-19"""
import json, os, shutil
first = {"C01-2": "missed by every check", "C05-2": "missed by every check (LENGTH.tabulated outside its interpreter, the shape rules behind it without a verdict)", "C06-1": "missed by every check (RSDIFF.tabulated outside the MIR evaluator: div_euclid)",
         "C06-2": "missed by every check", "C08-2": "missed by C08 (GETTERS.tabulated, which decides it, ran under C15 / C16 only and was outside its interpreter there)", "C11-2": "missed by every check (the funnel step gave up on a starred call)",
         "C12-1": "missed by every check (UNIT.tabulated outside its interpreter)", "C13-2": "missed by every check", "C16-1": "missed by every check", "C18-2": "missed by every check",
         "C19-2": "missed by every check (RANGE.tabulated outside its interpreter)", "C20-2": "missed by every check (TIME.tabulated outside its interpreter)", "C07-1": "caught by C01 / C02 / C11 / C13 / C17 (PARSE.tabulated) only"}
n = 0
for i in range(1, 21):
    p = f"C{i:02d}"
    for k in (1, 2):
        d = f"/tmp/wt/Y{i:02d}/out/{k}"
        sid = f"{p}-{k}"
        conf = json.load(open(f"/tmp/wt/results8/{sid}.json"))
        chk = json.load(open(f"/tmp/wt/results8q/{sid}.json"))
        ok = conf.get("demo_passes_without") and conf.get("demo_fails_with") and conf.get("suite_passes_with")
        if not ok:
            print(sid, "NOT CONFIRMED"); continue
        am = json.load(open(f"{d}/meta.json"))
        dst = f"/verif/seeded/{p}-{k + 17}"
        os.makedirs(dst, exist_ok=True)
        shutil.copy(f"{d}/patch.diff", f"{dst}/patch.diff")
        shutil.copy(f"{d}/demo.py", f"{dst}/demo.py")
        fired = chk.get("checks_fired", {})
        caught = "; ".join(f"{q}: " + "; ".join(v["rules"][:2]) for q, v in fired.items() if q != "_unverified" and v.get("rc") == 1)
        meta = {"property": p, "round": 8, "clause": am.get("clause"), "needs": am.get("needs"), "files": am.get("files"), "env": am.get("env") or {},
                "author": "independent sub-agent given only the property text, the list of earlier ideas to avoid, and a private worktree (nothing from /verif)",
                "confirmed_here": {"suite_still_at_baseline_with_change": bool(conf.get("suite_passes_with")), "demo_fails_with_change": bool(conf.get("demo_fails_with")),
                                   "demo_passes_without_change": bool(conf.get("demo_passes_without")),
                                   "how": "tools/eval_seed.py: scratch worktree /tmp/wt/verify at 40e2e39 (git apply patch.diff; Rust changes: extension rebuilt), /tmp/wt/suite_check.py (pinned suite vs BASELINE stable_pass), demo.py run with PYTHONPATH=<worktree>/src and the seed's env before and after"},
                "first_evaluation": first.get(sid, "caught by its own property"),
                "checks_run": "all 20 `./check Cxx --tier quick --repo <scratch copy of /repo sources + patch>`",
                "caught_by": caught, "caught_by_own_property": bool(chk.get("caught_by_own_property"))}
        json.dump(meta, open(f"{dst}/meta.json", "w"), indent=1)
        n += 1
print("stored", n)
