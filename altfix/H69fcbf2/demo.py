"""The length of an Interval must be exact to the microsecond whatever the
span, like the subtraction of the native datetimes (reference)."""
import random
import sys
from datetime import datetime, timedelta, timezone

import pendulum

failures = []


def native(d):
    return datetime(
        d.year, d.month, d.day, d.hour, d.minute, d.second, d.microsecond,
        tzinfo=timezone.utc,
    )


def check_pair(a, b):
    ref = native(b) - native(a)  # exact
    ref_us = ref // timedelta(microseconds=1)
    interval = b - a
    sign = -1 if ref_us < 0 else 1
    us = abs(ref_us)
    # seconds within the minute and microseconds, signed like the interval
    expected = (us // 10**6 % 60 * sign, us % 10**6 * sign)
    got = (interval.remaining_seconds, interval.microseconds)
    if got != expected:
        failures.append(f"{a} -> {b}: (s, us) = {got}, expected {expected}")
    # the interval as a timedelta
    native_parts = (
        timedelta.days.__get__(interval),
        timedelta.seconds.__get__(interval),
        timedelta.microseconds.__get__(interval),
    )
    if native_parts != (ref.days, ref.seconds, ref.microseconds):
        failures.append(f"{a} -> {b}: timedelta value {native_parts}, expected {ref!r}")
    # the calendar decomposition (years, months, ...) is taken forwards from
    # the earlier datetime: adding it back to that one must give the later one
    if a <= b and a + interval != b:
        failures.append(f"{a} + ({b} - {a}) = {a + interval}")


# the reported pair, hand-computed: 548029 days 13:14:15.999998
a = pendulum.DateTime(1000, 1, 1, 0, 0, 0, 1, tzinfo=pendulum.UTC)
b = pendulum.DateTime(2500, 6, 15, 13, 14, 15, 999999, tzinfo=pendulum.UTC)
i = b - a
if (i.in_days(), i.hours, i.minutes, i.remaining_seconds, i.microseconds) != (
    548029, 13, 14, 15, 999998,
):
    failures.append(
        "reported pair: "
        f"{(i.in_days(), i.hours, i.minutes, i.remaining_seconds, i.microseconds)}"
    )
check_pair(a, b)
check_pair(b, a)

# the widest span there is
lo = pendulum.DateTime(1, 1, 1, 0, 0, 0, 0, tzinfo=pendulum.UTC)
hi = pendulum.DateTime(9999, 12, 31, 23, 59, 59, 999999, tzinfo=pendulum.UTC)
check_pair(lo, hi)
check_pair(hi, lo)

# random pairs over the whole range, short and long spans
rng = random.Random(20240229)
span = (native(hi) - native(lo)) // timedelta(microseconds=1)
for _ in range(400):
    x = native(lo) + timedelta(microseconds=rng.randrange(span + 1))
    y = native(lo) + timedelta(microseconds=rng.randrange(span + 1))
    check_pair(pendulum.instance(x), pendulum.instance(y))
for _ in range(100):  # less than a century apart
    x = native(lo) + timedelta(microseconds=rng.randrange(span - 10**16))
    y = x + timedelta(microseconds=rng.randrange(3 * 10**15))
    check_pair(pendulum.instance(x), pendulum.instance(y))

for f in failures[:15]:
    print("FAIL", f)
print("failures:", len(failures))
sys.exit(1 if failures else 0)
