"""parse() must report numbers that do not fit a timedelta/date as ParserError (a ValueError),
never as OverflowError.  Valid neighbours must still parse to the hand-computed values."""
import datetime
import sys

import pendulum
from pendulum.parsing.exceptions import ParserError

failures = []

too_large = [
    ("P99999999999D", {}),
    ("P99999999999W", {}),
    ("PT99999999999999999H", {}),
    ("2020-01-01T00:00:00/P999999999D", {}),
    ("P999999999D/2020-01-01T00:00:00", {}),
    ("2020-01-01T00:00:00/PT99999999999999H", {}),
    ("99999999999999999999", {"strict": False}),  # dateutil: OverflowError
    ("P99999999999D", {"strict": False}),
]
for text, options in too_large:
    try:
        value = pendulum.parse(text, **options)
    except ParserError as e:
        assert isinstance(e, ValueError)
    except BaseException as e:
        failures.append(f"{text!r} {options}: {type(e).__name__}: {e}")
    else:
        failures.append(f"{text!r} {options}: returned {value!r}")

# still fine: values that do fit
d = pendulum.parse("P999999D")
if d.total_seconds() != datetime.timedelta(days=999999).total_seconds():
    failures.append(f"P999999D -> {d!r}")
i = pendulum.parse("2020-01-01T00:00:00/P1000D")
expected_end = datetime.datetime(2020, 1, 1, tzinfo=datetime.timezone.utc) + datetime.timedelta(days=1000)
if i.end != expected_end or i.start != datetime.datetime(2020, 1, 1, tzinfo=datetime.timezone.utc):
    failures.append(f"interval -> {i!r}")

for f in failures:
    print("FAIL", f)
print("ok" if not failures else f"{len(failures)} failure(s)")
sys.exit(1 if failures else 0)
