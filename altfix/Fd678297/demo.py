"""ISO 8601 durations: every designator may appear at most once, in the order
Y M D [T] H M S, and the week form (PnW) stands alone -- whatever the values.
The reference below is a stand-alone (standard library only) statement of that
grammar; accepted strings are also checked against hand-computed values."""
import re
import sys

import pendulum
from pendulum.parsing.exceptions import ParserError

NUM = r"\d+(?:[.,]\d+)?"
GRAMMAR = re.compile(
    rf"^P(?:{NUM}W|(?:{NUM}Y)?(?:{NUM}M)?(?:{NUM}D)?(?:T(?:{NUM}H)?(?:{NUM}M)?(?:{NUM}S)?)?)$"
)

INVALID = [
    # out of order with a zero value
    "PT0M1H", "PT0S1H", "PT0S1M", "P0D1Y", "P0D1M", "P0M1Y", "PT0M0H",
    # repeated designators
    "PT1H1H", "PT1M1M", "PT1S1S", "P1D1D", "P1Y1Y", "P1M1M", "P1W1W", "PT0H0H",
    # weeks combined with anything else
    "P1WT1H", "P1WT0S", "P0W1D", "P1D1W", "P0Y1W", "P0D1W", "P1W1Y",
    # out of order with non-zero values (was already rejected)
    "PT1M1H", "P1D1Y", "PT1S1M",
]

VALID = {
    # text: (years, months, weeks, remaining_days, hours, minutes, remaining_seconds, microseconds)
    "P1Y2M3DT4H5M6S": (1, 2, 0, 3, 4, 5, 6, 0),
    "P0Y0M0DT0H0M0S": (0, 0, 0, 0, 0, 0, 0, 0),
    "P0Y1M": (0, 1, 0, 0, 0, 0, 0, 0),
    "P0DT1H": (0, 0, 0, 0, 1, 0, 0, 0),
    "PT0H1M": (0, 0, 0, 0, 0, 1, 0, 0),
    "PT0H0M1S": (0, 0, 0, 0, 0, 0, 1, 0),
    "P1YT1S": (1, 0, 0, 0, 0, 0, 1, 0),
    "P1MT1M": (0, 1, 0, 0, 0, 1, 0, 0),
    "P2W": (0, 0, 2, 0, 0, 0, 0, 0),
    "P0W": (0, 0, 0, 0, 0, 0, 0, 0),
    "P1DT1.5H": (0, 0, 0, 1, 1, 30, 0, 0),
    "PT1H1.5M": (0, 0, 0, 0, 1, 1, 30, 0),
    "PT1M1.5S": (0, 0, 0, 0, 0, 1, 1, 500000),
}

failed = False

for text in INVALID:
    assert not GRAMMAR.match(text), text
    try:
        got = pendulum.parse(text)
    except ParserError:
        continue
    failed = True
    print(f"FAIL {text}: accepted as {got!r}, expected ParserError")

for text, expected in VALID.items():
    assert GRAMMAR.match(text), text
    try:
        d = pendulum.parse(text)
    except ParserError as e:
        failed = True
        print(f"FAIL {text}: rejected ({e}), expected {expected}")
        continue
    got = (d.years, d.months, d.weeks, d.remaining_days, d.hours, d.minutes,
           d.remaining_seconds, d.microseconds)
    if got != expected:
        failed = True
        print(f"FAIL {text}: got {got}, expected {expected}")

if failed:
    sys.exit(1)
print("ok")
