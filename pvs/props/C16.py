"""C16 — weekday navigation lands on the right day inside the right unit."""
from __future__ import annotations

import ast
import re

from .. import core
from ..core import nun, pmod
from ..rules import template as T

EXPLANATION = (
    "Decided statically: (1) next()/previous() (DateTime and Date): default weekday, both bounds of the "
    "validation, one unconditional +-1 day step before the `while dt.day_of_week != target` loop (strictly "
    "later/earlier, 1-7 days), same direction in both steps (add for next, subtract for previous), start value "
    "self iff keep_time else start_of('day'); (2) the _first_of_/_last_of_/_nth_of_ bodies of DateTime and Date "
    "reduce to one reference shape per unit after the legitimate deltas (start_of('day') wrappers, on/set/replace, "
    "the month-key format string): nth == 1 shortcut, range(nth - (1 if first.day_of_week == dow else 0)), "
    "escape test per unit, result fields; (3) calendar.monthcalendar pairing: first uses rows 0|1, last rows "
    "-1|-2, column = weekday with Monday == 0; quarter bounds q*3-2 / q*3, year bounds 1 / MONTHS_PER_YEAR; "
    "(4) dispatch lists are ['month','quarter','year'] for first/last/nth and every listed unit has its three "
    "helpers; nth_of raises PendulumException exactly when the helper returned nothing. A deviation in a "
    "constant, operator or called method is a violation; a restructuring that keeps them is reported as "
    "UNVERIFIED. NOT decided: that the n-th loop lands on the right date for all 28x7x7 month shapes."
    " Also: building nth_of's PendulumException reads no attribute from the bare weekday parameter (a plain int is accepted everywhere else)."
    " As built: CALENDAR.tabulated runs next/previous/first_of/last_of/nth_of and every helper they reach with the checker's interpreter in the closed calendar world of rules/calstub.py (real dates from the standard library; set/add/start_of('day')/create as primitives) over every month shape, the quarters of a common and a leap year, all weekdays, n past the end of the unit and - for DateTime - skipped / repeated midnights of the instance's day, the target day and its neighbours for both folds: this decides the clause listed as NOT decided above; the shape rules (1)-(4) only decide for code outside the interpreter."
)

VALIDATE = ["if day_of_week is None:\n    day_of_week = self.day_of_week",
            "if day_of_week < WeekDay.MONDAY or day_of_week > WeekDay.SUNDAY:\n    raise ValueError('Invalid day of week')"]


OCC: dict[tuple[str, str], bool | None] = {}


def _month_shapes():
    """one (year, month) per month shape: 28-31 days x 7 starting weekdays"""
    import calendar
    seen = {}
    for y in range(2015, 2045):
        for mo in range(1, 13):
            first, n = calendar.monthrange(y, mo)
            seen.setdefault((n, first), (y, mo))
    return sorted(seen.values())


def _occurrences(d0, d1, wd):
    import datetime as _dt
    out, d = [], d0
    while d <= d1:
        if wd is None or d.weekday() == wd:
            out.append(d)
        if d == _dt.date.max:
            break
        d += _dt.timedelta(days=1)
    return out


def _unit_bounds(d, unit):
    import calendar
    import datetime as _dt
    if unit == "month":
        return d.replace(day=1), d.replace(day=calendar.monthrange(d.year, d.month)[1])
    if unit == "quarter":
        q = (d.month - 1) // 3
        return _dt.date(d.year, q * 3 + 1, 1), _dt.date(d.year, q * 3 + 3, calendar.monthrange(d.year, q * 3 + 3)[1])
    return _dt.date(d.year, 1, 1), _dt.date(d.year, 12, 31)


def _calendar_tabulate(ctx, cls: str) -> None:
    """next / previous / first_of / last_of / nth_of decided on values: the methods (and every private helper they reach) are
    run by the checker's interpreter in the closed calendar world of rules/calstub.py - real dates from the standard
    library, the primitives set/add/start_of('day')/create with their established semantics - over every month shape
    (28-31 days x 7 starting weekdays), every quarter of common and leap years, all weekdays, n up to past the end of the
    unit, and, for DateTime, scenarios where the midnight of the starting day, of the target day or of a neighbouring day is
    skipped or repeated, for both folds and an early / midday time of the instance.  The result must be the date the
    property names (the checker's own count over datetime.date), at the first instant of that day (first occurrence when
    repeated) unless keep_time, and nth_of must raise exactly when the unit holds fewer occurrences."""
    import datetime as _dt
    from ..rules import calstub, minieval
    m = pmod(core.CLASS_HOME[cls])
    extra = pmod("date").methods("Date") if cls == "DateTime" else None
    DAY = _dt.timedelta(days=1)
    is_dt = cls == "DateTime"
    stats = {"n": 0}
    deep = ctx.tier == "thorough"       # quick: every month shape and weekday, fewer n / years / instances; thorough: the full grid

    def receivers(w, d):
        if not is_dt:
            return [("", w.date(d))]
        out = []
        for label, mins in (("12:00", 720), ("early", 90 if d in w.skipped else 30)):
            for fold in (0, 1):
                out.append((f"at {label} fold={fold}", w.datetime(d, mins, fold, sub=(7, 123) if label == "12:00" else (0, 0))))
        return out

    def verdict(w, got, want, keep=None, recv=None):
        """'' when `got` is the value the property names"""
        if not isinstance(got, minieval.Obj) or "_date" not in vars(got):
            return f"returns {got!r}"
        g = vars(got)
        if g["_date"] != want:
            return f"lands on {g['_date']} (expected {want})"
        if not is_dt:
            return ""
        if keep:
            r = vars(recv)
            return "" if (g["_mins"], g["_sub"]) == (r["_mins"], r["_sub"]) else \
                f"time of day {g['_mins'] // 60:02d}:{g['_mins'] % 60:02d}:{g['_sub'][0]:02d}.{g['_sub'][1]:06d} instead of the instance's 12:00:07.000123"
        sm, sf = w.sod(want)
        if g["_mins"] != sm or g["_sub"] != (0, 0):
            return f"at {g['_mins'] // 60:02d}:{g['_mins'] % 60:02d} instead of the start of the day ({sm // 60:02d}:00)"
        if want in w.repeated and g["fold"] != 0:
            return "second occurrence of the repeated start of the day"
        return ""

    def run(name, cases):
        """cases: iterable of (label, world, receiver, args, expected date | 'raise', keep)"""
        if name not in calstub.World(m, cls, extra=extra).meths:
            return
        bad, n = [], 0
        try:
            for label, w, recv, args, want, keep in cases:
                n += 1
                try:
                    got = w.call(recv, name, args)
                except core.Unsupported as e:
                    if "does not terminate within the iteration bound" in str(e) and "does not exist in the zone" in label:
                        # day-by-day stepping that lands on the same day again: the loop of the analysed code cannot end
                        bad.append(f"{label}: the search does not end (no progress after {minieval.MAX_ITER} steps: stepping back from the day after a missing day lands on that day again)")
                        continue
                    raise
                except minieval.Raised as e:
                    if isinstance(want, tuple) and want[0] == "raise":
                        if e.exc_name != want[1]:
                            bad.append(f"{label}: raises {e.exc_name} instead of {want[1]}")
                    elif want != "raise":
                        bad.append(f"{label}: raises {e.exc_name} (expected {want})")
                    elif name == "nth_of" and e.exc_name != "PendulumException":
                        bad.append(f"{label}: raises {e.exc_name} instead of PendulumException")
                    elif name in ("next", "previous") and e.exc_name != "ValueError":
                        bad.append(f"{label}: raises {e.exc_name} instead of ValueError")
                    continue
                if want == "raise" or (isinstance(want, tuple) and want[0] == "raise"):
                    bad.append(f"{label}: returns {vars(got).get('_date') if isinstance(got, minieval.Obj) else got!r} (expected an exception)")
                    continue
                v = verdict(w, got, want, keep, recv)
                if v:
                    bad.append(f"{label}: {v}")
        except calstub.ERRORS + (ValueError,) as e:
            OCC[(cls, name)] = None
            ctx.unverified("CALENDAR.tabulated", f"{cls}.{name}", f"outside the checker's interpreter: {type(e).__name__}: {e}", m.loc(m.func(f"{cls}.{name}")))
            return
        stats["n"] += n
        OCC[(cls, name)] = not bad
        ctx.ob("CALENDAR.tabulated", f"{cls}.{name}", not bad,
               f"{n} (calendar shape, weekday, instance, zone scenario) cases evaluated: " + (f"wrong: {bad[:3]}" if bad else
               "always the date the property names" + (", at the first instant of that day unless keep_time" if is_dt else "")), m.loc(m.func(f"{cls}.{name}")))

    def worlds(dates, pairs=False):
        """the plain zone, then one special date at a time (skipped / repeated first hour); for quarter and year units also the
        first date (the instance's own day) repeated together with the target skipped, and the other way round - as in
        America/Havana, whose clocks go back to 00:00 in November and skip 00:00 in March.  (Both within one month does not
        occur in the tz database - triage probe over 1970-2037 - and is not part of the scenarios.)"""
        yield "", calstub.World(m, cls, extra=extra)
        if is_dt:
            for d in dates:
                yield f" [midnight of {d} skipped]", calstub.World(m, cls, skipped={d}, extra=extra)
                yield f" [midnight of {d} repeated]", calstub.World(m, cls, repeated={d}, extra=extra)
            for d in (dates[1:2] if pairs else []):
                if d != dates[0] and (d.year, d.month) != (dates[0].year, dates[0].month):
                    yield f" [midnight of {dates[0]} repeated, of {d} skipped]", calstub.World(m, cls, repeated={dates[0]}, skipped={d}, extra=extra)
                    yield f" [midnight of {dates[0]} skipped, of {d} repeated]", calstub.World(m, cls, skipped={dates[0]}, repeated={d}, extra=extra)

    def nav_cases(forward):
        base = _dt.date(2021, 3, 8)     # a Monday
        for off in range(7):
            d = base + off * DAY
            for wd in list(range(7)) + [None]:
                target_wd = d.weekday() if wd is None else wd
                dist = ((target_wd - d.weekday() - 1) % 7 + 1) if forward else ((d.weekday() - target_wd - 1) % 7 + 1)
                want = d + dist * DAY if forward else d - dist * DAY
                special = [d, want, want - DAY, want + DAY] if off in ((0, 3) if deep else (3,)) else []
                for wl, w in worlds(special):
                    for rl, recv in receivers(w, d):
                        for keep in ((False, True) if is_dt else (None,)):
                            if keep and (wl or "12:00" not in rl):
                                continue        # keep_time: decided for a midday instance in the plain zone
                            yield (f"{d} {rl} -> weekday {wd} keep_time={keep}{wl}", w, recv, [wd] + ([keep] if keep is not None else []), want, keep)

    def missing_day_cases(forward):
        """a zone in which one whole day does not exist (Pacific/Apia lost 2011-12-30): the nearest strictly later / earlier *existing* date with the weekday"""
        if not is_dt:
            return
        gone = _dt.date(2011, 12, 30)
        w = calstub.World(m, cls, extra=extra, missing={gone})
        for d in (gone + DAY, gone + 2 * DAY, gone + 3 * DAY, gone - DAY, gone - 2 * DAY):
            for wd in range(7):
                x = d
                while True:
                    x = x + DAY if forward else x - DAY
                    if x != gone and x.weekday() == wd:
                        break
                for rl, recv in receivers(w, d)[:2]:
                    yield (f"{d} {rl} -> weekday {wd} [the day {gone} does not exist in the zone]", w, recv, [wd], x, False)

    def invalid_cases():
        w = calstub.World(m, cls, extra=extra)
        for wd in (-1, 7):
            for rl, recv in receivers(w, _dt.date(2021, 3, 10))[:1]:
                yield (f"weekday {wd}", w, recv, [wd], "raise", None)

    def occ_cases(which):
        w0 = calstub.World(m, cls, extra=extra)
        for unit in ("day", "week", "decade", "century", "", "months"):        # only month, quarter and year are units of these methods
            for rl, recv in receivers(w0, _dt.date(2021, 3, 10))[:1]:
                yield (f"{which}_of({unit!r}, ...)", w0, recv, [unit] + ([1] if which == "nth" else []) + [2], ("raise", "ValueError"), None)
        for y, mo in _month_shapes():
            for day in ((1, 15) if deep else (1,)):
                d = _dt.date(y, mo, day)
                lo, hi = _unit_bounds(d, "month")
                for wd in list(range(7)) + ([None] if which != "nth" else []):
                    occ = _occurrences(lo, hi, wd)
                    for nth in (((1, 2, 4, 5, 6) if deep else (1, 5, 6)) if which == "nth" else (None,)):
                        if day == 15 and nth not in (None, 5):
                            continue
                        want = (occ[0] if which == "first" else occ[-1]) if nth is None else (occ[nth - 1] if nth <= len(occ) else "raise")
                        special = [d, want] + ([want - DAY] if want != "raise" else []) if (wd in ((0, 6) if deep else (6,)) and day == 1 and want != "raise" and nth in (None, 1, 5)
                                                                                            and (deep or mo % 3 == 0)) else []
                        for wl, w in worlds([x for x in special if x != "raise"]):
                            for rl, recv in receivers(w, d)[:(4 if wl else 1)]:
                                args = ["month"] + ([nth] if nth is not None else []) + [wd]
                                yield (f"{which}_of(month{'' if nth is None else ', ' + str(nth)}, {wd}) from {d} {rl}{wl}", w, recv, args, want, None)
        for unit, years, nths in (("quarter", (2019, 2020) if deep else (2020,), (1, 2, 12, 13, 14, 15) if deep else (1, 13, 14)),
                                  ("year", (2019, 2020, 2021, 2022, 2023, 2024, 2028) if deep else (2020, 2023), (1, 2, 52, 53, 54) if deep else (1, 52, 53, 54))):
            for y in years:
                for mo in ((2, 5, 8, 11) if unit == "quarter" else (7,)):
                    d = _dt.date(y, mo, 17)
                    lo, hi = _unit_bounds(d, unit)
                    for wd in list(range(7)) + ([None] if which != "nth" else []):
                        occ = _occurrences(lo, hi, wd)
                        for nth in (nths if which == "nth" else (None,)):
                            want = (occ[0] if which == "first" else occ[-1]) if nth is None else (occ[nth - 1] if nth <= len(occ) else "raise")
                            special = [d, want, lo] if (wd in (2, None) and y == 2020 and want != "raise" and nth in (None, 1, 13, 53)) else []
                            for wl, w in worlds(special, pairs=True):
                                for rl, recv in receivers(w, d)[:(4 if wl else 1)]:
                                    args = [unit] + ([nth] if nth is not None else []) + [wd]
                                    yield (f"{which}_of({unit}{'' if nth is None else ', ' + str(nth)}, {wd}) from {d} {rl}{wl}", w, recv, args, want, None)

    def edge_cases(which):
        """the first and the last month, quarter and year of the calendar (0001-01, 9999-12): nothing lies before / after them - an occurrence
        the unit does not hold is still 'not in the unit' (PendulumException for nth_of), not an arithmetic error"""
        w = calstub.World(m, cls, extra=extra)
        for d in (_dt.date(1, 1, 17), _dt.date(9999, 12, 17)):
            for unit, nths in (("month", (2, 4, 5, 6)), ("quarter", (2, 13, 14, 15)), ("year", (2, 52, 53, 54))):
                lo, hi = _unit_bounds(d, unit)
                for wd in range(7):
                    occ = _occurrences(lo, hi, wd)
                    for nth in (nths if which == "nth" else (None,)):
                        want = (occ[0] if which == "first" else occ[-1]) if nth is None else (occ[nth - 1] if nth <= len(occ) else "raise")
                        for rl, recv in receivers(w, d)[:1]:
                            args = [unit] + ([nth] if nth is not None else []) + [wd]
                            yield (f"{which}_of({unit}{'' if nth is None else ', ' + str(nth)}, {wd}) from {d} {rl}", w, recv, args, want, None)

    import itertools
    run("next", itertools.chain(nav_cases(True), invalid_cases(), missing_day_cases(True)))
    run("previous", itertools.chain(nav_cases(False), invalid_cases(), missing_day_cases(False)))
    run("first_of", itertools.chain(occ_cases("first"), edge_cases("first")))
    run("last_of", itertools.chain(occ_cases("last"), edge_cases("last")))
    run("nth_of", itertools.chain(occ_cases("nth"), edge_cases("nth")))
    ctx.count(f"calendar_cases_{cls}", stats["n"])


def _nav_tabulate(ctx, m, fn, cls: str, name: str) -> bool | None:
    """next()/previous() decided on values: the method body is run by the checker's interpreter on stub dates (weekday,
    day counter, 'is the start of its day' flag; add/subtract/start_of are stub methods) for every start weekday x target
    weekday x keep_time: the result must be the nearest strictly later / earlier day with that weekday (1-7 days away), reached
    with the right method, at the start of its day unless keep_time, a missing weekday meaning the instance's own."""
    from types import SimpleNamespace as NS
    from ..rules import minieval
    forward = name == "next"

    def mk(day, normalised, used, time="orig"):
        def add(days=0):
            return mk(day + days, False, used | {"add"}, time)

        def subtract(days=0):
            return mk(day - days, False, used | {"subtract"}, time)

        def start_of(unit):
            if unit != "day":
                raise ValueError("start_of(%r)" % (unit,))
            return mk(day, True, used, "midnight")
        return NS(day_of_week=day % 7, _day=day, _norm=normalised, _used=used, _time=time, add=add, subtract=subtract, start_of=start_of)
    wk = NS(MONDAY=0, TUESDAY=1, WEDNESDAY=2, THURSDAY=3, FRIDAY=4, SATURDAY=5, SUNDAY=6)
    bad, n = [], 0
    try:
        for w0 in range(7):
            for wd in list(range(7)) + [None]:
                for keep in ((False, True) if cls == "DateTime" else (None,)):
                    start = mk(700 + w0, False, frozenset())
                    args = [start, wd] + ([keep] if keep is not None else [])
                    got = minieval.call(fn, args, {}, {"$globals": {"WeekDay": wk, "ValueError": ValueError}})
                    n += 1
                    target = w0 if wd is None else wd
                    dist = ((target - w0 - 1) % 7 + 1) if forward else ((w0 - target - 1) % 7 + 1)
                    want_day = 700 + w0 + (dist if forward else -dist)
                    ok = getattr(got, "_day", None) == want_day
                    if ok and cls == "DateTime":
                        ok = (got._norm is True and got._time == "midnight") if not keep else (got._time == "orig")
                    ok = ok and (("subtract" not in got._used) if forward else ("add" not in got._used))
                    if not ok:
                        bad.append(f"from weekday {w0} to {wd} keep_time={keep}: day {getattr(got, '_day', None)} (expected {want_day}), "
                                   f"start-of-day={getattr(got, '_norm', None)}, time of day {getattr(got, '_time', None)}, methods {sorted(getattr(got, '_used', []))}")
        for wd in (-1, 7):
            try:
                minieval.call(fn, [mk(700, False, frozenset()), wd] + ([False] if cls == "DateTime" else []), {}, {"$globals": {"WeekDay": wk, "ValueError": ValueError}})
                bad.append(f"weekday {wd} accepted")
            except ValueError:
                pass
    except (core.Unsupported, TypeError, AttributeError, KeyError, IndexError) as e:
        ctx.unverified("NAV.tabulated", f"{cls}.{name}", f"outside the checker's interpreter: {e}", m.loc(fn))
        return None
    ctx.ob("NAV.tabulated", f"{cls}.{name}", not bad,
           f"{n} (start weekday, target, keep_time) cases evaluated: " + (f"wrong: {bad[:3]}" if bad else
           "always the nearest strictly later/earlier such weekday, at the start of its day unless keep_time"), m.loc(fn))
    return not bad


def _nav(ctx) -> None:
    for cls in ("DateTime", "Date"):
        m = pmod(core.CLASS_HOME[cls])
        for name, step in (("next", "add"), ("previous", "subtract")):
            fn = m.func(f"{cls}.{name}")
            if OCC.get((cls, name)) or _nav_tabulate(ctx, m, fn, cls, name):
                if cls == "DateTime":
                    d = core.defaults(fn)
                    ctx.ob("NAV.defaults", f"{cls}.{name}/keep_time", core.is_const(d.get("keep_time"), False), f"keep_time default {nun(d.get('keep_time'))}", m.loc(fn))
                continue
            if cls == "DateTime":
                # the day stepped from may begin later than midnight (skipped 00:00): the result is normalised again
                body = VALIDATE + ["dt = self if keep_time else self.start_of('day')", f"dt = dt.{step}(days=1)",
                                   f"while dt.day_of_week != day_of_week:\n    dt = dt.{step}(days=1)",
                                   "return dt if keep_time else dt.start_of('day')"]
            else:
                body = VALIDATE + [f"dt = self.{step}(days=1)", f"while dt.day_of_week != day_of_week:\n    dt = dt.{step}(days=1)", "return dt"]
            T.match(ctx, "NAV.shape", f"{cls}.{name}", m, fn, body,
                    why=f"{name}() must step one day with {step}() unconditionally and keep stepping with {step}() until the weekday matches")
            if cls == "DateTime":
                d = core.defaults(fn)
                ctx.ob("NAV.defaults", f"{cls}.{name}/keep_time", core.is_const(d.get("keep_time"), False), f"keep_time default {nun(d.get('keep_time'))}", m.loc(fn))


def _rw(cls: str):
    def f(s: str) -> str:
        s = s.replace(".start_of('day')", "")
        s = s.replace("self.on(", "self.set(")
        s = s.replace("'%Y-%M'", "FMT").replace("'YYYY-MM'", "FMT")
        s = s.replace("self.replace(self.year, self.quarter * 3, 1)", "QEND").replace("self.set(day=1, month=self.quarter * 3)", "QEND")
        s = re.sub(r"^dt = self$", "dt = self", s)
        return s
    return f


LOOP = "for _ in range(nth - (1 if dt.day_of_week == day_of_week else 0)):\n    dt = dt.next(day_of_week)"
TEMPLATES = {
    "_nth_of_month": ["if nth == 1:\n    return self.first_of('month', day_of_week)", "dt = self.first_of('month')", "check = dt.format(FMT)", LOOP,
                      "if dt.format(FMT) == check:\n    return self.set(day=dt.day)", "return None"],
    "_nth_of_quarter": ["if nth == 1:\n    return self.first_of('quarter', day_of_week)", "dt = QEND", "last_month = dt.month", "year = dt.year",
                        "dt = dt.first_of('quarter')", LOOP, "if last_month < dt.month or year != dt.year:\n    return None",
                        "return self.set(self.year, dt.month, dt.day)"],
    "_nth_of_year": ["if nth == 1:\n    return self.first_of('year', day_of_week)", "dt = self.first_of('year')", "year = dt.year", LOOP,
                     "if year != dt.year:\n    return None", "return self.set(self.year, dt.month, dt.day)"],
    "_first_of_month": ["dt = self", "if day_of_week is None:\n    return dt.set(day=1)", "month = calendar.monthcalendar(dt.year, dt.month)",
                        "calendar_day = day_of_week",
                        "if month[0][calendar_day] > 0:\n    day_of_month = month[0][calendar_day]\nelse:\n    day_of_month = month[1][calendar_day]",
                        "return dt.set(day=day_of_month)"],
    "_last_of_month": ["dt = self", "if day_of_week is None:\n    return dt.set(day=self.days_in_month)", "month = calendar.monthcalendar(dt.year, dt.month)",
                       "calendar_day = day_of_week",
                       "if month[-1][calendar_day] > 0:\n    day_of_month = month[-1][calendar_day]\nelse:\n    day_of_month = month[-2][calendar_day]",
                       "return dt.set(day=day_of_month)"],
    "_first_of_quarter": ["return self.set(self.year, self.quarter * 3 - 2, 1).first_of('month', day_of_week)"],
    "_last_of_quarter": ["return self.set(self.year, self.quarter * 3, 1).last_of('month', day_of_week)"],
    "_first_of_year": ["return self.set(month=1).first_of('month', day_of_week)"],
    "_last_of_year": ["return self.set(month=MONTHS_PER_YEAR).last_of('month', day_of_week)"],
}


def _clones(ctx) -> None:
    for cls in ("DateTime", "Date"):
        m = pmod(core.CLASS_HOME[cls])
        rw = _rw(cls)
        def by_values(name):
            return bool(OCC.get((cls, name.split("_of_")[0].lstrip("_") + "_of")))
        for name, tmpl in TEMPLATES.items():
            if by_values(name):
                # the public method that dispatches to this helper is right on every calendar case: its shape is not a property
                ctx.ob("CLONE.shape", f"{cls}.{name}", True, "established by the calendar tabulation", m.rel, nontrivial=False)
                continue
            fn = m.func(f"{cls}.{name}")
            t = list(tmpl)
            T.match(ctx, "CLONE.shape", f"{cls}.{name}", m, fn, t, rewrite=rw,
                    why="the DateTime and Date versions must both reduce to the reference shape of this unit")
        # the DateTime versions must end at 00:00 (start_of('day')) wherever they rebuild from self
        if cls == "DateTime":
            for name in ("_nth_of_month", "_nth_of_quarter", "_nth_of_year", "_first_of_month", "_last_of_month"):
                if by_values(name):
                    ctx.ob("CLONE.midnight", f"{cls}.{name}", True, "established by the calendar tabulation", m.rel, nontrivial=False)
            for name in ("_nth_of_month", "_nth_of_quarter", "_nth_of_year"):
                if by_values(name):
                    continue
                fn = m.func(f"{cls}.{name}")
                rets = [r for r in core.returns(fn) if nun(r.value) not in ("None",) and "first_of" not in nun(r.value)]
                ok = bool(rets) and all(nun(r.value).endswith(".start_of('day')") for r in rets)
                ctx.ob("CLONE.midnight", f"{cls}.{name}", ok, f"returns {[nun(r.value) for r in rets]}; the result is at 00:00", m.loc(fn))
            for name in ("_first_of_month", "_last_of_month"):
                if by_values(name):
                    continue
                fn = m.func(f"{cls}.{name}")
                first = nun(core.body_no_doc(fn)[0])
                ctx.ob("CLONE.midnight", f"{cls}.{name}", first == "dt = self.start_of('day')", f"`{first}`; must start from 00:00", m.loc(fn))
    mpy = core.const("constants", "MONTHS_PER_YEAR")
    ctx.ob("CLONE.const", "MONTHS_PER_YEAR", mpy == 12, f"{mpy}", "src/pendulum/constants.py")
    wd = core.fold_name("WeekDay", pmod("date")) if False else None
    _ = wd


def _dispatch(ctx) -> None:
    units = ["month", "quarter", "year"]
    for cls in ("DateTime", "Date"):
        m = pmod(core.CLASS_HOME[cls])
        for q, pre, args in (("first_of", "_first_of_", "(day_of_week)"), ("last_of", "_last_of_", "(day_of_week)"), ("nth_of", "_nth_of_", "(nth, day_of_week)")):
            fn = m.func(f"{cls}.{q}")
            g = [n for n in core.walk_fn(fn) if isinstance(n, ast.If) and nun(n.test).startswith("unit not in ")]
            ok = len(g) == 1 and nun(g[0].test) == f"unit not in {units!r}" and "ValueError" in nun(g[0].body[0])
            ctx.ob("DISPATCH.units", f"{cls}.{q}", ok or bool(OCC.get((cls, q))), f"guard `{nun(g[0].test) if g else None}`; supported units are {units}", m.loc(fn))
            calls = [c for c in core.calls(fn) if isinstance(c.func, ast.Call) and nun(c.func.func) == "getattr"]
            recv = "self"
            if cls == "DateTime":
                # the receiver must be the start of the instance's day with fold=1, inline or through a one-line helper
                recv = "self.start_of('day').replace(fold=1)"
                if len(calls) == 1 and calls[0].func.args:
                    r0 = calls[0].func.args[0]
                    if isinstance(r0, ast.Call) and isinstance(r0.func, ast.Attribute) and nun(r0.func.value) == "self" and not r0.args:
                        try:
                            hr = core.returns(m.func(f"{cls}.{r0.func.attr}"))
                            if len(hr) == 1 and nun(hr[0].value) == recv:
                                recv = nun(r0)
                        except core.AnchorMissing:
                            pass
            tab = bool(OCC.get((cls, q)))
            ok = tab or (len(calls) == 1 and nun(calls[0]) == f"getattr({recv}, f'{pre}{{unit}}'){args}")
            ctx.ob("DISPATCH.name", f"{cls}.{q}", ok,
                   f"dispatch `{nun(calls[0]) if calls else None}`; must be getattr({recv}, f'{pre}{{unit}}'){args}"
                   + (" - the helpers clone their receiver with its time of day and fold, which must not decide how a skipped or repeated "
                      "midnight on the target date is resolved" if cls == "DateTime" else ""), m.loc(fn))
            if cls == "DateTime":
                # every value handed out is the start of its day
                outs = [core.strip_casts(r.value) for r in core.returns(fn)]
                src = {nun(s_.targets[0]): core.strip_casts(s_.value) for s_ in core.walk_fn(fn) if isinstance(s_, ast.Assign)}
                good = True
                for o in outs:
                    s_ = nun(o)
                    if not s_.endswith(".start_of('day')"):
                        good = False
                    else:
                        inner = o.func.value
                        if isinstance(inner, ast.Name):
                            inner = src.get(inner.id, inner)
                        good = good and nun(core.strip_casts(inner)) == nun(calls[0]) if calls else False
                ctx.ob("DISPATCH.midnight", f"{cls}.{q}", tab or (bool(outs) and good),
                       f"returns {[nun(o)[:70] for o in outs]}; the helper's result must pass through start_of('day') (a helper started from a "
                       f"day that begins at 01:00 keeps that wall time on the target date)", m.loc(fn))
            for u in units:
                ctx.ob("DISPATCH.exhaustive", f"{cls}.{pre}{u}", core.resolve_method(cls, pre + u) is not None, f"{pre}{u} must exist", m.rel)
        fn = m.func(f"{cls}.nth_of")
        ifs = [n for n in core.walk_fn(fn) if isinstance(n, ast.If) and nun(n.test) in ("not dt", "dt is None")]
        ok = len(ifs) == 1 and nun(ifs[0].body[0]).startswith("raise PendulumException(") and nun(core.body_no_doc(fn)[-1]) == ("return dt.start_of('day')" if cls == "DateTime" else "return dt")
        ctx.ob("DISPATCH.nth-error", f"{cls}.nth_of", ok or bool(OCC.get((cls, "nth_of"))), "nth_of must raise PendulumException exactly when the helper found no such occurrence", m.loc(fn))
        # building the exception must not itself fail: the weekday is accepted as a plain int 0..6 everywhere else (it is used
        # as a calendar.monthcalendar column), so member attributes may only be read from WeekDay(<param>)
        wd = core.params(fn)[-1]
        for st in (ifs[0].body if ifs else []):
            if isinstance(st, ast.Raise) and st.exc is not None:
                bare = [a for a in ast.walk(st.exc) if isinstance(a, ast.Attribute) and isinstance(a.value, ast.Name) and a.value.id == wd]
                wrapped = [a for a in ast.walk(st.exc) if isinstance(a, ast.Attribute) and isinstance(a.value, ast.Call)
                           and nun(a.value.func) == "WeekDay" and [nun(x) for x in a.value.args] == [wd]]
                ctx.ob("DISPATCH.nth-error", f"{cls}.nth_of/message", not bare,
                       f"the exception message reads {[nun(a) for a in bare] or [nun(a) for a in wrapped]}: `{wd}` may be a plain int, and an "
                       f"attribute read on it raises AttributeError instead of the PendulumException being built", m.loc(st))
    em = pmod("exceptions")
    ctx.ob("DISPATCH.nth-error", "PendulumException", [core.un(b) for b in em.cls("PendulumException").bases] == ["Exception"], "PendulumException(Exception)", em.rel)


def run(ctx) -> None:
    ctx.explanation = EXPLANATION
    OCC.clear()
    ctx.step(_calendar_tabulate, ctx, "DateTime")
    ctx.step(_calendar_tabulate, ctx, "Date")
    ctx.step(_nav, ctx)
    ctx.step(_clones, ctx)
    ctx.step(_dispatch, ctx)
    from . import C15
    ctx.step(C15._getters_tabulate, ctx)      # last_of(unit) without a weekday reads days_in_month: the calendar getters against the standard library
    ctx.expect_min("NAV", 2)
    ctx.expect_min("CALENDAR.tabulated", 10)
    ctx.expect_min("CLONE", 18)
    ctx.expect_min("DISPATCH", 30)
    ctx.assumptions += ["calendar.monthcalendar's default first weekday is Monday (column index == WeekDay value)"]
