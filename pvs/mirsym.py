"""Symbolic path execution over MIR blocks, producing Python-AST expressions so
that the Python-side normal forms (units.poly, core.nun) apply to Rust too."""
from __future__ import annotations

import ast
import re
from dataclasses import dataclass, field

from . import core
from .mirfront import MirFn, Stmt

TRANSPARENT_CALLS = {"from", "into", "try_into", "unwrap", "clone", "as_str", "deref", "to_owned",
                     "floor", "trunc"}
CMP = {"Lt": ast.Lt, "Le": ast.LtE, "Gt": ast.Gt, "Ge": ast.GtE, "Eq": ast.Eq, "Ne": ast.NotEq}
ARITH = {"Add": ast.Add, "Sub": ast.Sub, "Mul": ast.Mult, "Div": ast.FloorDiv, "Rem": ast.Mod,
         "AddUnchecked": ast.Add, "SubUnchecked": ast.Sub, "MulUnchecked": ast.Mult}


def _strip_generics(s: str) -> str:
    out, depth = [], 0
    for i, ch in enumerate(s):
        if ch == "<" and (i == 0 or s[i - 1] != " "):
            depth += 1
            continue
        if ch == ">" and depth and (i == 0 or s[i - 1] != "-"):
            depth -= 1
            continue
        if depth == 0:
            out.append(ch)
    return "".join(out).replace("::::", "::")


def short_callee(c: str) -> str:
    c = re.sub(r"<[^<>]*>", "", c)
    c = re.sub(r"<[^<>]*>", "", c)
    c = c.replace("<", "").replace(">", "")
    return c.rsplit("::", 1)[-1].strip()


@dataclass
class SymPath:
    conds: list[tuple[ast.expr, object]] = field(default_factory=list)
    state: dict[str, ast.expr] = field(default_factory=dict)
    blocks: list[int] = field(default_factory=list)
    end: int = -1
    looped: bool = False
    calls: list[tuple[str, list[ast.expr]]] = field(default_factory=list)


class Sym:
    def __init__(self, fn: MirFn, struct_fields: dict[str, list[str]] | None = None, rename: dict[str, str] | None = None,
                 atomic: set[str] | None = None):
        self.fn = fn
        self.atomic = atomic or set()     # debug names always represented by their name
        self.names = fn.names()
        self.struct_fields = struct_fields or {}
        self.rename = rename or {}

    # -- operands -----------------------------------------------------------
    def name_of(self, local: str) -> str:
        n = self.names.get(local, local)
        return self.rename.get(n, n)

    def val(self, a: str, st: dict[str, ast.expr]) -> ast.expr:
        a = a.strip()
        for p in ("copy ", "move "):
            if a.startswith(p):
                a = a[len(p):]
        if a.startswith("&mut "):
            return self.val(a[5:], st)
        if a.startswith("&"):
            return self.val(a[1:], st)
        m = re.match(r"^const (-?\d+)_\w+$", a)
        if m:
            return ast.Constant(int(m.group(1)))
        m = re.match(r"^const (-?[\d.]+(?:E[+-]?\d+)?)f64$", a)
        if m:
            return ast.Constant(float(m.group(1)))
        if a in ("const true", "const false"):
            return ast.Constant(a == "const true")
        m = re.match(r"^const '(\\?.)'$", a)
        if m:
            return ast.Constant(m.group(1))        # char literal
        m = re.match(r"^const (?:\w+::)*(\w+)$", a)
        if m:
            return ast.Name(m.group(1), ast.Load())
        if a.startswith("const "):
            return ast.Name("K_" + re.sub(r"\W+", "_", a[6:])[:40], ast.Load())
        m = re.match(r"^_\d+$", a)
        if m:
            if self.names.get(a) in self.atomic:
                return ast.Name(self.name_of(a), ast.Load())
            if a in st:
                return st[a]
            return ast.Name(self.name_of(a), ast.Load())
        m = re.match(r"^\(\*(_\d+)\)$", a)
        if m:
            return self.val(m.group(1), st)
        # field projection ((*_1).3: char) / (_16.2: i32) / ((_9 as Some).0: u32)
        m = re.match(r"^\(\((_\d+) as (\w+)\)\.(\d+): [^)]*\)$", a)
        if m:
            return ast.Call(ast.Name(f"{m.group(2)}_{m.group(3)}", ast.Load()), [self.val(m.group(1), st)], [])
        m = re.match(r"^\((\(?\*?_\d+\)?)\.(\d+): (.*)\)$", a)
        if m:
            if "FIELD:" + a in st:          # a field written earlier on this path reads back as the value written
                return st["FIELD:" + a]
            base_l = re.sub(r"[()*]", "", m.group(1))
            base = self.val(base_l, st)
            ty = re.sub(r"<.*>", "", self.fn.types.get(base_l, "")).replace("&mut ", "").replace("&", "").strip()
            ty = ty.rsplit("::", 1)[-1]
            idx = int(m.group(2))
            flds = self.struct_fields.get(ty)
            fname = flds[idx] if flds and idx < len(flds) else f"f{idx}"
            if isinstance(base, ast.Tuple) and idx < len(base.elts):
                return base.elts[idx]
            return ast.Attribute(base, fname, ast.Load())
        m = re.match(r"^(_\d+)((?:\[[^\]]+\])+)$", a)
        if m:
            e = self.val(m.group(1), st)
            for ix in re.findall(r"\[([^\]]+)\]", m.group(2)):
                e = ast.Subscript(e, self.val(ix, st), ast.Load())
            return e
        return ast.Name("OPAQUE_" + re.sub(r"\W+", "_", a)[:40], ast.Load())

    # -- statements ---------------------------------------------------------
    def step(self, s: Stmt, p: SymPath) -> None:
        st = p.state
        if s.dest is None:
            return
        dest = s.dest
        if not re.match(r"^_\d+$", dest):
            # assignment through a projection: ((*_2).4: u32) = ...
            m = re.match(r"^\((\(?\*?_\d+\)?)\.(\d+): (.*)\)$", dest)
            if m:
                key = "FIELD:" + dest
                st[key] = self._rvalue(s, p)
            return
        v = self._rvalue(s, p)
        nm = self.names.get(dest)
        if nm and s.op == "use" and re.match(r"^\(\(_\d+ as \w+\)\.\d+:", s.args[0]) and getattr(self, "name_patterns", True):
            v = ast.Name(self.name_of(dest), ast.Load())    # pattern-bound variable (`Some(i)`): name it
        st[dest] = v

    def _rvalue(self, s: Stmt, p: SymPath) -> ast.expr:
        st = p.state
        if s.op in ARITH:
            return ast.BinOp(self.val(s.args[0], st), ARITH[s.op](), self.val(s.args[1], st))
        if s.op in ("AddWithOverflow", "SubWithOverflow", "MulWithOverflow"):
            op = {"A": ast.Add, "S": ast.Sub, "M": ast.Mult}[s.op[0]]
            v = ast.BinOp(self.val(s.args[0], st), op(), self.val(s.args[1], st))
            return ast.Tuple([v, ast.Name("OVERFLOW", ast.Load())], ast.Load())
        if s.op in CMP:
            return ast.Compare(self.val(s.args[0], st), [CMP[s.op]()], [self.val(s.args[1], st)])
        if s.op == "neg":
            return ast.UnaryOp(ast.USub(), self.val(s.args[0], st))
        if s.op == "not":
            return ast.UnaryOp(ast.Not(), self.val(s.args[0], st))
        if s.op == "use":
            return self.val(s.args[0], st)
        if s.op == "cast":
            return self.val(s.args[0], st)
        if s.op == "discr":
            return ast.Call(ast.Name("discriminant", ast.Load()), [self.val(s.args[0], st)], [])
        if s.op == "call":
            name = short_callee(s.callee)
            args = [self.val(a, st) for a in s.args]
            p.calls.append((s.callee, args))
            if name in TRANSPARENT_CALLS and args:
                return args[0]
            return ast.Call(ast.Name(name, ast.Load()), args, [])
        if s.op == "other":
            rv = s.args[0] if s.args else ""
            if rv.startswith("&"):
                return self.val(rv, st)
            m = re.match(r"^\((.*)\)$", rv)
            if m and "," in rv and ":" not in rv.split(",")[0]:
                from .mirfront import _split_args
                return ast.Tuple([self.val(x, st) for x in _split_args(m.group(1))], ast.Load())
            flat = _strip_generics(rv)
            m = re.match(r"^([\w:]+)::(\w+)\((.*)\)$", flat)
            if m:
                from .mirfront import _split_args
                return ast.Call(ast.Name(m.group(2), ast.Load()), [self.val(x, st) for x in _split_args(m.group(3))], [])
            m = re.match(r"^(\w[\w:]*) \{ (.*) \}$", rv)
            if m:
                from .mirfront import _split_args
                kws = []
                for part in _split_args(m.group(2)):
                    k, v = part.split(":", 1)
                    kws.append(ast.keyword(k.strip(), self.val(v.strip(), st)))
                return ast.Call(ast.Name(m.group(1).rsplit("::", 1)[-1], ast.Load()), [], kws)
        return ast.Name("OPAQUE_" + re.sub(r"\W+", "_", s.raw)[:50], ast.Load())

    # -- paths --------------------------------------------------------------
    def run(self, start: int, stop, state0: dict[str, ast.expr] | None = None, max_paths: int = 4000,
            max_visits: int = 1) -> list[SymPath]:
        stop_f = stop if callable(stop) else (lambda b, _s=set(stop): b in _s)
        out: list[SymPath] = []

        def go(b: int, p: SymPath):
            if len(out) > max_paths:
                raise core.Unsupported("MIR: too many paths")
            if stop_f(b) and p.blocks:
                p.end = b
                out.append(p)
                return
            if p.blocks.count(b) >= max_visits:
                p.end = b
                p.looped = True
                out.append(p)
                return
            blk = self.fn.blocks[b]
            p.blocks.append(b)
            for s in blk.stmts:
                if s.op == "assert":
                    continue
                self.step(s, p)
            t = blk.term
            if blk.switch:
                operand, targets = blk.switch
                v = self.val(operand, p.state)
                for key, tb in targets.items():
                    q = SymPath(list(p.conds), dict(p.state), list(p.blocks), calls=list(p.calls))
                    if key == "otherwise":
                        others = [k for k in targets if k != "otherwise"]
                        if self.fn.blocks.get(tb) and self.fn.blocks[tb].term.startswith("unreachable"):
                            continue
                        q.conds.append((v, ("not", tuple(others))))
                    else:
                        q.conds.append((v, int(key)))
                    go(tb, q)
                return
            if t.startswith("return") or t.startswith("unreachable") or t.startswith("resume"):
                p.end = b
                out.append(p)
                return
            succ = [x for x in blk.succs]
            if "unwind" in t and len(succ) > 1:
                succ = succ[:1]       # follow the normal (return / success) edge only
            if not succ:
                p.end = b
                out.append(p)
                return
            go(succ[0], p)

        go(start, SymPath(state=dict(state0 or {})))
        return out


def NEVER(_b: int) -> bool:
    """stop predicate: run every path to its `return` (the returning block is executed)."""
    return False


def cond_bool(v: ast.expr, key) -> tuple[ast.expr, bool] | None:
    """Interpret a switchInt decision on a boolean value."""
    if isinstance(key, int):
        return v, key != 0
    if isinstance(key, tuple) and key[0] == "not":
        if key[1] == ("0",):
            return v, True
        if key[1] == ("1",):
            return v, False
    return None


def struct_fields_from_source(rs_text: str) -> dict[str, list[str]]:
    out: dict[str, list[str]] = {}
    for m in re.finditer(r"struct (\w+)(?:<[^>]*>)?\s*\{(.*?)\n\}", rs_text, re.S):
        names = re.findall(r"(?:pub\s+)?(\w+)\s*:", re.sub(r"#\[[^\]]*\]|//.*", "", m.group(2)))
        out[m.group(1)] = names
    return out
