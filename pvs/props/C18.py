"""C18 — human-readable differences are total, localized and correctly directed (key closure)."""
from __future__ import annotations

import ast
import string

from .. import cfg, core
from ..core import nun, pmod, un
from ..rules import template as T

EXPLANATION = (
    "Decided statically: (1) KEY-CLOSURE: the key templates built at run time by DifferenceFormatter.format "
    "(extracted path by path with a symbolic string evaluator), Duration.in_words, Interval.in_words and the "
    "locale tokens of Formatter are instantiated over the finite domains 7 units x {future, past} x the plural "
    "classes of *each* locale (string constants in result position of its plural lambda) and resolved in the "
    "27 locale dictionary literals (folded from the AST, fall-back branches honoured); every key must resolve "
    "to a string (or to a 12/7-entry table, an int for week_data.first_day); (2) PLACEHOLDERS: every template "
    "is formatted with exactly one positional argument, so its fields must be {} / {0}; (3) DIRECTION: on every "
    "path of format() the marker suffix is future/from_now/after iff diff.invert, past/ago/before otherwise, and "
    "absent iff absolute; (4) locale tables have 12 months, 7 days, am/pm, ordinal suffixes for every class "
    "of the ordinal lambda, date_formats made only of known tokens; (5) the unit-selection ladder has its "
    "reference shape (largest unit first, rounding thresholds). NOT decided: wording of the translations, "
    "equality of the count with the documented rounding for every pair of instants."
    ' Also: the mixed-radix digits (hours, minutes, remaining_seconds) a plain Duration puts into the phrases, including the guards around them.'
)

UNITS = ["year", "month", "week", "day", "hour", "minute", "second"]


def locales() -> list[str]:
    root = core.REPO / "src/pendulum/locales"
    return sorted(p.name for p in root.iterdir() if p.is_dir() and (p / "locale.py").exists())


def load_locale(name: str) -> dict:
    m = core.mod(f"src/pendulum/locales/{name}/locale.py")
    return core.fold(m.assign("locale"), m)


def lambda_range(lam) -> set[str]:
    """string constants in result position of a (conditional-expression) lambda"""
    out: set[str] = set()

    def rec(n):
        if isinstance(n, ast.IfExp):
            rec(n.body)
            rec(n.orelse)
        elif isinstance(n, ast.Constant) and isinstance(n.value, str):
            out.add(n.value)
        else:
            raise core.Unsupported(f"result `{un(n)[:40]}` of a plural/ordinal lambda is not a string constant")
    rec(lam.node.body)
    return out


def lambda_eval(lam, n: int) -> str:
    """the checker's own evaluator for CLDR plural rules: integer arithmetic, comparisons, and/or/not, conditionals"""
    arg = lam.node.args.args[0].arg

    def ev(x):
        if isinstance(x, ast.Constant):
            return x.value
        if isinstance(x, ast.Name) and x.id == arg:
            return n
        if isinstance(x, ast.IfExp):
            return ev(x.body) if ev(x.test) else ev(x.orelse)
        if isinstance(x, ast.BoolOp):
            vals = [ev(v) for v in x.values]
            return all(vals) if isinstance(x.op, ast.And) else any(vals)
        if isinstance(x, ast.UnaryOp) and isinstance(x.op, ast.Not):
            return not ev(x.operand)
        if isinstance(x, ast.BinOp):
            a, b = ev(x.left), ev(x.right)
            return {ast.Mod: lambda: a % b, ast.Add: lambda: a + b, ast.Sub: lambda: a - b, ast.Mult: lambda: a * b,
                    ast.FloorDiv: lambda: a // b, ast.Div: lambda: a / b}[type(x.op)]()
        if isinstance(x, ast.Compare):
            left = ev(x.left)
            for op, c in zip(x.ops, x.comparators):
                r = ev(c)
                ok = {ast.Eq: left == r, ast.NotEq: left != r, ast.Lt: left < r, ast.LtE: left <= r, ast.Gt: left > r, ast.GtE: left >= r,
                      ast.In: None, ast.NotIn: None}[type(op)]
                if ok is None:
                    ok = (left in r) if isinstance(op, ast.In) else (left not in r)
                if not ok:
                    return False
                left = r
            return True
        if isinstance(x, (ast.Tuple, ast.List)):
            return [ev(e) for e in x.elts]
        if isinstance(x, ast.Call) and un(x.func) in ("range",):
            return range(*[ev(a) for a in x.args])
        if isinstance(x, ast.Call) and un(x.func) in ("int", "abs"):
            return {"int": int, "abs": abs}[un(x.func)](ev(x.args[0]))
        raise core.Unsupported(f"plural rule uses `{un(x)[:40]}`")
    return ev(lam.node.body)


def resolve(data, key: str):
    cur = data
    for part in key.split("."):
        if not isinstance(cur, dict):
            return ("TYPE", cur)
        if part not in cur:
            return ("MISSING", part)
        cur = cur[part]
    return ("OK", cur)


FILLS: dict[str, set[tuple[int, tuple[str, ...]]]] = {}      # key template -> how format() was seen to fill it: (positional arguments, keyword names)


def fields_ok(tmpl: str, fills: set[tuple[int, tuple[str, ...]]] | None = None) -> tuple[bool, str]:
    try:
        flds = [f for _lit, f, _spec, _conv in string.Formatter().parse(tmpl) if f is not None]
    except ValueError as e:
        return False, f"malformed braces ({e})"
    fills = fills or {(1, ())}
    bad = [f for f in flds if any(not ((f == "" and npos >= 1) or (f.isdigit() and int(f) < npos) or f in kws) for npos, kws in fills)]
    if bad:
        how = " / ".join(f"{npos} positional argument(s)" + (f" and {', '.join(k + '=' for k in kws)}" if kws else "") for npos, kws in sorted(fills))
        return False, f"field(s) {bad} cannot be filled by the {'single positional argument' if fills == {(1, ())} else how} (KeyError/IndexError at run time)"
    if "" in flds and "0" in flds:
        return False, "mixes automatic and manual field numbering (ValueError at run time)"
    return True, ""


# ---------------------------------------------------------------------------
# key templates from DifferenceFormatter.format (symbolic strings along paths)


def _sym_str(e: ast.AST, env: dict[str, str]) -> str:
    if isinstance(e, ast.Constant) and isinstance(e.value, str):
        return e.value
    if isinstance(e, ast.Name):
        if e.id in env:
            return env[e.id]
        raise core.Unsupported(f"string value of `{e.id}` unknown")
    if isinstance(e, ast.JoinedStr):
        out = ""
        for v in e.values:
            if isinstance(v, ast.Constant):
                out += str(v.value)
            elif isinstance(v, ast.FormattedValue):
                inner = v.value
                if isinstance(inner, ast.Call) and nun(inner.func).endswith(".plural"):
                    out += "<plural>"
                else:
                    out += _sym_str(inner, env)
        return out
    if isinstance(e, ast.BinOp) and isinstance(e.op, ast.Add):
        return _sym_str(e.left, env) + _sym_str(e.right, env)
    raise core.Unsupported(f"key expression `{un(e)[:50]}`")


def format_paths(ctx):
    """[(facts, [(key template, how it is used)])] for every path of DifferenceFormatter.format"""
    m = pmod("formatting.difference_formatter")
    fn = m.func("DifferenceFormatter.format")
    out = []
    for p in cfg.paths(fn):
        if p.exit()[1] != "return":
            continue
        env: dict[str, str] = {}
        keys: list[tuple[str, str]] = []
        flags = {"absolute": p.holds("absolute"), "is_now": p.holds("is_now"), "few": p.holds("time is None"), "trans": p.holds("trans")}
        future = None

        def scan(node, env=env, keys=keys):
            for c in core.calls(node):
                if nun(c.func) == "locale.get" and c.args:
                    try:
                        k = _sym_str(c.args[0], env)
                    except core.Unsupported as e:
                        k = f"<unresolved: {e}>"
                    par = getattr(c, "_parent", None)
                    use = "format" if isinstance(par, ast.Attribute) and par.attr == "format" else "value"
                    keys.append((k, use))
        for e in p:
            if e[0] == "assume" and e[1] == "is_future":
                future = e[2]
            if e[0] == "stmt":
                st = e[1]
                scan(st)
                if isinstance(st, ast.Assign) and isinstance(st.targets[0], ast.Name):
                    try:
                        env[st.targets[0].id] = _sym_str(st.value, env)
                    except core.Unsupported:
                        if st.targets[0].id == "is_future":
                            env["is_future"] = nun(st.value)
                elif isinstance(st, ast.AugAssign) and isinstance(st.target, ast.Name) and isinstance(st.op, ast.Add):
                    try:
                        env[st.target.id] = env.get(st.target.id, "") + _sym_str(st.value, env)
                    except core.Unsupported:
                        pass
            if e[0] == "exit" and e[2] is not None:
                scan(e[2])
        out.append((flags, future, env.get("is_future"), env.get("unit"), keys, p))
    return m, fn, out


def _direction(ctx, m, fn, paths) -> None:
    FUT, PAST = (".future", ".from_now", ".after"), (".past", ".ago", ".before")
    n = 0
    for flags, future, fut_src, unit, keys, p in paths:
        marked = [k for k, _u in keys if k.endswith(FUT + PAST) or any(s + "." in k for s in FUT + PAST)]
        has_f = any(any(s in k for s in FUT) for k, _ in keys)
        has_p = any(any(s in k for s in PAST) for k, _ in keys)
        tag = f"unit={unit},absolute={flags['absolute']},is_now={flags['is_now']},future={future}"
        if flags["absolute"] is True:
            ctx.ob("DIRECTION.absolute", f"format[{tag}]", not has_f and not has_p,
                   f"absolute=True path uses keys {[k for k, _ in keys]}; no past/future marker may appear", m.loc(fn))
        elif future is not None:
            ok = (has_f and not has_p) if future else (has_p and not has_f)
            ctx.ob("DIRECTION.marker", f"format[{tag}]", ok,
                   f"with is_future={future} the path uses keys {[k for k, _ in keys]}; future/from_now/after must be chosen iff "
                   f"the difference is inverted (instance later than the reference)", m.loc(fn))
            ctx.ob("DIRECTION.source", f"format[{tag}]/is_future", fut_src == "diff.invert", f"is_future = {fut_src}; must be diff.invert", m.loc(fn))
        n += 1
        _ = marked
    ctx.count("format_paths", n)


def _closure(ctx, paths) -> None:
    locs = locales()
    ctx.count("locales", len(locs))
    templates = set()
    for flags, future, fut_src, unit, keys, p in paths:
        for k, use in keys:
            templates.add((k, use))
    ctx.count("key_templates", len(templates))
    dm, im = pmod("duration"), pmod("interval")
    iw_units = []
    for mod_, q in ((dm, "Duration.in_words"), (im, "Interval.in_words")):
        fn = mod_.func(q)
        lst = core.assigns_to(fn, "intervals")
        us = [e.elts[0].value for e in lst[0].elts] if lst and isinstance(lst[0], ast.List) else []
        iw_units.append(us)
        ctx.ob("INWORDS.units", q, us == UNITS, f"units listed {us}; expected {UNITS}", mod_.loc(fn))
        # the key templates handed to <locale>.translation(...), with local names abstracted away: a key argument that is a
        # local is replaced by the f-strings assigned to it; {x} -> {unit}, {<locale>.plural(abs(n))} -> {plural(abs(count))}
        def template(js) -> str | None:
            if isinstance(js, ast.Constant) and isinstance(js.value, str):
                return js.value
            if not isinstance(js, ast.JoinedStr):
                return None
            out_ = ""
            for v_ in js.values:
                if isinstance(v_, ast.Constant):
                    out_ += str(v_.value)
                    continue
                e_ = v_.value
                if isinstance(e_, ast.Name):        # a named intermediate: `plural_form = <locale>.plural(...)`
                    pl = [x for x in core.assigns_to(fn, e_.id) if isinstance(x, ast.Call) and isinstance(x.func, ast.Attribute) and x.func.attr == "plural"]
                    if pl:
                        e_ = pl[0]
                if isinstance(e_, ast.Call) and isinstance(e_.func, ast.Attribute) and e_.func.attr == "plural" and len(e_.args) == 1:
                    a_ = e_.args[0]
                    if isinstance(a_, ast.Constant):
                        out_ += f"{{plural({a_.value})}}"
                    elif isinstance(a_, ast.Call) and nun(a_.func) == "abs" and len(a_.args) == 1 and isinstance(a_.args[0], ast.Name):
                        out_ += "{plural(abs(count))}"
                    else:
                        out_ += f"{{plural({nun(a_)})}}"
                elif isinstance(e_, ast.Name):
                    out_ += "{unit}"
                else:
                    out_ += f"{{{nun(e_)}}}"
            return out_
        keys = set()
        for c in core.calls(fn):
            if isinstance(c.func, ast.Attribute) and c.func.attr == "translation" and c.args:
                a0 = c.args[0]
                cands = [a0]
                if isinstance(a0, ast.Name):
                    cands = [x for x in core.assigns_to(fn, a0.id)] + [t_.value for t_ in core.walk_fn(fn) if isinstance(t_, ast.Assign) and nun(t_.targets[0]) == a0.id]
                for cnd in cands:
                    t_ = template(cnd)
                    if t_ is not None:
                        keys.add(t_)
        want = {"units.{unit}.{plural(abs(count))}", "units.second.{plural(1)}", "units.microsecond.{plural(0)}"}
        ctx.ob("INWORDS.keys", q, keys == want, f"translation key templates {sorted(keys)}; expected {sorted(want)}", mod_.loc(fn))
    total = 0
    for loc in locs:
        try:
            data = load_locale(loc)
            plurals = lambda_range(data["plural"])
            p1, p0 = lambda_eval(data["plural"], 1), lambda_eval(data["plural"], 0)
            reach = {lambda_eval(data["plural"], n) for n in range(0, 1001)}
        except (core.Unsupported, core.NotConst, KeyError) as e:
            ctx.unverified("KEY-CLOSURE", f"{loc}", f"locale literal not foldable: {e}", f"src/pendulum/locales/{loc}/locale.py")
            continue
        rel = f"src/pendulum/locales/{loc}/locale.py"
        try:
            PLURAL_TABLES[loc] = tuple(lambda_eval(data["plural"], n) for n in range(0, 1001))
            if "ordinal" in data:
                ORDINAL_TABLES[loc] = tuple(lambda_eval(data["ordinal"], n) for n in range(0, 1001))
        except (core.Unsupported, core.NotConst, KeyError):
            pass
        ctx.ob("PLURAL.range", f"{loc}/plural", reach <= plurals, f"classes reached for 0..1000 {sorted(reach)} vs result constants {sorted(plurals)}", rel,
               nontrivial=False)
        few = resolve(data, "custom.units.few_second")[0] == "OK"
        # instantiate
        inst: set[tuple[str, str]] = set()
        fill_of: dict[str, set | None] = {}
        for k, use in templates:
            if "<unresolved" in k:
                ctx.unverified("KEY-CLOSURE", f"{loc}/{k}", "key could not be evaluated symbolically", rel)
                continue
            for pl in sorted(reach if "<plural>" in k else [""]):
                inst.add((k.replace("<plural>", pl), use))
                fill_of[k.replace("<plural>", pl)] = FILLS.get(k)
        for k, use in sorted(inst):
            st, val = resolve(data, k)
            total += 1
            if k == "custom.units.few_second":
                continue     # optional by construction (`if time is not None`)
            if k.startswith("custom.units_relative."):
                if st == "MISSING":
                    continue     # optional: falls back to translations.units
                okv = st == "OK" and isinstance(val, dict) and all(pl in val and isinstance(val[pl], str) for pl in reach)
                ctx.ob("KEY-CLOSURE", f"{loc}/{k}", okv, f"special relative forms {val if st == 'OK' else st} must cover the plural classes {sorted(reach)}", rel)
                if okv:
                    for pl in reach:
                        ok_f, why = fields_ok(val[pl])
                        ctx.ob("PLACEHOLDERS", f"{loc}/{k}.{pl}", ok_f, f"`{val[pl]}`: {why}", rel)
                continue
            if k in ("custom.from_now", "custom.ago") and not few:
                continue     # only used on the few-seconds path, which needs custom.units.few_second
            ok = st == "OK" and isinstance(val, str)
            ctx.ob("KEY-CLOSURE", f"{loc}/{k}", ok,
                   f"key `{k}` " + ("resolves" if ok else f"does not resolve to a string ({st}: {str(val)[:40]}): Locale.get returns None / raises and "
                                    f".format() fails for this locale"), rel)
            if ok and use == "format":
                ok_f, why = fields_ok(val, fill_of.get(k))
                ctx.ob("PLACEHOLDERS", f"{loc}/{k}", ok_f, f"`{val}`: {why}", rel)
        # in_words keys
        for u in UNITS:
            for pl in sorted(reach):
                k = f"translations.units.{u}.{pl}"
                st, val = resolve(data, k)
                total += 1
                ok = st == "OK" and isinstance(val, str)
                ctx.ob("KEY-CLOSURE", f"{loc}/{k}", ok, f"in_words key `{k}`: {st}", rel)
                if ok:
                    ok_f, why = fields_ok(val)
                    ctx.ob("PLACEHOLDERS", f"{loc}/{k}", ok_f, f"`{val}`: {why}", rel)
        for k in (f"translations.units.second.{p1}", f"translations.units.microsecond.{p0}"):
            st, val = resolve(data, k)
            total += 1
            ok = st == "OK" and isinstance(val, str)
            ctx.ob("KEY-CLOSURE", f"{loc}/{k}", ok, f"in_words fallback key `{k}`: {st}", rel)
            if ok:
                ok_f, why = fields_ok(val)
                ctx.ob("PLACEHOLDERS", f"{loc}/{k}", ok_f, f"`{val}`: {why}", rel)
        _tokens(ctx, loc, data, rel)
        _direction_markers(ctx, loc, data, rel)
    ctx.count("key_instances", total)
    _plural_siblings(ctx)


PLURAL_TABLES: dict[str, tuple] = {}
ORDINAL_TABLES: dict[str, tuple] = {}
# Locales whose CLDR plural rules coincide on the non-negative integers (confirmed by reading the CLDR rules: cs = sk: one 1, few 2-4; the
# Germanic / Romance group: one exactly 1; fa / fr / pt_br: one for 0 and 1; id / ja / ko / zh: no plural; ru = ua: one 1 / few 2-4 / many
# by last digit, 11-14 many) and whose English ordinal rules coincide.  he, lt and pl have no sibling among the shipped locales.
PLURAL_SIBLINGS = [("cs", "sk"), ("da", "de", "en", "en_gb", "en_us", "es", "fo", "it", "nb", "nl", "nn", "sv", "tr"), ("fa", "fr", "pt_br"), ("id", "ja", "ko", "zh"), ("ru", "ua")]
ORDINAL_SIBLINGS = [("en", "en_gb", "en_us")]


def _plural_siblings(ctx) -> None:
    """PLURAL.sibling: locales whose plural (ordinal) rules are the same in CLDR must give the same plural class for every count 0..1000 - a cell
    of one locale's rule changed on its own shows as a disagreement with its siblings (which of the two is right is not decided without CLDR:
    the majority of the group, or for a pair both members, are named)."""
    for tables, groups, what in ((PLURAL_TABLES, PLURAL_SIBLINGS, "plural"), (ORDINAL_TABLES, ORDINAL_SIBLINGS, "ordinal")):
        for grp in groups:
            have = [l for l in grp if l in tables]
            if len(have) < 2:
                continue
            import collections
            votes = collections.Counter(tables[l] for l in have)
            ref, cnt = votes.most_common(1)[0]
            for l in have:
                if tables[l] != ref or (cnt * 2 <= len(have) and len(votes) > 1):
                    other = next(x for x in have if tables[x] != tables[l]) if len(votes) > 1 else None
                    if other is None:
                        continue
                    n_ = next(i for i in range(1001) if tables[l][i] != tables[other][i])
                    ctx.ob("PLURAL.sibling", f"{l}/{what}", False, f"{what} class of {n_} is `{tables[l][n_]}` in {l} but `{tables[other][n_]}` in {other}: the two locales have the same {what} rule in CLDR "
                           f"(group {', '.join(grp)})", f"src/pendulum/locales/{l}/locale.py")
                else:
                    ctx.ob("PLURAL.sibling", f"{l}/{what}", True, f"agrees with its siblings ({', '.join(x for x in have if x != l)}) on 0..1000", f"src/pendulum/locales/{l}/locale.py", nontrivial=False)


def _direction_markers(ctx, loc: str, data: dict, rel: str) -> None:
    """MARKER.direction: the phrase must carry the marker of its direction.  Within one locale the templates of translations.relative
    share, per direction, one way of marking it - the words before the placeholder (`in {0} ...`, `vor {0} ...`) or, when nothing precedes
    it, the last word (`{0} ... ago`).  When such a marker is common to at least six templates of one direction and never used by the
    other, a template of the other direction that carries it is reported (a future phrase that reads as past, or the reverse); so is a
    future template equal to a past template of the same unit, and custom.after == custom.before / from_now == ago."""
    rel_t = (data.get("translations") or {}).get("relative") or {}
    if not isinstance(rel_t, dict):
        return

    def sig(t):
        if not isinstance(t, str) or "{0}" not in t:
            return None
        pre = t.split("{0}")[0].strip()
        return (pre, "") if pre else ("", t.split("{0}")[-1].strip().split(" ")[-1])
    seen = {"future": {}, "past": {}}
    for unit, v in rel_t.items():
        if not isinstance(v, dict):
            continue
        fut, past = v.get("future") or {}, v.get("past") or {}
        if isinstance(fut, dict) and isinstance(past, dict):
            same = sorted(k for k, t in fut.items() if isinstance(t, str) and t in past.values())
            ctx.ob("MARKER.direction", f"{loc}/relative.{unit}", not same,
                   f"future and past templates differ" if not same else f"future.{same[0]} = `{fut[same[0]]}` is also a past template of the unit: the phrase cannot tell the direction", rel, nontrivial=False)
        for dirn in ("future", "past"):
            for k, t in (v.get(dirn) or {}).items() if isinstance(v.get(dirn), dict) else ():
                sg = sig(t)
                if sg is not None:
                    seen[dirn].setdefault(sg, []).append((unit, k, t))
    for dirn, other in (("future", "past"), ("past", "future")):
        for sg, items in seen[other].items():
            if len(items) >= 6:
                wrong = seen[dirn].get(sg, [])
                # the marker of `other`, used by most of its templates; in `dirn` it may only appear if `dirn` uses it as widely itself
                if wrong and len(wrong) < 3:
                    for unit, k, t in wrong:
                        ctx.ob("MARKER.direction", f"{loc}/relative.{unit}.{dirn}.{k}", False,
                               f"`{t}` carries the marker of the {other} ({' '.join(x for x in sg if x)!r}, used by {len(items)} {other} templates of this locale and by no other {dirn} template)", rel)
    c = data.get("custom") or {}
    for a, b in (("after", "before"), ("from_now", "ago")):
        if isinstance(c.get(a), str) and isinstance(c.get(b), str):
            ctx.ob("MARKER.direction", f"{loc}/custom.{a}", c[a] != c[b], f"custom.{a} = `{c[a]}` and custom.{b} = `{c[b]}`", rel, nontrivial=False)


def _tokens(ctx, loc: str, data: dict, rel: str) -> None:
    for k, n, lo in (("translations.months.wide", 12, 1), ("translations.months.abbreviated", 12, 1), ("translations.days.wide", 7, 0),
                     ("translations.days.abbreviated", 7, 0), ("translations.days.short", 7, 0)):
        st, val = resolve(data, k)
        ok = st == "OK" and isinstance(val, dict) and all(i in val and isinstance(val[i], str) for i in range(lo, lo + n))
        ctx.ob("TOKENS.tables", f"{loc}/{k}", ok, f"{k}: {st}; needs string entries {lo}..{lo + n - 1}", rel)
    for k in ("translations.day_periods.am", "translations.day_periods.pm"):
        st, val = resolve(data, k)
        ctx.ob("TOKENS.tables", f"{loc}/{k}", st == "OK" and isinstance(val, str), f"{k}: {st}", rel)
    st, val = resolve(data, "translations.week_data.first_day")
    ctx.ob("TOKENS.week_data", f"{loc}/translations.week_data.first_day", st == "OK" and isinstance(val, int) and not isinstance(val, bool),
           f"translations.week_data.first_day: {st} {val if st == 'OK' else ''}; the e/eo tokens subtract it from the weekday (TypeError on None)", rel)
    try:
        ords = lambda_range(data["ordinal"])
    except (core.Unsupported, KeyError) as e:
        ctx.unverified("TOKENS.ordinal", f"{loc}", str(e), rel)
        ords = set()
    st, val = resolve(data, "custom.ordinal")
    if st == "OK":
        ok = isinstance(val, dict) and all(isinstance(v, str) for v in val.values())
        ctx.ob("TOKENS.ordinal", f"{loc}/custom.ordinal", ok, f"custom.ordinal {val}; suffixes must be strings (classes {sorted(ords)})", rel, nontrivial=False)
    st, val = resolve(data, "custom.date_formats")
    if st == "OK" and isinstance(val, dict):
        from . import C08
        lang = C08.token_language()
        rx_tok = core.const("formatting.formatter", "_TOKENS", "Formatter")
        import re
        cre = re.compile(rx_tok)
        for name, fmt in val.items():
            ok = name in ("LTS", "LT", "L", "LL", "LLL", "LLLL") and isinstance(fmt, str)
            bad = []
            if ok:
                rest = cre.sub("", fmt)
                bad = sorted(set(c for c in rest if c.isascii() and c.isalpha()))
            ctx.ob("TOKENS.date_formats", f"{loc}/custom.date_formats.{name}", ok and not bad,
                   f"`{fmt}` leaves the ASCII letters {bad} un-tokenised (neither format tokens nor escaped: they would be printed verbatim)", rel, nontrivial=False)
        _ = lang


LADDER = '''
locale = self._locale if locale is None else Locale.load(locale)
if diff.years > 0:
    unit = 'year'
    count = diff.years
    if diff.months > 6:
        count += 1
elif diff.months == 11 and diff.weeks * 7 + diff.remaining_days > 15:
    unit = 'year'
    count = 1
elif diff.months > 0:
    unit = 'month'
    count = diff.months
    if diff.weeks * 7 + diff.remaining_days >= 27:
        count += 1
elif diff.weeks > 0:
    unit = 'week'
    count = diff.weeks
    if diff.remaining_days > 3:
        count += 1
elif diff.remaining_days > 0:
    unit = 'day'
    count = diff.remaining_days
    if diff.hours >= 22:
        count += 1
elif diff.hours > 0:
    unit = 'hour'
    count = diff.hours
elif diff.minutes > 0:
    unit = 'minute'
    count = diff.minutes
elif 10 < diff.remaining_seconds <= 59:
    unit = 'second'
    count = diff.remaining_seconds
else:
    time = locale.get('custom.units.few_second')
    if time is not None:
        if absolute:
            return time
        key = 'custom'
        is_future = diff.invert
        if is_now:
            if is_future:
                key += '.from_now'
            else:
                key += '.ago'
        elif is_future:
            key += '.after'
        else:
            key += '.before'
        return locale.get(key).format(time)
    else:
        unit = 'second'
        count = diff.remaining_seconds
if count == 0:
    count = 1
'''


def _ladder(ctx, m, fn) -> None:
    body = core.body_no_doc(fn)
    # order of the arms: (attribute tested, unit chosen)
    chain = [s_ for s_ in body if isinstance(s_, ast.If) and "diff.years" in un(s_.test)]
    if chain:
        arms = []
        node = chain[0]
        while isinstance(node, ast.If):
            tested = sorted({a.attr for a in ast.walk(node.test) if isinstance(a, ast.Attribute) and un(a.value) == "diff"})
            unit = [s_.value.value for s_ in node.body if isinstance(s_, ast.Assign) and nun(s_.targets[0]) == "unit" and isinstance(s_.value, ast.Constant)]
            arms.append((tested[0] if len(tested) == 1 else "+".join(tested), unit[0] if unit else None))
            node = node.orelse[0] if len(node.orelse) == 1 and isinstance(node.orelse[0], ast.If) else None
        want = [("years", "year"), ("months+remaining_days+weeks", "year"), ("months", "month"), ("weeks", "week"), ("remaining_days", "day"),
                ("hours", "hour"), ("minutes", "minute"), ("remaining_seconds", "second")]
        ctx.ob("LADDER.order", "DifferenceFormatter.format/arm-order", arms == want,
               f"arms (component tested -> unit) {arms}; the largest non-zero unit must win: {want}", m.loc(chain[0]))
    else:
        ctx.unverified("LADDER.order", "DifferenceFormatter.format", "unit ladder not found", m.loc(fn))
    n = len(ast.parse(LADDER).body)
    got = [nun(s) for s in body[:n]]
    tmpl = [nun(s) for s in ast.parse(LADDER).body]
    if got == tmpl:
        ctx.ob("LADDER.shape", "DifferenceFormatter.format/unit-selection", True, "unit ladder has the reference shape", m.loc(fn))
        return
    fg, ft = T.features(got), T.features(tmpl)
    if fg == ft:
        ctx.unverified("LADDER.shape", "DifferenceFormatter.format/unit-selection", "restructured with the same thresholds and units", m.loc(fn))
    else:
        ctx.ob("LADDER.shape", "DifferenceFormatter.format/unit-selection", False,
               f"unit-selection ladder deviates: unexpected {sorted(map(str, (fg - ft).elements()))[:5]}, missing {sorted(map(str, (ft - fg).elements()))[:5]} "
               f"(units are tested from the largest to the smallest and a count is rounded up only inside its own unit)", m.loc(fn))


def _human_tabulate(ctx, m, fn):
    """HUMAN.tabulated: DifferenceFormatter.format run by the checker's interpreter on difference stubs (components years .. seconds
    on both sides of every threshold, inverted or not) x is_now x absolute x locales with and without the 'few seconds' form and
    with and without special relative forms; the locale stub records the keys asked for and answers with templates that show
    what they were filled with.  The phrase must be the one the rule says: the largest non-zero unit, rounded up only inside its
    own unit (months > 6, days >= 27, days > 3, hours >= 22), never zero, 'a few seconds' up to 10 s where the locale has
    it, no marker when absolute, future / from_now / after exactly for an inverted difference, the plural class of the count.
    Returns the (key template, use) pairs requested, for the key-closure rule; None when outside the interpreter."""
    from ..rules import minieval
    S = minieval.Stub
    used: set[tuple[str, str]] = set()

    class Tpl(S):
        pass

    def spec(d, is_now, absolute, few, special):
        days = d["weeks"] * 7 + d["remaining_days"]
        if d["years"] > 0:
            unit, count = "year", d["years"] + (1 if d["months"] > 6 else 0)
        elif d["months"] == 11 and days > 15:
            unit, count = "year", 1
        elif d["months"] > 0:
            unit, count = "month", d["months"] + (1 if days >= 27 else 0)
        elif d["weeks"] > 0:
            unit, count = "week", d["weeks"] + (1 if d["remaining_days"] > 3 else 0)
        elif d["remaining_days"] > 0:
            unit, count = "day", d["remaining_days"] + (1 if d["hours"] >= 22 else 0)
        elif d["hours"] > 0:
            unit, count = "hour", d["hours"]
        elif d["minutes"] > 0:
            unit, count = "minute", d["minutes"]
        elif 10 < d["remaining_seconds"] <= 59:
            unit, count = "second", d["remaining_seconds"]
        elif few:
            if absolute:
                return "FEW"
            k = "custom." + (("from_now" if d["invert"] else "ago") if is_now else ("after" if d["invert"] else "before"))
            return f"[{k}](FEW)"
        else:
            unit, count = "second", d["remaining_seconds"]
        count = count or 1
        if absolute:
            return f"[translations.units.{unit}.<plural>]({count})"
        fut = d["invert"]
        if is_now:
            return f"[translations.relative.{unit}.{'future' if fut else 'past'}.<plural>]({count})"
        if special:
            time = f"[custom.units_relative.{unit}.{'future' if fut else 'past'}/<plural>]({count})"
        else:
            time = f"[translations.units.{unit}.<plural>]({count})"
        return f"[custom.{'after' if fut else 'before'}]({time})"
    grid = []
    zero = dict(years=0, months=0, weeks=0, remaining_days=0, hours=0, minutes=0, remaining_seconds=0)
    for y, mo in ((1, 0), (1, 6), (1, 7), (2, 11), (0, 11), (0, 6), (0, 1)):
        for wk, rd in ((0, 0), (2, 1), (2, 2), (3, 5), (3, 6)):
            grid.append(dict(zero, years=y, months=mo, weeks=wk, remaining_days=rd, hours=23, minutes=59, remaining_seconds=59))
    for wk, rd, h in ((1, 0, 0), (1, 3, 23), (1, 4, 0), (3, 6, 0), (0, 1, 21), (0, 1, 22), (0, 6, 23), (0, 3, 0)):
        grid.append(dict(zero, weeks=wk, remaining_days=rd, hours=h, minutes=30, remaining_seconds=30))
    for h, mi, sec in ((1, 0, 0), (23, 59, 59), (0, 1, 0), (0, 59, 59), (0, 0, 59), (0, 0, 11), (0, 0, 10), (0, 0, 1), (0, 0, 0)):
        grid.append(dict(zero, hours=h, minutes=mi, remaining_seconds=sec))
    bad, n = [], 0
    try:
        funcs = {st.name: st for st in m.top() if isinstance(st, ast.FunctionDef)}
        meths = m.methods("DifferenceFormatter")
        for comp in grid:
            for invert in (False, True):
                for is_now in (True, False):
                    for absolute in (False, True):
                        for few in (True, False):
                            for special in ((False, True) if (not is_now and not absolute) else (False,)):
                                d = dict(comp, invert=invert)

                                def get(key, _few=few, _special=special):
                                    if key == "custom.units.few_second":
                                        used.add((key, "value"))
                                        return "FEW" if _few else None
                                    if key.startswith("custom.units_relative."):
                                        used.add((key, "value"))
                                        if not _special:
                                            return None
                                        return {"<plural>": Tpl(format=lambda x, _k=key: f"[{_k}/<plural>]({x})")}

                                    def fmt(*a, _k=key, **kw):
                                        # a template is filled with one value, by position ({0}) and / or by name ({time}, {count}): the same value
                                        vals = list(a) + list(kw.values())
                                        if not vals or any(v != vals[0] for v in vals):
                                            raise core.Unsupported(f"template `{_k}` filled with {len(vals)} different values")
                                        x = vals[0]
                                        FILLS.setdefault(_k, set()).add((len(a), tuple(sorted(kw))))
                                        used.discard((_k, "value"))
                                        used.add((_k, "format"))
                                        return f"[{_k}]({x})"
                                    if (key, "format") not in used:
                                        used.add((key, "value"))
                                    return Tpl(format=fmt)
                                loc = S(get=get, plural=lambda c: "<plural>", _eqkey="loc")
                                selfo = minieval.Obj(_methods=meths, _props=set(), _ctor=None, _natives={}, **{**minieval.class_level(m, "DifferenceFormatter"), "_locale": loc})
                                glob = {"Locale": minieval.Stub(load=lambda x: x), "t": S(cast=lambda ty, v: v), "str": str}
                                n += 1
                                got = minieval.call(fn, [selfo, S(**d), is_now, absolute, loc], {}, {**funcs, "$globals": glob})
                                want = spec(d, is_now, absolute, few, special)
                                if got != want:
                                    bad.append(f"{ {k: v for k, v in d.items() if v} } is_now={is_now} absolute={absolute}" + (" (locale without 'a few seconds')" if not few else "")
                                               + (" (locale with special relative forms)" if special else "") + f": {got!r} (expected {want!r})")
    except (core.Unsupported, KeyError, TypeError, AttributeError, IndexError, ValueError, minieval.Raised, RecursionError) as e:
        ctx.unverified("HUMAN.tabulated", "DifferenceFormatter.format", f"outside the checker's interpreter: {type(e).__name__}: {e}", m.loc(fn))
        return None
    ctx.ob("HUMAN.tabulated", "DifferenceFormatter.format", not bad, f"{n} (difference, is_now, absolute, locale shape) cases: " + (f"wrong: {bad[:3]}" if bad else
           "always the phrase of the largest unit, rounded inside its unit, with the marker of the direction"), m.loc(fn))
    if bad:
        return None
    ctx.established(("DIRECTION", "LADDER"), "format[", "HUMAN.tabulated")
    ctx.established(("DIRECTION", "LADDER"), "DifferenceFormatter.format", "HUMAN.tabulated")
    return sorted(used)


def _inwords_tabulate(ctx) -> None:
    """INWORDS.tabulated: Duration.in_words and Interval.in_words run by the checker's interpreter on component stubs (positive,
    negative, zero, sub-second only) with a recording locale: one part per non-zero unit from the largest to the smallest -
    key units.<unit>.<plural of |count|> filled with the signed count -, joined by the separator; a sub-second length as
    seconds with two decimals under plural(1), nothing at all as 0 microseconds under plural(0); the locale asked for, or the
    process-wide one when none is given."""
    from ..rules import minieval
    S = minieval.Stub
    dm, im = pmod("duration"), pmod("interval")
    dmeths = dm.methods("Duration")
    dfuncs = {st.name: st for st in dm.top() if isinstance(st, ast.FunctionDef)}
    comps = ["years", "months", "weeks", "remaining_days", "hours", "minutes", "remaining_seconds"]
    units = dict(zip(comps, UNITS))
    cases = [dict(years=1, months=2, weeks=3, remaining_days=4, hours=5, minutes=6, remaining_seconds=7, microseconds=8), dict(years=-1, months=0, weeks=0, remaining_days=-2, hours=0, minutes=0, remaining_seconds=-30, microseconds=0),
             dict(years=0, months=0, weeks=0, remaining_days=0, hours=0, minutes=0, remaining_seconds=0, microseconds=250000), dict(years=0, months=0, weeks=0, remaining_days=0, hours=0, minutes=0, remaining_seconds=0, microseconds=-1500),
             dict(years=0, months=0, weeks=0, remaining_days=0, hours=0, minutes=0, remaining_seconds=0, microseconds=0), dict(years=0, months=0, weeks=1, remaining_days=0, hours=0, minutes=1, remaining_seconds=0, microseconds=999)]
    for mod_, cls in ((dm, "Duration"), (im, "Interval")):
        meths = mod_.methods(cls)
        if "in_words" not in meths:
            continue
        bad, n = [], 0
        try:
            for c in cases:
                for given, sep in ((None, " "), ("fr", ", ")):
                    loaded = []

                    def mkloc(name):
                        loaded.append(name)
                        return S(translation=lambda key: S(format=lambda x, _k=key: f"[{_k}]({x})"), plural=lambda cnt: f"<plural({cnt})>", _eqkey=name)
                    pend = S(get_locale=lambda: "DEFAULT", locale=mkloc)
                    glob = {"pendulum": pend, "Locale": S(load=mkloc), "abs": abs}
                    o = minieval.Obj(_methods=meths, _props=set(), _ctor=None, _natives={}, _super=(dmeths, {**dfuncs, "$globals": glob}), **{**minieval.class_level(mod_, cls), **c})
                    funcs = {st.name: st for st in mod_.top() if isinstance(st, ast.FunctionDef)}
                    n += 1
                    got = minieval.call(meths["in_words"], [o] + ([given] if given else []), ({"separator": sep} if given else {}), {**funcs, "$globals": glob})
                    parts = [f"[units.{units[k]}.<plural({abs(c[k])})>]({c[k]})" for k in comps if abs(c[k]) > 0]
                    if not parts:
                        parts = [f"[units.second.<plural(1)>]({abs(c['microseconds']) / 1e6:.2f})"] if abs(c["microseconds"]) > 0 else ["[units.microsecond.<plural(0)>](0)"]
                    want = sep.join(parts)
                    label = f"{cls}({ {k: v for k, v in c.items() if v} }).in_words({'locale=' + repr(given) + ', separator=' + repr(sep) if given else ''})"
                    if got != want:
                        bad.append(f"{label}: {got!r} (expected {want!r})")
                    elif loaded != [given or "DEFAULT"]:
                        bad.append(f"{label}: loads the locale(s) {loaded} (expected {[given or 'the process-wide locale']})")
        except (core.Unsupported, KeyError, TypeError, AttributeError, IndexError, ValueError, minieval.Raised, RecursionError) as e:
            ctx.unverified("INWORDS.tabulated", f"{cls}.in_words", f"outside the checker's interpreter: {type(e).__name__}: {e}", mod_.loc(meths["in_words"]))
            continue
        ctx.ob("INWORDS.tabulated", f"{cls}.in_words", not bad, f"{n} cases: " + (f"wrong: {bad[:3]}" if bad else "the wording rule holds on every case"), mod_.loc(meths["in_words"]))
        if not bad:
            ctx.established(("INWORDS", "LOCALE.default"), f"{cls}.in_words", "INWORDS.tabulated")


def _ordinalize_tabulate(ctx) -> None:
    """ORDINALIZE.tabulated: Locale.ordinalize (and what it reaches: ordinal(), get()) run by the checker's interpreter on the data of every
    shipped locale for the numbers 0..130, 200, 1000 (every value a day, a month, a quarter, a week or a day of the year can take reaches
    every ordinal class of every locale): the result is the number followed by the locale's suffix for its class - the bare number where the
    locale has no suffix for it - and no exception."""
    from ..rules import fmtstub, minieval
    try:
        wd = fmtstub.World()
    except fmtstub.ERRORS as e:
        ctx.unverified("ORDINALIZE.tabulated", "Locale.ordinalize", f"outside the checker's interpreter: {type(e).__name__}: {str(e)[:160]}", "src/pendulum/locales/locale.py")
        return
    if "ordinalize" not in wd.lmeths:
        ctx.unverified("ORDINALIZE.tabulated", "Locale.ordinalize", "method not found", wd.lm.rel)
        return
    lfuncs = {**{st.name: st for st in wd.lm.top() if isinstance(st, ast.FunctionDef)}, "$globals": {**minieval.module_consts(wd.lm), "re": fmtstub.RE, "cast": lambda t, v: v}}
    nums = list(range(0, 131)) + [200, 1000]
    for loc in sorted(p_.name for p_ in (core.REPO / "src/pendulum/locales").iterdir() if p_.is_dir() and (p_ / "locale.py").exists()):
        bad = []
        try:
            L = wd.load_locale(loc)
            data = vars(L)["_data"]
            suffixes = (data.get("custom") or {}).get("ordinal") or {}
            for n_ in nums:
                try:
                    got = minieval.call(wd.lmeths["ordinalize"], [L, n_], {}, lfuncs)
                except minieval.Raised as e:
                    bad.append(f"ordinalize({n_}) raises {e.exc_name}")
                    continue
                except (KeyError, IndexError) as e:      # a plain container of the locale data indexed with a key it does not have: what the code does at run time
                    bad.append(f"ordinalize({n_}) raises {type(e).__name__}({e})")
                    continue
                cls_ = data["ordinal"](n_) if callable(data.get("ordinal")) else None
                want = f"{n_}{suffixes.get(cls_) or ''}" if isinstance(suffixes, dict) else None
                if not isinstance(got, str) or not got.startswith(str(n_)) or (want is not None and got != want):
                    bad.append(f"ordinalize({n_}) = {got!r}" + (f" (expected {want!r})" if want is not None else ""))
        except fmtstub.ERRORS as e:
            ctx.unverified("ORDINALIZE.tabulated", f"{loc}/ordinalize", f"outside the checker's interpreter: {type(e).__name__}: {str(e)[:160]}", f"src/pendulum/locales/{loc}/locale.py")
            continue
        ctx.ob("ORDINALIZE.tabulated", f"{loc}/ordinalize", not bad, f"{len(nums)} numbers: " + (f"wrong: {bad[:4]}" if bad else "the number and the suffix of its class, no exception"),
               f"src/pendulum/locales/{loc}/locale.py")


def run(ctx) -> None:
    ctx.explanation = EXPLANATION
    ctx.step(_ordinalize_tabulate, ctx)
    ctx.step(_inwords_tabulate, ctx)
    m0 = pmod("formatting.difference_formatter")
    keys_by_value = ctx.step(_human_tabulate, ctx, m0, m0.func("DifferenceFormatter.format"))
    m, fn, paths = format_paths(ctx)
    if keys_by_value:
        # the keys the formatter asks a locale for, as observed on every case of the tabulation (independent of how format() is written)
        paths_for_closure = [({}, None, None, None, list(keys_by_value), None)]
    else:
        paths_for_closure = paths
    ctx.step(_direction, ctx, m, fn, paths)
    ctx.step(_ladder, ctx, m, fn)
    ctx.step(_closure, ctx, paths_for_closure)
    hm = pmod("helpers")
    r = core.returns(hm.func("format_diff"))
    ctx.ob("FORWARD", "helpers.format_diff", len(r) == 1 and nun(r[0].value) == "difference_formatter.format(diff, is_now, absolute, locale)",
           f"{[nun(x.value) for x in r]}", hm.rel)
    body = [nun(s_) for s_ in core.body_no_doc(hm.func("format_diff"))]
    ctx.ob("LOCALE.default", "helpers.format_diff/default-locale", "if locale is None:\n    locale = get_locale()" in body,
           f"{body}; without an explicit locale the process-wide one (set_locale) must be used - DifferenceFormatter falls back to "
           f"its own constructor locale 'en' for None", hm.loc(hm.func("format_diff")))
    for mod_, q in ((pmod("duration"), "Duration.in_words"), (pmod("interval"), "Interval.in_words"), (pmod("formatting.formatter"), "Formatter.format")):
        src_ = nun(mod_.func(q))
        ctx.ob("LOCALE.default", f"{q}/default-locale", "pendulum.get_locale()" in src_,
               "the default locale must come from pendulum.get_locale()", mod_.loc(mod_.func(q)))
    for modname, cls in (("datetime", "DateTime"), ("date", "Date"), ("time", "Time")):
        mm = pmod(modname)
        f2 = mm.func(f"{cls}.diff_for_humans")
        r = core.returns(f2)
        ok = len(r) == 1 and nun(r[0].value) == "pendulum.format_diff(diff, is_now, absolute, locale)" and "is_now = other is None" in [nun(s) for s in core.body_no_doc(f2)]
        ctx.ob("FORWARD", f"{cls}.diff_for_humans", ok, f"{[nun(x.value) for x in r]}; is_now must mean `other is None`", mm.loc(f2))
    from . import C09
    ctx.step(C09._digits, ctx)        # the counts put into the phrases for a plain Duration (Time differences, in_words) are its mixed-radix digits
    ctx.expect_min("KEY-CLOSURE", 800)
    ctx.expect_min("PLACEHOLDERS", 800)
    ctx.expect_min("DIRECTION", 40)
    ctx.expect_min("TOKENS", 200)
    ctx.assumptions += ["locale data are dictionary literals (plus plural/ordinal lambdas) as generated from CLDR; the checker folds them from the AST",
                        "plural classes are tabulated for counts 0..1000 with the checker's own evaluator of the lambda AST"]
