#!/venv/bin/python
"""stores the confirmed round-6 seeds as /verif/seeded/Cxx-14, Cxx-15"""
import json, os, shutil
first = {"C01-1": "missed by every check", "C01-2": "caught by C02 / C11 (FUNNEL.replace) only", "C03-1": "caught by C01 (FUNNEL.aware) only", "C06-2": "missed by every check", "C07-2": "missed by every check (the rule that saw it was established by a value table that stopped at +14:00)",
         "C10-2": "missed by every check", "C12-2": "missed by every check", "C14-1": "missed by every check (rule group UNVERIFIED)", "C17-1": "missed by every check; it pointed at a genuine defect next to it (fix ccb1e02), which supersedes it",
         "C19-1": "caught by C05 (ORDER.instant) only", "C20-1": "caught by C09 / C14 / C18 (RADIX) only"}
n = 0
for i in range(1, 21):
    p = f"C{i:02d}"
    for k in (1, 2):
        d = f"/tmp/wt/W{i:02d}/out/{k}"
        sid = f"{p}-{k}"
        conf = json.load(open(f"/tmp/wt/results6/{sid}.json"))
        chk = json.load(open(f"/tmp/wt/results6q/{sid}.json"))
        ok = conf.get("demo_passes_without") and conf.get("demo_fails_with") and conf.get("suite_passes_with")
        if not ok:
            print(sid, "NOT CONFIRMED"); continue
        am = json.load(open(f"{d}/meta.json"))
        dst = f"/verif/seeded/{p}-{k + 13}"
        os.makedirs(dst, exist_ok=True)
        shutil.copy(f"{d}/patch.diff", f"{dst}/patch.diff")
        shutil.copy(f"{d}/demo.py", f"{dst}/demo.py")
        fired = chk.get("checks_fired", {})
        caught = "; ".join(f"{q}: " + "; ".join(v["rules"][:2]) for q, v in fired.items() if q != "_unverified" and v.get("rc") == 1)
        meta = {"property": p, "round": 6, "clause": am.get("clause"), "needs": am.get("needs"), "files": am.get("files"), "env": am.get("env") or {},
                "author": "independent sub-agent given only the property text, the list of earlier ideas to avoid, and a private worktree (nothing from /verif)",
                "confirmed_here": {"suite_still_at_baseline_with_change": bool(conf.get("suite_passes_with")), "demo_fails_with_change": bool(conf.get("demo_fails_with")),
                                   "demo_passes_without_change": bool(conf.get("demo_passes_without")),
                                   "how": "tools/eval_seed.py: scratch worktree /tmp/wt/verify at 070446d (git apply patch.diff; Rust changes: extension rebuilt), /tmp/wt/suite_check.py (pinned suite vs BASELINE stable_pass), demo.py run with PYTHONPATH=<worktree>/src and the seed's env before and after"},
                "first_evaluation": first.get(sid, "caught by its own property"),
                "checks_run": "all 20 `./check Cxx --tier quick --repo <scratch copy of /repo sources + patch>`",
                "caught_by": caught, "caught_by_own_property": bool(chk.get("caught_by_own_property"))}
        if sid == "C17-1":
            meta["superseded"] = "fix ccb1e02 (a week date ending in its weekday separator is refused by its own guard): with it the merged guards of this change no longer let any malformed string through, so the change is behaviour-preserving on the current tree and the checks must stay quiet"
        json.dump(meta, open(f"{dst}/meta.json", "w"), indent=1)
        n += 1
print("stored", n)
