"""C19 — Interval.range() steps from the start without drift and stays inside."""
from __future__ import annotations

import ast

from .. import core
from ..core import nun, pmod, un
from ..rules import template as T

EXPLANATION = (
    "Decided statically on Interval.range (generator): the first value yielded is self.start; every later value "
    "is computed as getattr(<loop-invariant self.start>, method)(**{unit: i}) - the receiver is never the loop "
    "variable, so month-end clamping cannot accumulate; i starts at `amount` and is advanced by `amount` once "
    "per iteration after the candidate was computed; ('add', <=) and ('subtract', >=) are paired and the "
    "subtract pair is selected exactly by `not self._absolute and self.invert`; the candidate is compared with "
    "self.end before it is yielded (inclusive end, never beyond); __iter__ is range('days'); __contains__ is "
    "start <= item <= end. NOT decided: finiteness for amount <= 0 (outside the quantifier)."
    ' Also: the month-end clamp of helpers.add_duration every element goes through, the DAYS_PER_MONTHS rows and the is_leap rule in both back ends.'
    ' As built: RANGE.tabulated runs Interval.range/__iter__/__contains__ (generators evaluated eagerly) on interval stubs over forward, inverted and inverted-absolute intervals of dates and datetimes, units years..seconds, several amounts, month-end and leap-day starts, reachable and unreachable ends; where it succeeds the shape rules of range() are established by it.'
)

TEMPLATE = [
    "method = 'add'",
    "backwards = not self._absolute and self.invert",
    "if backwards:\n    method = 'subtract'",
    "start, end = (self.start, self.end)",
    "i = amount",
    "while not (_is_after(end, start) if backwards else _is_after(start, end)):\n    yield start\n    start = getattr(self.start, method)(**{unit: i})\n    i += amount",
]


def _range_tabulate(ctx, m) -> bool | None:
    """RANGE.tabulated: Interval.range / __iter__ / __contains__ run by the checker's interpreter (generators evaluated eagerly) on
    interval stubs whose bounds are values of the wall-clock / calendar world (rules/wallstub.py; add() / subtract() of the bounds
    are the primitives C03/C04 decide): forward, inverted and inverted-absolute intervals of dates and datetimes, units
    years..seconds, amounts 1, 2, 3, 7, starts at month ends and leap days, ends that are and are not reachable.  Expected:
    start, start +- amount, start +- 2*amount, ... each computed from the start (so the month-end clamp never accumulates), as
    long as the value is not beyond the end; membership is start <= x <= end."""
    import datetime as _dt
    import operator
    from ..rules import minieval, wallstub
    dm, dam = pmod("datetime"), pmod("date")
    meths = m.methods("Interval")
    props = {k for k, f in meths.items() if any(core.dotted(d) == "property" for d in f.decorator_list)}
    cases = []
    D = _dt.datetime
    for a, b, unit, amt in [(D(2021, 1, 31), D(2021, 6, 30), "months", 1), (D(2021, 1, 31), D(2021, 7, 31), "months", 2), (D(2020, 2, 29), D(2028, 2, 29), "years", 1),
                            (D(2020, 2, 29), D(2027, 3, 1), "years", 3), (D(2021, 3, 1), D(2021, 3, 22), "weeks", 1), (D(2021, 3, 1), D(2021, 3, 10), "days", 1),
                            (D(2021, 3, 1), D(2021, 3, 10), "days", 3), (D(2021, 3, 1), D(2021, 3, 1), "days", 1), (D(2021, 12, 29), D(2022, 1, 3), "days", 2),
                            (D(2021, 3, 1, 22), D(2021, 3, 2, 3), "hours", 1), (D(2021, 3, 1, 22), D(2021, 3, 2, 3, 30), "hours", 2), (D(2021, 3, 1, 0, 0), D(2021, 3, 1, 0, 5), "minutes", 1),
                            (D(2021, 3, 1, 0, 0, 58), D(2021, 3, 1, 0, 1, 2), "seconds", 1), (D(2021, 8, 31), D(2022, 3, 31), "months", 1), (D(2021, 1, 30, 12), D(2021, 4, 30, 11), "months", 1)]:
        cases.append(("DateTime", a, b, unit, amt))
    for a, b, unit, amt in [(D(2021, 1, 31), D(2021, 6, 30), "months", 1), (D(2020, 2, 29), D(2024, 2, 29), "years", 1), (D(2021, 3, 1), D(2021, 3, 10), "days", 1),
                            (D(2021, 3, 1), D(2021, 3, 10), "days", 7), (D(2021, 12, 1), D(2022, 2, 9), "weeks", 2)]:
        cases.append(("Date", a, b, unit, amt))
    bad, n = [], 0

    def length_state(elapsed: _dt.timedelta, absolute: bool) -> dict:
        """what Duration.__new__ leaves on an Interval for its elapsed length (C05 / C09): whole days, the rest, the total"""
        us = (elapsed.days * 86400 + elapsed.seconds) * 10**6 + elapsed.microseconds
        if absolute:
            us = abs(us)
        sg = -1 if us < 0 else 1
        a_ = abs(us)
        days = a_ // 10**6 // 86400 * sg
        st = {"_days": days, "_seconds": a_ // 10**6 % 86400 * sg, "_microseconds": a_ % 10**6 * sg, "_total": us / 10**6, "_weeks": abs(days) // 7 * sg, "_remaining_days": abs(days) % 7 * sg,
              "total_seconds": lambda: us / 10**6}
        st.update(days=days, _native=_dt.timedelta(microseconds=us))
        return st

    def shift(w, unit, k):
        import calendar
        if unit in ("years", "months"):
            mi = w.year * 12 + w.month - 1 + (12 * k if unit == "years" else k)
            y, mo = divmod(mi, 12)
            return w.replace(year=y, month=mo + 1, day=min(w.day, calendar.monthrange(y, mo + 1)[1]))
        return w + _dt.timedelta(**{unit: k})
    try:
        for cls, a, b, unit, amt in cases:
            wm = dm if cls == "DateTime" else dam
            wld = wallstub.World(wm, cls, extra=dam.methods("Date") if cls == "DateTime" else None)
            val = (lambda w: wld.datetime(w, 1)) if cls == "DateTime" else (lambda w: wld.date(w.date()))
            key = (lambda o: vars(o)["_wall"]) if cls == "DateTime" else (lambda o: _dt.datetime.combine(vars(o)["_date"], _dt.time()))
            for mode in ("forward", "inverted", "inverted-absolute"):
                if mode == "forward":
                    s0, e0, inv, ab = a, b, False, False
                elif mode == "inverted":
                    s0, e0, inv, ab = b, a, True, False
                else:
                    s0, e0, inv, ab = a, b, True, True        # the constructor has swapped the bounds of an absolute interval
                glob = {"operator": minieval.Stub(le=operator.le, ge=operator.ge, lt=operator.lt, gt=operator.gt), "Iterator": None,
                        "datetime": _dt.datetime, "date": _dt.date, "timezone": _dt.timezone, "timedelta": _dt.timedelta}
                funcs = {st.name: st for st in m.top() if isinstance(st, ast.FunctionDef)}
                iv = minieval.Obj(_methods=meths, _props=props - {"days"}, _ctor=None, _natives={}, start=val(s0), end=val(e0), _start=val(s0), _end=val(e0),
                                  _absolute=ab, _invert=inv, invert=inv, absolute=ab, _types=(_dt.timedelta,), _truth=(s0 != e0),        # an Interval is a timedelta: false when empty
                                  **length_state(e0 - s0, ab))
                sign = -1 if (inv and not ab) else 1
                want, k = [], 0
                while True:
                    v = shift(s0, unit, sign * k * amt)
                    if (v > e0) if sign > 0 else (v < e0):
                        break
                    want.append(v)
                    k += 1
                label = f"{cls} interval {s0.isoformat(' ')} .. {e0.isoformat(' ')} ({mode}).range({unit!r}, {amt})"
                n += 1
                import itertools as _it
                # the generator is consumed as far as the expected values go, and a little further (a range that does not end shows as extra values)
                got = list(_it.islice(minieval.call(meths["range"], [iv, unit, amt], {}, {**funcs, "$globals": glob}), len(want) + 4))
                gk = [key(o) for o in got]
                if gk != want:
                    bad.append(f"{label}: {[x.isoformat(' ') for x in gk][:6]}{'...' if len(gk) > 6 else ''} ({len(gk)} values; expected {[x.isoformat(' ') for x in want][:6]}{'...' if len(want) > 6 else ''}, {len(want)} values)")
                if unit == "days" and amt == 1 and "__iter__" in meths:
                    n += 1
                    try:
                        it = list(_it.islice(minieval.call(meths["__iter__"], [iv], {}, {**funcs, "$globals": glob}), len(want) + 4))
                    except TypeError as e:
                        if "unexpected keyword argument" not in str(e):
                            raise
                        # add() of the endpoint's class is asked for a unit it does not have (its signature is the class's own)
                        bad.append(f"{label}: iterating the interval raises TypeError: {str(e).split('.')[-1]}")
                        it = None
                    if it is not None and [key(o) for o in it] != want:
                        bad.append(f"{label}: iterating the interval gives {len(it)} values, range('days') {len(want)}")
                if "__contains__" in meths and mode != "inverted":
                    for probe, inside in ((s0, True), (e0, True), (s0 - _dt.timedelta(days=1), False), (e0 + _dt.timedelta(days=1), False), (s0 + (e0 - s0) / 2, True)):
                        n += 1
                        r = minieval.call(meths["__contains__"], [iv, val(probe)], {}, {**funcs, "$globals": glob})
                        if bool(r) != inside and cls == "DateTime":
                            bad.append(f"{label}: `{probe.isoformat(' ')} in interval` is {r}")
                        # the same instant / day given as a value of the standard library (a datetime that is not a DateTime)
                        native = minieval.Stub(_eqkey=vars(val(probe))["_eqkey"], _types=(_dt.datetime if cls == "DateTime" else _dt.date,))
                        n += 1
                        r = minieval.call(meths["__contains__"], [iv, native], {}, {**funcs, "$globals": glob})
                        if bool(r) != inside and cls == "DateTime":
                            bad.append(f"{label}: `{probe.isoformat(' ')} in interval` is {r} for a native datetime")
        # a repeated hour (02:00-03:00 twice): the values of one zone are ordered by the standard library on their wall clock, the bounds must
        # be compared as instants - the expected sequence is computed on instants
        H = _dt.timedelta(hours=1)
        wld = wallstub.World(dm, "DateTime", transition=("repeat", D(2021, 10, 31, 3), H), extra=dam.methods("Date"))
        funcs = {st.name: st for st in m.top() if isinstance(st, ast.FunctionDef)}
        glob = {"operator": minieval.Stub(le=operator.le, ge=operator.ge, lt=operator.lt, gt=operator.gt), "Iterator": None,
                "datetime": _dt.datetime, "date": _dt.date, "timezone": _dt.timezone, "timedelta": _dt.timedelta}
        for (wa, fa), (wb, fb), unit, amt in [((D(2300, 5, 6, 7, 8, 9, 1), 0), (D(2300, 5, 6, 7, 8, 9, 4), 0), "microseconds", 1), ((D(9000, 1, 1, 0, 0, 0, 999998), 0), (D(9000, 1, 1, 0, 0, 1, 0), 0), "microseconds", 1),
                                               ((D(2021, 10, 31, 1, 45), 0), (D(2021, 10, 31, 2, 15), 1), "minutes", 30), ((D(2021, 10, 31, 0, 30), 0), (D(2021, 10, 31, 4, 30), 0), "hours", 1),
                                               ((D(2021, 10, 31, 2, 30), 0), (D(2021, 10, 31, 2, 30), 1), "minutes", 20), ((D(2021, 10, 31, 2, 50), 0), (D(2021, 10, 31, 2, 10), 1), "minutes", 7),
                                               ((D(2021, 10, 31, 2, 10), 1), (D(2021, 10, 31, 3, 40), 0), "minutes", 45),
                                               # whole days across the repeated hour: the days of the calendar, not periods of 24 hours (the interval is 25 hours longer / shorter than its days)
                                               ((D(2021, 10, 30, 12, 0), 0), (D(2021, 11, 1, 11, 30), 0), "days", 1), ((D(2021, 10, 28, 2, 30), 0), (D(2021, 11, 2, 2, 30), 0), "days", 1),
                                               ((D(2021, 10, 30, 3, 30), 0), (D(2021, 10, 31, 2, 45), 0), "days", 1)]:
            A, B = wld.datetime(wa, fa), wld.datetime(wb, fb)
            ia, ib = wld.instant(A), wld.instant(B)
            for mode in ("forward", "inverted", "inverted-absolute"):
                if mode == "forward":
                    s0, e0, i0, i1, inv, ab = A, B, ia, ib, False, False
                elif mode == "inverted":
                    s0, e0, i0, i1, inv, ab = B, A, ib, ia, True, False
                else:
                    s0, e0, i0, i1, inv, ab = A, B, ia, ib, True, True
                iv = minieval.Obj(_methods=meths, _props=props - {"days"}, _ctor=None, _natives={}, start=s0, end=e0, _start=s0, _end=e0, _absolute=ab, _invert=inv, invert=inv, absolute=ab,
                                  _types=(_dt.timedelta,), _truth=(i0 != i1), **length_state(i1 - i0, ab))
                sign = -1 if (inv and not ab) else 1
                want, k = [], 0
                while True:
                    if unit == "days":          # a calendar unit: the wall clock of the start moved by whole days, read by the construction rules
                        w_ = vars(s0)["_wall"] + sign * k * amt * _dt.timedelta(days=1)
                        c_ = wld.place(w_, 1) if k else s0
                        v = wld.instant(c_)
                        item = (vars(c_)["_wall"], vars(c_)["fold"])
                    else:
                        v = i0 + sign * k * amt * _dt.timedelta(**{unit: 1})
                        item = wld.from_instant(v)
                    if (v > i1) if sign > 0 else (v < i1):
                        break
                    want.append(item)
                    k += 1
                n += 1
                import itertools as _it2
                got = list(_it2.islice(minieval.call(meths["range"], [iv, unit, amt], {}, {**funcs, "$globals": glob}), len(want) + 4))
                if unit == "days" and amt == 1 and "__iter__" in meths:
                    n += 1
                    it_ = list(_it2.islice(minieval.call(meths["__iter__"], [iv], {}, {**funcs, "$globals": glob}), len(want) + 4))
                    ik = [(vars(o)["_wall"], vars(o)["fold"] if wld.ambiguous(vars(o)["_wall"]) else 0) for o in it_]
                    if ik != [(w_, f_ if wld.ambiguous(w_) else 0) for w_, f_ in want]:
                        bad.append(f"interval {wa.isoformat(' ')} .. {wb.isoformat(' ')} across the repeated hour of 2021-10-31 ({mode}): iterating it gives {len(ik)} values "
                                   f"({[w_.isoformat(' ') for w_, _ in ik][-2:]} last), its calendar days are {len(want)}")
                gk = [(vars(o)["_wall"], vars(o)["fold"] if wld.ambiguous(vars(o)["_wall"]) else 0) for o in got]
                wk = [(w_, f_ if wld.ambiguous(w_) else 0) for w_, f_ in want]
                if gk != wk:
                    show = lambda xs: [f"{w_.time()}{'*' if f_ else ''}" for w_, f_ in xs][:7]      # noqa: E731
                    bad.append(f"interval {wa.time()}{'*' if fa else ''} .. {wb.time()}{'*' if fb else ''} of {wa.date()} in a zone whose hour 02 of 2021-10-31 is repeated (* = second pass) ({mode}).range({unit!r}, {amt}): "
                               f"{show(gk)} ({len(gk)} values; expected {show(wk)}, {len(wk)} values)")
    except wallstub.ERRORS + (ValueError,) as e:
        ctx.unverified("RANGE.tabulated", "Interval.range", f"outside the checker's interpreter: {type(e).__name__}: {e}", m.loc(meths["range"]))
        return None
    ctx.ob("RANGE.tabulated", "Interval.range", not bad, f"{n} (interval, unit, amount) evaluations: " + (f"wrong: {bad[:2]}" if bad else
           "start, start +- amount, start +- 2*amount ... each from the start, up to and including a reachable end; iteration by days; membership"), m.loc(meths["range"]))
    if not bad:
        ctx.established(("RANGE.shape", "RANGE.no-drift", "RANGE.step", "RANGE.order", "RANGE.bound", "RANGE.pairing", "RANGE.iter", "RANGE.contains"), "Interval.", "RANGE.tabulated")
    return not bad


def run(ctx) -> None:
    ctx.explanation = EXPLANATION
    m = pmod("interval")
    ctx.step(_range_tabulate, ctx, m)
    from . import C05
    ctx.step(C05._instant_order, ctx)         # range() orders its bounds with _is_after: instants, exactly
    fn = m.func("Interval.range")
    loops = [n for n in core.walk_fn(fn) if isinstance(n, ast.While)]
    # a loop written as `while True:` with an early exit, or a direction taken from a helper, is another shape of the same
    # generator: the shape rules then give no verdict (UNVERIFIED); the drift and step rules below do not depend on it
    restructured = any(isinstance(lp.test, ast.Constant) for lp in loops) or any(
        isinstance(c.func, ast.Attribute) and nun(c.func.value) == "self" and c.func.attr.startswith("_") and not c.func.attr.startswith("__")
        and c.func.attr not in ("_absolute",) for c in core.calls(fn))
    if restructured:
        ctx.unverified("RANGE.shape", "Interval.range", "the generator has another loop / helper structure than the reference; only the "
                       "structure-independent rules (no-drift, step) are decided", m.loc(fn))
    else:
        T.match(ctx, "RANGE.shape", "Interval.range", m, fn, TEMPLATE,
                why="range() must yield start, then start.<add|subtract>(unit=k*amount) computed from the interval's start, while within the end")
    if len(loops) == 1:
        lp = loops[0]
        assigned = {t.id for s in lp.body for t in ast.walk(s) if isinstance(t, ast.Name) and isinstance(t.ctx, ast.Store)}
        steps = [c for c in core.calls(lp) if isinstance(c.func, ast.Call) and nun(c.func.func) == "getattr"]
        for c in steps:
            recv = c.func.args[0]
            names = {n.id for n in ast.walk(recv) if isinstance(n, ast.Name)}
            ok = nun(recv) == "self.start" and not (names & assigned)
            ctx.ob("RANGE.no-drift", "Interval.range/receiver", ok,
                   f"each step is computed on `{nun(recv)}`; it must be the loop-invariant self.start (stepping from the previous "
                   f"value lets end-of-month clamping accumulate: Jan 31 -> Feb 28 -> Mar 28)", m.loc(c))
            kws = core.star_kw(c)
            ok = len(kws) == 1 and isinstance(kws[0], ast.Dict) and len(kws[0].keys) == 1 and nun(kws[0].keys[0]) == "unit" \
                and isinstance(kws[0].values[0], ast.Name) and kws[0].values[0].id in {nun(s.target) for s in lp.body if isinstance(s, ast.AugAssign)}
            ctx.ob("RANGE.step", "Interval.range/multiplier", ok, f"step argument `{[nun(k) for k in kws]}`; must be **{{unit: i}} with the running multiple", m.loc(c))
        if not steps:
            ctx.ob("RANGE.no-drift", "Interval.range/receiver", False, "no getattr(self.start, method)(...) step found in the loop", m.loc(lp))
        # order inside the loop: yield, compute next, advance i
        kinds = []
        for s in lp.body:
            if isinstance(s, ast.Expr) and isinstance(s.value, ast.Yield):
                kinds.append("yield:" + nun(s.value.value))
            elif isinstance(s, ast.Assign):
                kinds.append("assign:" + nun(s.targets[0]))
            elif isinstance(s, ast.AugAssign):
                kinds.append(f"aug:{nun(s.target)}{type(s.op).__name__}{nun(s.value)}")
        if restructured:
            kinds = None
        NEW_TEST = "not (_is_after(end, start) if backwards else _is_after(start, end))"       # the bounds compared as instants (fix dd0bbb6)
        new_form = nun(lp.test) == NEW_TEST
        cand = nun(lp.test.args[0]) if isinstance(lp.test, ast.Call) and len(lp.test.args) == 2 else "start" if new_form else "?"
        cnt = [nun(s.target) for s in lp.body if isinstance(s, ast.AugAssign)]
        cnt = cnt[0] if cnt else "?"
        if kinds is not None:
          ctx.ob("RANGE.order", "Interval.range/loop-body", kinds == [f"yield:{cand}", f"assign:{cand}", f"aug:{cnt}Addamount"],
               f"loop body {kinds}; must yield the tested candidate, compute the next one, then advance i by amount", m.loc(lp))
        bound_ok = (isinstance(lp.test, ast.Call) and nun(lp.test.func) == "op" and len(lp.test.args) == 2) or new_form
        if bound_ok:
            endv = "end" if new_form else nun(lp.test.args[1])
            pre = {}
            for s in core.body_no_doc(fn):
                if isinstance(s, ast.Assign) and isinstance(s.targets[0], ast.Tuple) and isinstance(s.value, ast.Tuple):
                    for a, b in zip(s.targets[0].elts, s.value.elts):
                        pre[nun(a)] = nun(b)
                elif isinstance(s, ast.Assign):
                    pre[nun(s.targets[0])] = nun(s.value)
            bound_ok = pre.get(endv, endv) == "self.end" and pre.get(cand) == "self.start"
        if restructured:
            ctx.unverified("RANGE.bound", "Interval.range/test", f"loop test `{nun(lp.test)}` in a restructured generator", m.loc(lp))
        else:
            ctx.ob("RANGE.bound", "Interval.range/test", bound_ok,
                   f"loop test `{nun(lp.test)}`; the candidate must be compared with the end before it is yielded", m.loc(lp))
    else:
        ctx.unverified("RANGE.no-drift", "Interval.range", f"{len(loops)} while loops", m.loc(fn))
    # pairing
    sel = [n for n in core.walk_fn(fn) if isinstance(n, ast.If)]
    init = {nun(s.targets[0]): nun(s.value) for s in core.body_no_doc(fn) if isinstance(s, ast.Assign) and isinstance(s.targets[0], ast.Name)}
    ok = init.get("method") == "'add'" and init.get("op") == "operator.le" and len(sel) == 1 and \
        nun(sel[0].test) == "not self._absolute and self.invert" and sorted(nun(s) for s in sel[0].body) == ["method = 'subtract'", "op = operator.ge"]
    ok = ok or (init.get("method") == "'add'" and init.get("backwards") == "not self._absolute and self.invert" and len(sel) == 1 and nun(sel[0].test) == "backwards"
                and [nun(s) for s in sel[0].body] == ["method = 'subtract'"] and len(loops) == 1 and nun(loops[0].test) == "not (_is_after(end, start) if backwards else _is_after(start, end))")
    if restructured and not ok:
        ctx.unverified("RANGE.pairing", "Interval.range/direction", "direction selected in another form (helper / conditional expression)", m.loc(fn))
    else:
      ctx.ob("RANGE.pairing", "Interval.range/direction", ok,
           f"default ({init.get('method')}, {init.get('op')}), switch `{nun(sel[0].test) if sel else None}` -> "
           f"{[nun(s) for s in sel[0].body] if sel else None}; (add, <=) forward and (subtract, >=) for an inverted, non-absolute interval",
           m.loc(fn))
    d = core.defaults(fn)
    ctx.ob("RANGE.defaults", "Interval.range/amount", core.is_const(d.get("amount"), 1), f"amount default {nun(d.get('amount'))}", m.loc(fn))
    r = core.returns(m.func("Interval.__iter__"))
    ctx.ob("RANGE.iter", "Interval.__iter__", len(r) == 1 and nun(r[0].value) == "self.range('days')", f"{[nun(x.value) for x in r]}", m.rel)
    r = core.returns(m.func("Interval.__contains__"))
    ctx.ob("RANGE.contains", "Interval.__contains__", len(r) == 1 and nun(r[0].value) == "self.start <= item <= self.end",
           f"{[nun(x.value) for x in r]}; membership is start <= item <= end", m.rel)
    for prop in ("start", "end"):
        r = core.returns(m.func(f"Interval.{prop}"))
        ctx.ob("RANGE.accessors", f"Interval.{prop}", len(r) == 1 and nun(r[0].value) == f"self._{prop}", f"{[nun(x.value) for x in r]}", m.rel)
    # each element is self.start.add/subtract(...): the month-end clamp of helpers.add_duration and what it relies on
    from ..rules import addduration as AD
    from . import C15
    ctx.step(AD.month_clamp_order, ctx)
    ctx.step(C15.clamp_dependencies, ctx)
    # every element is start.add()/subtract() of calendar units: the carry chain of add_duration (a 12-month carry into the year keeps
    # its sign - an inverted interval stepping by months stays monotone and ends) and the way DateTime.add re-creates the wall time
    ctx.step(AD.carry_blocks, ctx)
    ctx.step(AD.datetime_add_shape, ctx)
    # ... from the start / up to the end the interval was built with: Interval.__init__ copies both bounds field by field
    from ..rules import recon

    def _bounds():
        for s_ in recon.sites_in(m, ["Interval.__init__"]):
            recon.check_site(ctx, s_)
    ctx.step(_bounds)
    ctx.expect_min("RANGE", 10)
    ctx.expect_min("ORDER.clamp", 5)
    _ = un
