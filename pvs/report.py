"""E9: obligations, known findings, evidence, exit-code discipline."""
from __future__ import annotations

import hashlib
import json
import os
import sys
import time
from dataclasses import dataclass, field
from pathlib import Path
from typing import Any

from . import core

VERIF = core.VERIF
PASS, FAIL, UNVERIFIED = "pass", "fail", "unverified"


@dataclass
class Ob:
    rule: str            # rule family + clause, e.g. "RECON.state"
    construct: str       # qualified construct, e.g. "DateTime.astimezone:cls(...)/fold"
    verdict: str
    detail: str = ""
    site: str = ""       # file:line (diagnostic only, never used as a key)
    nontrivial: bool = True


class AnalysisError(Exception):
    pass


_DOMINATION: dict[str, list[tuple[str, ...]]] | None = None


def domination() -> dict[str, list[tuple[str, ...]]]:
    """value rule -> the families of syntactic rules it dominates, read off the `ctx.established((families), construct, "<value rule>")`
    calls of the checker's own source (so the table cannot drift from them)"""
    global _DOMINATION
    if _DOMINATION is None:
        import ast
        _DOMINATION = {}
        here = Path(__file__).resolve().parent
        for f in sorted(list((here / "props").glob("*.py")) + list((here / "rules").glob("*.py"))):
            for n in ast.walk(ast.parse(f.read_text())):
                if isinstance(n, ast.Call) and isinstance(n.func, ast.Attribute) and n.func.attr == "established" and len(n.args) == 3 \
                        and isinstance(n.args[0], ast.Tuple) and isinstance(n.args[2], ast.Constant):
                    fams = tuple(e.value for e in n.args[0].elts if isinstance(e, ast.Constant))
                    for by in str(n.args[2].value).split(" + "):
                        _DOMINATION.setdefault(by.replace(" (tabulated)", "").strip(), []).append(fams)
    return _DOMINATION


@dataclass
class Ctx:
    prop: str
    tier: str = "quick"
    seed: int = 0
    obs: list[Ob] = field(default_factory=list)
    notes: list[str] = field(default_factory=list)
    analysed: dict[str, Any] = field(default_factory=dict)
    assumptions: list[str] = field(default_factory=list)
    explanation: str = ""
    minimums: dict[str, int] = field(default_factory=dict)
    t0: float = field(default_factory=time.time)
    _seen: set = field(default_factory=set)
    _established: list = field(default_factory=list)
    _undecided: set = field(default_factory=set)

    # -- recording ----------------------------------------------------------
    def established(self, rule_prefixes, construct_prefix: str, by: str) -> None:
        """A rule that decides the *values* computed by a construct was discharged on every case (`by`): what the syntactic
        rules of the listed families would say about the way the same construct is written is no longer a verdict - they
        only decide when the value rule is outside its interpreter.  Their obligations are recorded as established."""
        self._established.append((tuple(rule_prefixes), construct_prefix, by))

    def _is_established(self, rule: str, construct: str) -> str | None:
        for prefixes, cp, by in self._established:
            if construct.startswith(cp) and any(rule.startswith(p_) for p_ in prefixes):
                return by
        return None

    def ob(self, rule: str, construct: str, ok: bool | str, detail: str = "", site: str = "",
           nontrivial: bool = True) -> bool:
        verdict = ok if isinstance(ok, str) else (PASS if ok else FAIL)
        if verdict == FAIL:
            by = self._is_established(rule, construct)
            if by is not None:
                verdict, nontrivial = PASS, False
                detail = f"established by {by} (values on every case); the syntactic rule alone would say: {detail}"
            else:
                und = self._is_undecided(rule)
                if und is not None:
                    # the rule that decides the values of this family could not evaluate the changed code, and the way the code is written is
                    # not one this rule knows to be right: that is no evidence of a wrong value - no verdict
                    verdict, nontrivial = UNVERIFIED, False
                    detail = f"{und} is outside its interpreter on this tree and the syntactic rule does not recognise the form: {detail}"
        key = (rule, construct, verdict, detail)
        if key in self._seen:          # the same obligation reached along another path
            return verdict == PASS
        self._seen.add(key)
        self.obs.append(Ob(rule, construct, verdict, detail, site, nontrivial))
        return verdict == PASS

    def _is_undecided(self, rule: str) -> str | None:
        for v in sorted(self._undecided):
            if any(rule.startswith(f) for fams in domination().get(v, ()) for f in fams):
                return v
        return None

    def unverified(self, rule: str, construct: str, detail: str, site: str = "") -> None:
        if detail.startswith("outside the checker's interpreter: Raised:"):
            # not a limit of the interpreter: the analysed code reached a `raise` (or a standard-library call on plain values raised) on a case
            # of a value table where the rule expects a value - cases where an exception is due are caught by the rules themselves
            self.ob(rule, construct, False, "the analysed code raises an exception on a case where the tabulation expects a value: " + detail.split("Raised:", 1)[1].strip(), site)
            return
        if detail.startswith("outside the "):           # "outside the checker's interpreter" / "outside the MIR evaluator": a value rule without a verdict
            from . import sem
            if sem.reference_available() and sem.changed_files():
                self._undecided.add(rule)
        by = self._is_established(rule, construct)
        if by is not None:
            self.obs.append(Ob(rule, construct, PASS, f"established by {by} (values on every case); the syntactic rule does not recognise the form: {detail}", site, False))
            return
        self.obs.append(Ob(rule, construct, UNVERIFIED, detail, site, False))

    def guard(self, rule: str, construct: str, fn, site: str = "") -> Any:
        """Run an extractor; an Unsupported form becomes UNVERIFIED, not a violation."""
        try:
            return fn()
        except core.Unsupported as e:
            self.unverified(rule, construct, str(e), site)
            return None

    def step(self, fn, *args, **kw) -> Any:
        """Run one group of rules.  On the reference tree an analysis failure is the checker's fault (exit 2).  On a
        changed tree a rule that cannot find or read its sites gives no verdict for them: UNVERIFIED, the other groups
        still run."""
        from . import sem
        try:
            return fn(*args, **kw)
        except (core.AnchorMissing, core.Unsupported, AnalysisError, KeyError, IndexError, AttributeError, TypeError, ValueError, AssertionError) as e:
            if sem.reference_available() and sem.changed_files():
                self.unverified("STEP", getattr(fn, "__qualname__", str(fn)), f"{type(e).__name__}: {e}"[:300])
                return None
            raise

    def expect_min(self, rule_prefix: str, n: int) -> None:
        """Pin the number of instances confirmed by hand on the reference tree."""
        self.minimums[rule_prefix] = n

    def count(self, key: str, n: int = 1) -> None:
        self.analysed[key] = self.analysed.get(key, 0) + n

    def note(self, s: str) -> None:
        self.notes.append(s)


def load_known() -> list[dict[str, Any]]:
    p = VERIF / "known_findings.json"
    if not p.exists():
        return []
    return json.loads(p.read_text())["findings"]


def finish(ctx: Ctx, level: str = "other") -> int:
    known = [k for k in load_known() if k["property"] == ctx.prop and k.get("status") == "known"]
    known_keys = {(k["rule"], k["construct"]): k for k in known}

    fails = [o for o in ctx.obs if o.verdict == FAIL]
    violations, knowns = [], []
    for o in fails:
        (knowns if (o.rule, o.construct) in known_keys else violations).append(o)

    if not violations:   # a rule that lost its sites must not pass vacuously
        from . import sem
        changed = sem.changed_files() if sem.reference_available() else []
        for prefix, n in ctx.minimums.items():
            got = sum(1 for o in ctx.obs if o.rule.startswith(prefix))
            if got < n:
                msg = (f"rule {prefix} matched {got} instances, fewer than the {n} confirmed on the reference tree "
                       f"(the rule no longer sees its sites)")
                if not changed:
                    # the analysed sources are the reference sources: the checker itself is broken
                    raise AnalysisError(msg)
                if any(any(p_.startswith(prefix) or prefix.startswith(p_) for p_ in prefixes) for prefixes, _cp, _by in ctx._established):
                    continue        # the values these sites compute were decided by a value rule on this tree
                # a changed tree: the sites were restructured beyond what the rule recognises - no verdict on them
                ctx.unverified(prefix, "instance-count", msg + f"; changed files: {changed[:6]}")

    for o in knowns:
        k = known_keys[(o.rule, o.construct)]
        print(f"KNOWN-FINDING: property={ctx.prop} {o.rule} {o.construct}: {k.get('fails', o.detail)}")
    for o in ctx.obs:
        if o.verdict == UNVERIFIED:
            print(f"UNVERIFIED: property={ctx.prop} {o.rule} {o.construct}: {o.detail} [{o.site}]")

    replay_paths = []
    if violations:
        rdir = VERIF / "replays"
        rdir.mkdir(exist_ok=True)
        for o in violations:
            h = hashlib.sha1(f"{ctx.prop}|{o.rule}|{o.construct}".encode()).hexdigest()[:10]
            rp = rdir / f"{ctx.prop}-{h}.json"
            rp.write_text(json.dumps({
                "property": ctx.prop, "rule": o.rule, "construct": o.construct, "detail": o.detail,
                "site": o.site, "repo": str(core.REPO),
            }, indent=1))
            replay_paths.append(rp)
            print(f"  rule={o.rule} construct={o.construct} site={o.site}\n    {o.detail}")
            print(f"VIOLATION property={ctx.prop} replay={rp}")

    try:
        from . import mirfront
        mods = sorted(k.split("::", 1)[1] for k in core._MODS if k.startswith(str(core.REPO) + "::"))
        if str(core.REPO) in getattr(mirfront, "_LOADED", {}):
            mods.append("rust/src/** (MIR of the crate)")
        ctx.analysed["modules_consulted"] = mods
    except Exception:       # noqa: BLE001 - evidence only
        pass
    try:
        from . import sem
        ref = sem.reference_info()
        ch = sem.changed_files() if sem.reference_available() else []
        ctx.analysed["reference_snapshot"] = {"commit": ref.get("commit"), "changed_files": ch[:40]}
        if sem.STATS:
            ctx.analysed["reference_equivalence"] = {
                rel: {k: v for k, v in st.items() if v and k != "identical"} for rel, st in sem.STATS.items()}
        if ch:
            eq = sum(len(st.get("equivalent", [])) for st in sem.STATS.values())
            df = sum(len(st.get("different", [])) + len(st.get("gave_up", [])) for st in sem.STATS.values())
            print(f"NOTE: property={ctx.prop} the analysed tree differs from the reference snapshot {str(ref.get('commit'))[:7]} in {len(ch)} file(s) "
                  f"({', '.join(ch[:4])}{' ...' if len(ch) > 4 else ''}); among the modules consulted {eq} changed function(s) were proven equivalent to "
                  f"their reference form, {df} are analysed as they stand")
    except Exception:       # noqa: BLE001 - evidence only
        pass
    checked = [o for o in ctx.obs if o.verdict != UNVERIFIED]
    distinct = {(o.rule, o.construct) for o in checked if o.nontrivial}
    samples = []
    seen_rules: set[str] = set()
    for o in checked:
        fam = o.rule
        if fam in seen_rules:
            continue
        seen_rules.add(fam)
        samples.append({"rule": o.rule, "construct": o.construct, "verdict": o.verdict,
                        "detail": o.detail[:300], "site": o.site})
    rules: dict[str, dict[str, int]] = {}
    for o in ctx.obs:
        r = rules.setdefault(o.rule, {"pass": 0, "fail": 0, "unverified": 0})
        r[o.verdict] += 1

    evidence = {
        "property_id": ctx.prop,
        "tier": ctx.tier,
        "seed": ctx.seed,
        "level": level,
        "coverage": {
            "explanation": ctx.explanation or "static rule checking over the AST / MIR of the current tree",
            "obligations": len(checked),
            "discharged": sum(1 for o in checked if o.verdict == PASS),
            "evaluations": max(len(checked), 1),
            "distinct_nontrivial": len(distinct),
            "rule": "one evaluation = one (rule, construct) obligation extracted from the current source; "
                    "distinct = distinct (rule, construct) pairs whose obligation is not vacuous",
            "samples": samples[:40],
            "rules": rules,
            "analysed": ctx.analysed,
            "unverified": [f"{o.rule} {o.construct}: {o.detail}" for o in ctx.obs if o.verdict == UNVERIFIED],
            "known_findings_printed": [f"{o.rule} {o.construct}" for o in knowns],
            "exhaustive": True,
            "notes": ctx.notes,
            "repo": str(core.REPO),
        },
        "assumptions": ctx.assumptions,
        "wall_s": round(time.time() - ctx.t0, 3),
        "violations": len(violations),
    }
    if os.environ.get("PVS_NO_EVIDENCE") != "1":
        edir = VERIF / "evidence"
        edir.mkdir(exist_ok=True)
        (edir / f"{ctx.prop}.json").write_text(json.dumps(evidence, indent=1, default=str) + "\n")

    n_un = sum(1 for o in ctx.obs if o.verdict == UNVERIFIED)
    print(f"{ctx.prop} [{ctx.tier}] obligations={len(checked)} discharged={evidence['coverage']['discharged']} "
          f"violations={len(violations)} known={len(knowns)} unverified={n_un} "
          f"wall={evidence['wall_s']}s")
    return 1 if violations else 0


def main_run(prop: str, tier: str, run) -> int:
    seed = int(os.environ.get("VERIF_SEED", "0") or 0)
    ctx = Ctx(prop=prop, tier=tier, seed=seed)
    try:
        st_bad: list[str] = []
        if tier == "thorough" and os.environ.get("PVS_NO_SELFTEST") != "1" and str(core.REPO) == "/repo":
            # thorough = the quick rules + the checker's own self-test for this property: every seeded
            # one-site variant (scratch copies outside /repo and /verif) must be reported, the clean copy must be quiet
            from .selftest import runner
            from .selftest.variants import VARIANTS
            from concurrent.futures import ThreadPoolExecutor
            sel = [v for v in VARIANTS if v[1] == prop]
            with ThreadPoolExecutor(max_workers=int(os.environ.get("PVS_JOBS", "16"))) as ex:
                res = list(ex.map(runner.run_variant, sel))
            stale = [i for i, ok, m in res if not ok and m.startswith("pattern ")]
            st_bad = [f"{i}: {m[:300]}" for i, ok, m in res if not ok and not m.startswith("pattern ")]
            ctx.analysed["selftest_variants"] = len(res)
            ctx.analysed["selftest_expected_behaviour"] = len(res) - len(st_bad) - len(stale)
            ctx.analysed["selftest_not_applicable_to_this_tree"] = stale
            ctx.analysed["selftest_samples"] = [f"{v[0]} ({v[2] or 'clean copy'}) -> {'must report ' + v[5] if v[5] else 'must stay quiet'}" for v in sel[:12]]
        run(ctx)
        rc = finish(ctx)
        if st_bad and rc == 0:
            for b in st_bad:
                print("SELFTEST-FAIL", b)
            print(f"ANALYSIS-ERROR property={prop}: the checker's self-test failed for {len(st_bad)} variant(s); its verdict is not trusted")
            return 2
        return rc
    except (core.AnchorMissing, AnalysisError) as e:
        print(f"ANALYSIS-ERROR property={prop}: {e}")
        return 2
    except Exception as e:  # a crash must never look like a violation
        import traceback
        traceback.print_exc(file=sys.stdout)
        print(f"ANALYSIS-ERROR property={prop}: internal error {type(e).__name__}: {e}")
        return 2
