"""A closed world for evaluating the functions of pendulum/duration.py with the checker's interpreter (rules/minieval.py):
instance stubs of Duration whose class part is the analysed source, a stand-in for the C base class `timedelta` (its
constructor, its three slots read through `timedelta.days.__get__(x)` or by the native properties, total_seconds()), the
module's own functions and the constants it imports.  Nothing of pendulum is imported or run; the standard library's own
`datetime.timedelta` provides the arithmetic of the base class, which is what the properties take as the reference."""
from __future__ import annotations

import ast
import datetime as _dt
from typing import Any, Callable

from .. import core
from . import minieval
from .minieval import ClassStub, Obj, Stub

D_US = 86400 * 10**6
UNIT_US = {"days": D_US, "seconds": 10**6, "microseconds": 1, "milliseconds": 1000, "minutes": 60 * 10**6, "hours": 3600 * 10**6,
           "weeks": 7 * D_US}
CTOR = ["days", "seconds", "microseconds", "milliseconds", "minutes", "hours", "weeks", "years", "months"]


class Rebuilt(Stub):
    """what `self.__class__(...)` was called with"""


def rebuilt_value(r: "Rebuilt") -> tuple[int, int, Any]:
    """(years, months, microseconds of the rest) a constructor call describes"""
    a, k = r._args, r._kws
    if len(a) > len(CTOR) or set(k) - set(CTOR) or set(k) & set(CTOR[:len(a)]):
        raise ValueError(f"constructor called with {a} {k}")
    b = dict(zip(CTOR, a))
    b.update(k)
    return b.get("years", 0), b.get("months", 0), sum(v * UNIT_US[p] for p, v in b.items() if p in UNIT_US)


class World:
    def __init__(self, m: core.Mod, cls: str = "Duration", ctor: Callable | None = None):
        self.m = m
        self.cls = cls
        self.meths: dict[str, ast.FunctionDef] = {}
        chain = [cls]
        while True:
            bases = [core.dotted(b) for b in m.cls(chain[-1]).bases]
            nxt = [b for b in bases if b and m.has_cls(b)]
            if not nxt:
                break
            chain.append(nxt[0])
        self.super_meths: dict[str, ast.FunctionDef] = {}          # what zero-argument super() finds inside a method of `cls`
        for c in reversed(chain[1:]):
            self.super_meths.update(m.methods(c))
        self.fields: dict[str, Any] = {}
        for c in reversed(chain):
            for st in m.cls(c).body:
                if isinstance(st, (ast.Assign, ast.AnnAssign)) and st.value is not None and isinstance(st.value, ast.Constant):
                    t = st.targets[0] if isinstance(st, ast.Assign) else st.target
                    if isinstance(t, ast.Name):
                        self.fields[t.id] = st.value.value
            self.meths.update(m.methods(c))
            for k, v in m.class_aliases(c).items():
                if v in self.meths:
                    self.meths[k] = self.meths[v]
        # class-level tables (dicts / tuples of constants): evaluated by the interpreter from the class bodies
        for c in reversed(chain):
            for st in m.cls(c).body:
                if isinstance(st, (ast.Assign, ast.AnnAssign)) and st.value is not None and not isinstance(st.value, ast.Constant):
                    t = st.targets[0] if isinstance(st, ast.Assign) else st.target
                    if isinstance(t, ast.Name) and t.id not in self.fields:
                        try:
                            self.fields[t.id] = minieval.ev(st.value, dict(self.fields), {"$globals": minieval.module_consts(m)})
                        except Exception:       # noqa: BLE001 - not a table of constants: reading it is Unsupported
                            pass
        self.props = {k for k, f in self.meths.items() if any(core.dotted(d) == "property" for d in f.decorator_list)}
        self.ctor = ctor or (lambda *a, **k: Rebuilt(_args=a, _kws=k))
        slot = lambda name: Stub(__get__=lambda o, *a: getattr(self._native_of(o), name))        # noqa: E731
        def _native_timedelta(*a, **k):
            try:
                return _dt.timedelta(*a, **k)
            except OverflowError as e:          # what the constructor of the C class raises for these numbers: an outcome of the analysed code
                raise minieval.Raised(f"raise reached: OverflowError: {e}", "OverflowError") from None
        self.timedelta = ClassStub(_new=_native_timedelta, _isa=lambda v: isinstance(v, (Obj, _dt.timedelta)),
                                   days=slot("days"), seconds=slot("seconds"), microseconds=slot("microseconds"),
                                   **{"__new__": self._td_new})
        self.duration_cls = ClassStub(_new=self.ctor, _isa=lambda v: isinstance(v, Obj))
        consts = minieval.module_consts(m)
        self.glob: dict[str, Any] = {st.name: st for st in m.top() if isinstance(st, ast.FunctionDef)}
        self.glob["$globals"] = {**consts, "timedelta": self.timedelta, "Duration": self.duration_cls, "NotImplemented": NotImplemented,
                                 "PYPY": False, "ValueError": ValueError, "TypeError": TypeError, "int": int, "float": float}

    @staticmethod
    def _native_of(o) -> _dt.timedelta:
        if isinstance(o, _dt.timedelta):
            return o
        return vars(o)["_native"]

    def _td_new(self, cls, *a, **k):
        """timedelta.__new__(cls, ...): an instance stub of the analysed class carrying the native value"""
        return self.instance(_dt.timedelta(*a, **k))

    def instance(self, native: _dt.timedelta, **fields) -> Obj:
        nat = {"days": native.days, "seconds": native.seconds, "total_seconds": native.total_seconds}
        if "microseconds" not in self.meths:
            nat["microseconds"] = native.microseconds
        sup = {"_super": (self.super_meths, self.glob)} if self.super_meths else {}
        return Obj(_methods=self.meths, _props=self.props, _ctor=self.ctor, _native=native, _natives=nat, _types=(_dt.timedelta,), **sup, **{**self.fields, **fields})

    def normalised(self, years: int, months: int, total_us: int) -> Obj:
        """the instance Duration.__new__ is specified to leave for `years`, `months` and a signed rest in microseconds (that
        it does so is C09's subject: UNITS.new / DIVMOD.tabulated)"""
        sg = -1 if total_us < 0 else 1
        a = abs(total_us)
        days = a // 10**6 // 86400 * sg
        return self.instance(_dt.timedelta(days=years * 365 + months * 30, microseconds=total_us),
                             _years=years, _months=months, _total=total_us / 10**6, _microseconds=a % 10**6 * sg,
                             _seconds=a // 10**6 % 86400 * sg, _days=days, _remaining_days=abs(days) % 7 * sg, _weeks=abs(days) // 7 * sg)

    def call(self, name: str, args: list[Any], kws: dict[str, Any] | None = None):
        return minieval.call(self.meths[name], args, kws or {}, self.glob)


ERRORS = (core.Unsupported, KeyError, TypeError, AttributeError, ValueError, ZeroDivisionError, RecursionError, OverflowError)
