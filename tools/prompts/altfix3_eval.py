import json, subprocess, glob, os, sys
from concurrent.futures import ThreadPoolExecutor
dirs = sorted(d for d in glob.glob('/tmp/wt/H*/') if os.path.exists(d+'out/meta.json'))
PROPS=[f"C{i:02d}" for i in range(1,21)]
def one(d):
    name=d.rstrip('/').split('/')[-1]
    out={"alarms":{}, "unverified":{}}
    env=dict(os.environ, PVS_NO_EVIDENCE="1", PVS_REPO=d.rstrip('/'), PVS_MIR_CACHE="/verif/.cache")
    for p in PROPS:
        c=subprocess.run(["/verif/check",p,"--repo",d.rstrip('/')],capture_output=True,text=True,env=env,cwd="/verif")
        txt=c.stdout+c.stderr
        if c.returncode!=0:
            out["alarms"][p]={"rc":c.returncode,"rules":[l.strip() for l in txt.splitlines() if l.strip().startswith("rule=")][:6],"tail":txt[-400:] if c.returncode==2 else ""}
        unv=[l for l in txt.splitlines() if l.startswith("UNVERIFIED")]
        if unv: out["unverified"][p]=[u[:160] for u in unv[:3]]
    return name,out
with ThreadPoolExecutor(6) as ex: res=list(ex.map(one,dirs))
json.dump(dict(res),open('/tmp/wt/results/altfix3.json','w'),indent=1)
print("dirs",len(res),"with alarm",sum(1 for n,o in res if o["alarms"]))
for n,o in res:
    subj=open(f'/tmp/wt/{n}/DEFECT.md').read().split('\n')[2][:70]
    if o["alarms"]:
        for p,a in o["alarms"].items(): print(n,subj,'|',p,"rc",a["rc"],a["rules"][:3] or a["tail"][-160:].replace("\n"," "))
    else: print(n,subj,'| quiet', {k:len(v) for k,v in o["unverified"].items()} or '')
