"""Time.replace() must treat fold exactly like datetime.time.replace()."""
import datetime
import itertools
import sys

import pendulum

failures = []
tz = datetime.timezone(datetime.timedelta(hours=2))

for start_fold, tzinfo in itertools.product((0, 1), (None, tz)):
    native = datetime.time(1, 30, 15, 123, tzinfo=tzinfo, fold=start_fold)
    t = pendulum.Time(1, 30, 15, 123, tzinfo=tzinfo, fold=start_fold)
    if t.fold != start_fold:
        failures.append(f"constructor lost fold={start_fold}")

    calls = [
        {},
        {"fold": 0},
        {"fold": 1},
        {"hour": 2},
        {"minute": 5, "fold": 1},
        {"second": 7, "microsecond": 9},
        {"tzinfo": None},
        {"tzinfo": datetime.timezone.utc, "fold": 0},
    ]
    for kwargs in calls:
        want = native.replace(**kwargs)
        got = t.replace(**kwargs)
        if not isinstance(got, pendulum.Time):
            failures.append(f"replace({kwargs}) returned {type(got)}")
        g = (got.hour, got.minute, got.second, got.microsecond, got.tzinfo, got.fold)
        w = (want.hour, want.minute, want.second, want.microsecond, want.tzinfo,
             want.fold)
        if g != w:
            failures.append(
                f"fold={start_fold} tz={tzinfo} replace({kwargs}): got {g}, stdlib {w}"
            )

# invalid fold is still refused, as in the standard library
try:
    pendulum.Time(1, 2, 3).replace(fold=2)
except ValueError:
    pass
else:
    failures.append("replace(fold=2) did not raise ValueError")

if failures:
    print("\n".join(failures))
    sys.exit(1)
print("ok")
