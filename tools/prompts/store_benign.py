import json, subprocess, glob, os, shutil, tempfile
extra = {"C03-b2":["C04"],"C03-b3":["C04"],"C04-b1":["C03","C06","C19"],"C05-b2":["C04","C09","C18"],"C05-b3":["C11"],"C07-b2":["C08"],"C07-b3":["C02"],
         "C09-b1":["C04"],"C09-b2":["C18"],"C11-b1":["C05"],"C13-b3":["C17"],"C15-b3":["C07","C17"],"C17-b1":["C07"],"C17-b2":["C13"],"C20-b3":["C11"]}
stale = {"B06/out/1": "BX3/out/1", "B12/out/3": "BX1/out/1", "B16/out/1": "BX2/out/1"}
os.makedirs("/verif/benign", exist_ok=True)
n=0
for d in sorted(glob.glob('/tmp/wt/B[0-9][0-9]/out/[0-9]*/')):
    key = "/".join(d.split('/')[3:6])
    pid = "C"+d.split('/')[3][1:]; k=d.split('/')[5]
    bid = f"{pid}-b{k}"
    src = d
    note = None
    if key in stale:
        src = f"/tmp/wt/{stale[key]}/"
        note = "the agent's patch was written against ffaed2e and no longer applies to the repaired function; the same kind of refactoring was re-created by hand on the current code"
    tmp = tempfile.mkdtemp(prefix="pvs-store-")
    try:
        for sub in ("src/pendulum","rust/src"):
            shutil.copytree(f"/repo/{sub}", f"{tmp}/{sub}", ignore=shutil.ignore_patterns("*.so","__pycache__"))
        subprocess.run(["git","init","-q","."],cwd=tmp); subprocess.run(["git","add","-A"],cwd=tmp); subprocess.run(["git","-c","user.email=a@b","-c","user.name=x","commit","-qm","base"],cwd=tmp)
        r = subprocess.run(["git","apply",src+"patch.diff"],capture_output=True,text=True,cwd=tmp)
        if r.returncode:
            r2 = subprocess.run(["patch","-p1","--fuzz=3","-s","--no-backup-if-mismatch","-i",src+"patch.diff"],capture_output=True,text=True,cwd=tmp)
            if r2.returncode: print(bid,"APPLY FAILED"); continue
        diff = subprocess.run(["git","diff"],capture_output=True,text=True,cwd=tmp).stdout
        dst=f"/verif/benign/{bid}"; os.makedirs(dst, exist_ok=True)
        open(dst+"/patch.diff","w").write(diff)
        meta = json.load(open(d+"meta.json")) if os.path.exists(d+"meta.json") else {}
        if os.path.exists(d+"equiv.py") and key not in stale: shutil.copy(d+"equiv.py", dst+"/equiv.py")
        out = {"property": pid, "kind": meta.get("kind") if key not in stale else "re-created: " + str(meta.get("kind")), "functions": meta.get("functions"),
               "why_equivalent": meta.get("why_equivalent"), "env": meta.get("env") or {},
               "author": "independent sub-agent given only the property text and a private worktree (nothing from /verif); asked for behaviour-preserving refactorings",
               "verified_by_author": meta.get("verified"), "also_run_under": extra.get(bid, []),
               "expected": "every check stays quiet (exit 0, no VIOLATION, no ANALYSIS-ERROR); UNVERIFIED lines are acceptable"}
        if note: out["note"]=note
        json.dump(out, open(dst+"/meta.json","w"), indent=1)
        n+=1
    finally:
        shutil.rmtree(tmp, ignore_errors=True)
print("stored",n)
