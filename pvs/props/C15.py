"""C15 — calendar primitives agree with the proleptic Gregorian calendar in both back ends
(table identities and Python/Rust normal-form agreement)."""
from __future__ import annotations

import ast
import math
import re

from .. import cfg, core, mirfront, mirsym, rustconst
from ..core import nun, pmod, un
from ..rules.canon import Canon

EXPLANATION = (
    "Decided statically: (1) table identities: MONTHS_OFFSETS is the prefix sum of DAYS_PER_MONTHS (both rows, "
    "sentinel -1), the month-length rows differ only in February (28/29) and sum to 365/366, SECS_PER_* fold "
    "from 86400 and the 400/100/4-year leap counts (97, 24|25, 0|1), DAY_OF_WEEK_TABLE is the cumulative month "
    "offset (Jan/Feb counted in the previous year) mod 7 - derived by the checker from MONTHS_OFFSETS, TM_*/"
    "WeekDay enumerations are dense; (2) every constant shared by constants.py and rust/src/constants.rs has "
    "the same value; (3) is_leap, is_long_year/p, week_day, days_in_year, day_number and the prefix and the "
    "three chunk loops and month search of local_time have the same canonical decision tables / normal forms "
    "in the Python AST and in rustc MIR, and is_leap is the Gregorian rule {%4==0, %100!=0, %400==0}; "
    "(4) finite tabulation by the checker's own evaluator over month 1..12 x leap: Date.day_of_year's closed "
    "form minus day equals MONTHS_OFFSETS, quarter maps 1..12 to 1,1,1,2,..,4; (5) the delegating getters call "
    "the stdlib function with self's fields. NOT decided: agreement of the year-dependent closed forms with the "
    "calendar over all 9999 years / all timestamps (enumeration - a different technique)."
    ' is_long_year is also decided when its helper is inlined (straight-line locals substituted).'
)


# ---------------------------------------------------------------------------
# tables


def _tables(ctx) -> None:
    C = lambda n: core.const("constants", n)  # noqa: E731
    dpm, mo = C("DAYS_PER_MONTHS"), C("MONTHS_OFFSETS")
    rel = "src/pendulum/constants.py"
    ok = len(dpm) == 2 and all(len(r) == 13 and r[0] == -1 for r in dpm)
    ctx.ob("TABLES.shape", "DAYS_PER_MONTHS", ok, f"{dpm}", rel)
    want_n = (-1, 31, 28, 31, 30, 31, 30, 31, 31, 30, 31, 30, 31)
    ctx.ob("TABLES.months", "DAYS_PER_MONTHS[0]", tuple(dpm[0]) == want_n, f"non-leap month lengths {dpm[0]}", rel)
    diff = [i for i in range(13) if dpm[0][i] != dpm[1][i]]
    ctx.ob("TABLES.months", "DAYS_PER_MONTHS[1]", diff == [2] and dpm[1][2] == 29, f"leap row differs from the non-leap row at months {diff}", rel)
    ctx.ob("TABLES.months", "DAYS_PER_MONTHS/sums", sum(dpm[0][1:]) == C("DAYS_PER_N_YEAR") == 365 and sum(dpm[1][1:]) == C("DAYS_PER_L_YEAR") == 366,
           f"row sums {sum(dpm[0][1:])}, {sum(dpm[1][1:])} vs DAYS_PER_N_YEAR/L_YEAR", rel)
    for k in (0, 1):
        pref = [-1, 0]
        for i in range(1, 13):
            pref.append(pref[-1] + dpm[k][i])
        ctx.ob("TABLES.prefix", f"MONTHS_OFFSETS[{k}]", list(mo[k]) == pref, f"{mo[k]} vs prefix sums {pref}", rel)
    sd = C("SECS_PER_DAY")
    ctx.ob("TABLES.secs", "SECS_PER_MIN/HOUR/DAY", (C("SECS_PER_MIN"), C("SECS_PER_HOUR"), sd) == (60, 3600, 86400), "60/3600/86400", rel)
    ctx.ob("TABLES.secs", "SECS_PER_YEAR", tuple(C("SECS_PER_YEAR")) == (365 * sd, 366 * sd), f"{C('SECS_PER_YEAR')}", rel)
    ctx.ob("TABLES.secs", "SECS_PER_4_YEARS", tuple(C("SECS_PER_4_YEARS")) == (4 * 365 * sd, (3 * 365 + 366) * sd),
           "a 4-year chunk starting with a non-leap year has 0 leap days, otherwise 1", rel)
    ctx.ob("TABLES.secs", "SECS_PER_100_YEARS", tuple(C("SECS_PER_100_YEARS")) == ((76 * 365 + 24 * 366) * sd, (75 * 365 + 25 * 366) * sd),
           "a century has 24 leap years unless it starts a 400-year cycle (25)", rel)
    ctx.ob("TABLES.secs", "SECS_PER_400_YEARS", C("SECS_PER_400_YEARS") == 146097 * sd == (303 * 365 + 97 * 366) * sd,
           "400 years have 97 leap years = 146097 days", rel)
    ctx.ob("TABLES.secs", "named-units", (C("SECONDS_PER_MINUTE"), C("SECONDS_PER_HOUR"), C("SECONDS_PER_DAY"), C("MINUTES_PER_HOUR"),
                                          C("HOURS_PER_DAY"), C("DAYS_PER_WEEK"), C("MONTHS_PER_YEAR"), C("US_PER_SECOND"), C("USECS_PER_SEC"))
           == (60, 3600, 86400, 60, 24, 7, 12, 10**6, 10**6), "unit constants", rel)
    dow = C("DAY_OF_WEEK_TABLE")
    derived = tuple((mo[0][i + 1] - (1 if i >= 2 else 0)) % 7 for i in range(12))
    ctx.ob("TABLES.dow", "DAY_OF_WEEK_TABLE", tuple(dow) == derived,
           f"{tuple(dow)} vs (days before the month, March..December shifted by one because Jan/Feb count in the previous "
           f"year) mod 7 = {derived}", rel)
    tm = [C(f"TM_{n}") for n in ("JANUARY", "FEBRUARY", "MARCH", "APRIL", "MAY", "JUNE", "JULY", "AUGUST", "SEPTEMBER", "OCTOBER", "NOVEMBER", "DECEMBER")]
    ctx.ob("TABLES.enum", "TM_months", tm == list(range(12)), f"{tm}", rel)
    tw = [C(f"TM_{n}") for n in ("SUNDAY", "MONDAY", "TUESDAY", "WEDNESDAY", "THURSDAY", "FRIDAY", "SATURDAY")]
    ctx.ob("TABLES.enum", "TM_weekdays", tw == list(range(7)), f"{tw}", rel)
    day = pmod("day")
    wd = [core.fold(st.value, day) for st in day.cls("WeekDay").body if isinstance(st, ast.Assign)]
    names = [st.targets[0].id for st in day.cls("WeekDay").body if isinstance(st, ast.Assign)]
    ctx.ob("TABLES.enum", "WeekDay", wd == list(range(7)) and names == ["MONDAY", "TUESDAY", "WEDNESDAY", "THURSDAY", "FRIDAY", "SATURDAY", "SUNDAY"],
           f"{list(zip(names, wd))}; Monday must be 0 (date.weekday() and calendar.monthcalendar columns)", day.rel)
    ctx.ob("TABLES.epoch", "EPOCH_YEAR", C("EPOCH_YEAR") == 1970, "1970", rel)


def _rust_consts(ctx) -> None:
    try:
        rc = rustconst.load()
    except core.Unsupported as e:
        # a constant that is not a literal (a table derived by a const fn): its value is what its MIR body computes
        try:
            from .. import mirexec
            rc = dict(rustconst.load(strict=False))
            mir = mirfront.load()
            names = re.findall(r"^pub const (\w+)\s*:", (core.REPO / "rust/src/constants.rs").read_text(), re.M)
            tup = lambda v: tuple(tup(x) for x in v) if isinstance(v, list) else v      # noqa: E731
            for nm in names:
                if nm not in rc:
                    rc[nm] = tup(mirexec.Machine(mir, {}).const(f"constants::{nm}"))
        except (core.Unsupported, core.AnchorMissing, mirfront.MirUnavailable, mirexec.Panic, KeyError, TypeError, ValueError, IndexError) as e2:
            ctx.unverified("TABLES.py-rs", "constants.rs", f"{e}; and its MIR body is outside the evaluator: {e2}", "rust/src/constants.rs")
            return
    n = 0
    for name, rv in rc.items():
        try:
            pv = core.const("constants", name)
        except (core.Unsupported, core.AnchorMissing):
            if name == "DAYS_PER_400_YEARS":
                ctx.ob("TABLES.py-rs", name, rv == 146097, f"{rv}", "rust/src/constants.rs")
            continue
        n += 1
        norm = lambda v: tuple(norm(x) for x in v) if isinstance(v, (tuple, list)) else v  # noqa: E731
        ctx.ob("TABLES.py-rs", name, norm(pv) == norm(rv), f"Python {pv} vs Rust {rv}", "rust/src/constants.rs")
    ctx.count("shared_constants", n)


# ---------------------------------------------------------------------------
# decision tables of boolean functions


def _inline_calls(n: ast.AST, name: str, param: str, body: ast.expr) -> ast.AST:
    class T(ast.NodeTransformer):
        def visit_Call(self, node: ast.Call):
            self.generic_visit(node)
            if isinstance(node.func, ast.Name) and node.func.id == name and len(node.args) == 1:
                arg = node.args[0]

                class S(ast.NodeTransformer):
                    def visit_Name(self, nn: ast.Name):
                        return core.clone(arg) if nn.id == param else nn
                return S().visit(core.clone(body))
            return node
    return T().visit(core.clone(n))


def py_bool_table(expr: ast.expr, can: Canon) -> set:
    out = set()
    for outcome in (True, False):
        for conj in cfg.decide(expr, outcome):
            conds = frozenset(can.cond(ast.parse(a, mode="eval").body, pol) for a, pol in conj)
            out.add((conds, outcome))
    return out


def rs_bool_table(f: mirfront.MirFn, can: Canon, inline=None) -> set:
    sym = mirsym.Sym(f, {})
    out = set()
    for p in sym.run(0, mirsym.NEVER):
        conds = []
        for v, k in p.conds:
            cb = mirsym.cond_bool(v, k)
            if cb is None:
                raise core.Unsupported(f"non-boolean branch in {f.name}")
            e = inline(cb[0]) if inline else cb[0]
            conds.append(can.cond(e, cb[1]))
        ret = p.state.get("_0")
        if isinstance(ret, ast.Constant) and isinstance(ret.value, bool):
            out.add((frozenset(conds), ret.value))
        elif ret is not None:
            e = inline(ret) if inline else ret
            out.add((frozenset(conds + [can.cond(e, True)]), True))
            out.add((frozenset(conds + [can.cond(e, False)]), False))
        else:
            raise core.Unsupported(f"no return value in {f.name}")
    return out


def _single_return(m: core.Mod, q: str) -> ast.expr:
    r = [x for x in core.returns(m.func(q))]
    if len(r) != 1:
        raise core.Unsupported(f"{q}: {len(r)} returns")
    return r[0].value


def is_leap_rules(ctx, mir) -> None:
    """Gregorian leap rule in the pure-Python helper and its agreement with the compiled one (also used by every
    property that depends on add_duration's month-end clamp)"""
    hm = pmod("_helpers")
    can = Canon({"year": "Y", "y": "Y"})
    try:
        pl = py_bool_table(_single_return(hm, "is_leap"), can)
        want = py_bool_table(ast.parse("Y % 4 == 0 and (Y % 100 != 0 or Y % 400 == 0)", mode="eval").body, can)
        ctx.ob("FORMULA.is_leap", "py:is_leap", pl == want, f"decision table {sorted(map(str, pl))[:3]}...; must be the Gregorian rule "
               f"%4==0 and (%100!=0 or %400==0)", hm.rel)
        if mir is not None:
            rl = rs_bool_table(mir.fn("helpers::is_leap"), can)
            ctx.ob("SIBLING.is_leap", "py-vs-rs:is_leap", rl == pl, f"Rust table differs: only Rust {sorted(map(str, rl - pl))[:2]}, only Python {sorted(map(str, pl - rl))[:2]}",
                   "rust/src/helpers.rs")
    except core.Unsupported as e:
        ctx.unverified("SIBLING.is_leap", "is_leap", str(e), hm.rel)


def clamp_dependencies(ctx) -> None:
    """what helpers.add_duration's `min(DAYS_PER_MONTHS[int(is_leap(year))][month], dt.day)` relies on"""
    C = lambda n: core.const("constants", n)  # noqa: E731
    dpm = C("DAYS_PER_MONTHS")
    rel = "src/pendulum/constants.py"
    want_n = (-1, 31, 28, 31, 30, 31, 30, 31, 31, 30, 31, 30, 31)
    ctx.ob("TABLES.months", "DAYS_PER_MONTHS[0]", len(dpm) == 2 and tuple(dpm[0]) == want_n, f"non-leap month lengths {dpm[0]}", rel)
    ctx.ob("TABLES.months", "DAYS_PER_MONTHS[1]", len(dpm) == 2 and tuple(dpm[1]) == want_n[:2] + (29,) + want_n[3:], f"leap month lengths {dpm[1]}", rel)
    try:
        mir = mirfront.load()
    except mirfront.MirUnavailable as e:
        mir = None
        ctx.unverified("SIBLING.is_leap", "rust", f"MIR unavailable: {e}", "rust/")
    is_leap_rules(ctx, mir)


def _siblings(ctx, mir) -> None:
    is_leap_rules(ctx, mir)
    hm = pmod("_helpers")
    can = Canon({"year": "Y", "y": "Y"})
    # p / is_long_year
    try:
        fn = hm.func("is_long_year")
        inner = [n for n in fn.body if isinstance(n, ast.FunctionDef)]
        ref_p = ast.parse("Y + Y // 4 - Y // 100 + Y // 400", mode="eval").body
        if len(inner) == 1 and len(inner[0].args.args) == 1:
            pname = inner[0].name
            pbody = core.returns(inner[0])[0].value
            pparam = inner[0].args.args[0].arg
            canp = Canon({pparam: "Y", "year": "Y"})
            p_py = canp.s(pbody)
            want_p = canp.s(ref_p)
            ctx.ob("FORMULA.p", "py:is_long_year.p", p_py == want_p, f"{pname}(y) = {p_py}; must be y + y//4 - y//100 + y//400", hm.loc(inner[0]))
            ret = [r for r in core.returns(fn)][-1].value
            ret_i = _inline_calls(ret, pname, pparam, pbody)
        elif not inner:
            # no local helper: the straight-line locals are substituted into the returned expression and the
            # whole decision is compared with the reference (p inlined on both sides)
            ps = cfg.paths(fn)
            if len(ps) != 1 or ps[0].exit()[1] != "return":
                raise core.Unsupported("is_long_year: neither a local helper nor a single straight-line return")
            pparam, pbody = "Y", ref_p
            p_py = Canon({"Y": "Y"}).s(ref_p)
            ret_i = cfg.subst_path(ps[0], ps[0].exit()[2].value, set())
            ctx.ob("FORMULA.p", "py:is_long_year.p", True, "no local helper; the inlined formula is compared as a whole below", hm.loc(fn), nontrivial=False)
        else:
            raise core.Unsupported("is_long_year: unrecognised local helpers")
        pt = py_bool_table(ret_i, can)
        want_e = _inline_calls(ast.parse("p(Y) % 7 == 4 or p(Y - 1) % 7 == 3", mode="eval").body, "p", pparam, pbody)
        ctx.ob("FORMULA.is_long_year", "py:is_long_year", pt == py_bool_table(want_e, can),
               "a year has 53 ISO weeks iff p(y) % 7 == 4 or p(y-1) % 7 == 3", hm.loc(fn))
        if mir is not None:
            pf = mir.fn("p")
            sym = mirsym.Sym(pf, {})
            paths = sym.run(0, mirsym.NEVER)
            p_rs_ast = paths[0].state["_0"]
            p_rs = Canon({"year": "Y"}).s(p_rs_ast)
            ctx.ob("SIBLING.p", "py-vs-rs:p", len(paths) == 1 and p_rs == p_py, f"Rust p = {p_rs}; Python p = {p_py}", "rust/src/helpers.rs")
            rt = rs_bool_table(mir.fn("helpers::is_long_year"), can, inline=lambda e: _inline_calls(e, "p", "year", p_rs_ast))
            ctx.ob("SIBLING.is_long_year", "py-vs-rs:is_long_year", rt == pt,
                   f"only Rust {sorted(map(str, rt - pt))[:2]}, only Python {sorted(map(str, pt - rt))[:2]}", "rust/src/helpers.rs")
    except (core.Unsupported, IndexError) as e:
        ctx.unverified("SIBLING.is_long_year", "is_long_year", str(e), hm.rel)
    # days_in_year
    fn = hm.func("days_in_year")
    src = [nun(s) for s in core.body_no_doc(fn)]
    ctx.ob("FORMULA.days_in_year", "py:days_in_year", src == ["if is_leap(year):\n    return DAYS_PER_L_YEAR", "return DAYS_PER_N_YEAR"], f"{src}", hm.loc(fn))
    if mir is not None:
        try:
            f = mir.fn("helpers::days_in_year")
            sym = mirsym.Sym(f, {})
            got = set()
            for p in sym.run(0, mirsym.NEVER):
                cb = [mirsym.cond_bool(v, k) for v, k in p.conds]
                got.add((tuple((un(c[0]), c[1]) for c in cb), un(p.state.get("_0"))))
            want = {((("is_leap(year)", True),), "DAYS_PER_L_YEAR"), ((("is_leap(year)", False),), "DAYS_PER_N_YEAR")}
            ctx.ob("SIBLING.days_in_year", "rs:days_in_year", got == want, f"{sorted(map(str, got))}", "rust/src/helpers.rs")
        except core.Unsupported as e:
            ctx.unverified("SIBLING.days_in_year", "rs", str(e), "rust/src/helpers.rs")
    # day_number
    try:
        fn = hm.func("_day_number")
        p0 = cfg.paths(fn)[0]
        candn = Canon({"year": "Y", "month": "M", "day": "D"})
        py = candn.s(cfg.subst_path(p0, p0.exit()[2].value, set()))
        want = candn.s(ast.parse("365*(Y - ((M + 9) % 12)//10) + (Y - ((M + 9) % 12)//10)//4 - (Y - ((M + 9) % 12)//10)//100 + "
                                 "(Y - ((M + 9) % 12)//10)//400 + (((M + 9) % 12)*306 + 5)//10 + (D - 1)", mode="eval").body)
        ctx.ob("FORMULA.day_number", "py:_day_number", py == want, f"{py}", hm.loc(fn))
        if mir is not None:
            f = mir.fn("day_number")
            sym = mirsym.Sym(f, {})
            ps = sym.run(0, mirsym.NEVER)
            rs = candn.s(ps[0].state["_0"])
            ctx.ob("SIBLING.day_number", "py-vs-rs:day_number", len(ps) == 1 and rs == py, f"Rust {rs} vs Python {py}", "rust/src/helpers.rs")
    except (core.Unsupported, KeyError) as e:
        ctx.unverified("SIBLING.day_number", "day_number", str(e), hm.rel)
    # week_day
    try:
        fn = hm.func("week_day")
        canw = Canon({"year": "Y", "month": "M", "day": "D"})
        py_cases = {}
        for p in cfg.paths(fn):
            lt3 = p.holds("month < 3")
            wv = cfg.subst_path(cfg.Path([e for e in p if not (e[0] == "stmt" and nun(e[1]).startswith("w = 7"))]),
                                ast.Name("w", ast.Load()), set())
            py_cases[lt3] = canw.s(wv)
        want = {c: canw.s(ast.parse(f"(({y}) + ({y})//4 - ({y})//100 + ({y})//400 + DAY_OF_WEEK_TABLE[M - 1] + D) % 7", mode="eval").body)
                for c, y in ((True, "Y - 1"), (False, "Y"))}
        ctx.ob("FORMULA.week_day", "py:week_day", py_cases == want, f"{py_cases}; must be Sakamoto's formula with Jan/Feb counted in the previous year", hm.loc(fn))
        zero = [n for n in core.walk_fn(fn) if isinstance(n, ast.If) and nun(n.test) in ("not w", "w == 0")]
        ctx.ob("FORMULA.week_day", "py:week_day/sunday", len(zero) == 1 and [nun(s) for s in zero[0].body] == ["w = 7"], "a remainder of 0 is ISO weekday 7", hm.loc(fn))
        if mir is not None:
            f = mir.fn("helpers::week_day")
            pf = mir.fn("p")
            p_ast = mirsym.Sym(pf, {}).run(0, mirsym.NEVER)[0].state["_0"]
            sym = mirsym.Sym(f, {})
            rs_cases = {}
            seven = False
            for p in sym.run(0, mirsym.NEVER):
                ret = p.state.get("_0")
                if isinstance(ret, ast.Call) and un(ret.func) == "unsigned_abs" and len(ret.args) == 1:
                    ret = ret.args[0]       # w is a remainder modulo 7 of a non-negative sum
                zero_path = any(mirsym.cond_bool(v, k) and un(mirsym.cond_bool(v, k)[0]).endswith("== 0") and mirsym.cond_bool(v, k)[1] for v, k in p.conds)
                if zero_path:
                    seven = isinstance(ret, ast.Constant) and ret.value == 7
                    continue
                e = _inline_calls(ret, "p", "year", p_ast)
                for case in (True, False):
                    class R(ast.NodeTransformer):
                        def visit_Compare(self, node):
                            if canw.cond(node, True) == canw.cond(ast.parse("M < 3", mode="eval").body, True):
                                return ast.Constant(1 if case else 0)
                            return node
                    rs_cases[case] = canw.s(R().visit(core.clone(e)))
            ctx.ob("SIBLING.week_day", "py-vs-rs:week_day", rs_cases == py_cases and seven,
                   f"Rust {rs_cases} (0 -> 7: {seven}) vs Python {py_cases}", "rust/src/helpers.rs")
    except (core.Unsupported, KeyError, IndexError) as e:
        ctx.unverified("SIBLING.week_day", "week_day", str(e), hm.rel)


# ---------------------------------------------------------------------------
# local_time


def _py_loops(fn: ast.FunctionDef, can: Canon):
    out = []
    for st in fn.body:
        if isinstance(st, ast.While) and "MONTHS_OFFSETS" not in un(st):
            p = cfg.Path([("stmt", s) for s in st.body])
            upd = {}
            for s in st.body:
                for t in cfg._assigned(s):
                    upd[t] = can.s(cfg.subst_path(p, ast.Name(t, ast.Load()), set()))
            out.append((can.cond(st.test, True), tuple(sorted(upd.items()))))
    return out


def _conds_at(p: cfg.Path, can: Canon) -> list:
    """path conditions with the local names replaced by their values at the point of the test"""
    out = []
    for i, e in enumerate(p):
        if e[0] == "assume":
            t = cfg.subst_path(cfg.Path(p[:i]), ast.parse(e[1], mode="eval").body, set())
            out.append(can.cond(t, e[2]))
    return out


def _local_time(ctx, mir) -> None:
    hm = pmod("_helpers")
    fn = hm.func("local_time")
    consts = {k: core.const("constants", k) for k in ("SECS_PER_DAY", "EPOCH_YEAR", "SECS_PER_400_YEARS", "SECS_PER_HOUR", "SECS_PER_MIN")}
    can = Canon({"unix_time": "T"}, consts=consts)
    loops = _py_loops(fn, can)
    E = lambda s: can.s(ast.parse(s, mode="eval").body)  # noqa: E731
    want = []
    for var, tbl, step, leap in (("sec_per_100years", "SECS_PER_100_YEARS", 100, 0), ("sec_per_4years", "SECS_PER_4_YEARS", 4, 1),
                                 ("sec_per_year", "SECS_PER_YEAR", 1, 0)):
        want.append((can.cond(ast.parse(f"seconds >= {var}", mode="eval").body, True),
                     tuple(sorted({"seconds": E(f"seconds - {var}"), "year": E(f"year + {step}"), "leap_year": str(leap),
                                   var: f"{tbl}[{leap}]"}.items()))))
    ctx.ob("LOCALTIME.chunks", "py:local_time/loops", loops == want,
           f"chunk loops {loops}; must peel 100-year, 4-year and 1-year chunks in this order, resetting the leap flag to 0, 1, 0 "
           f"and reloading the chunk length from the table row of the new flag", hm.loc(fn))
    # prefix up to the first loop: epoch shift and 400-year reduction
    first_loop = [i for i, s in enumerate(fn.body) if isinstance(s, ast.While)][0]
    pre = [s for s in fn.body[:first_loop]]
    forms = set()
    for p in cfg.paths(pre):
        conds = frozenset(_conds_at(p, can))
        sec = can.s(cfg.subst_path(p, ast.Name("seconds", ast.Load()), set()))
        yr = can.s(cfg.subst_path(p, ast.Name("year", ast.Load()), set()))
        forms.add((conds, sec, yr))
    ctx.count("localtime_prefix_paths", len(forms))
    # expected prefix written once in Python syntax and normalised the same way
    ref_src = (
        "year = 1970\nseconds = math.floor(T)\n"
        "if seconds >= 0:\n    seconds -= 10957 * 86400\n    year += 30\nelse:\n    seconds += (146097 - 10957) * 86400\n    year -= 370\n"
        "seconds += utc_offset\nyear += 400 * (seconds // (146097 * 86400))\nseconds %= 146097 * 86400\n"
        "if seconds < 0:\n    seconds += 146097 * 86400\n    year -= 400\n")
    ref = set()
    for p in cfg.paths(ast.parse(ref_src).body):
        conds = frozenset(_conds_at(p, can))
        ref.add((conds, can.s(cfg.subst_path(p, ast.Name("seconds", ast.Load()), set())), can.s(cfg.subst_path(p, ast.Name("year", ast.Load()), set()))))
    ctx.ob("LOCALTIME.prefix", "py:local_time/epoch-shift", forms == ref,
           f"{len(forms ^ ref)} path summaries differ from the reference (shift to 2000 / 1600 by 10957 and 146097-10957 days, add the "
           f"offset, reduce modulo 400 years): {sorted(map(str, forms - ref))[:1]}", hm.loc(fn))
    tail = [nun(s) for s in fn.body[first_loop:] if not isinstance(s, ast.While)]
    want_tail = ["leap_year = 1", "sec_per_100years = SECS_PER_100_YEARS[leap_year]", "sec_per_4years = SECS_PER_4_YEARS[leap_year]",
                 "sec_per_year = SECS_PER_YEAR[leap_year]", "month = TM_DECEMBER + 1", "day = seconds // SECS_PER_DAY + 1", "seconds %= SECS_PER_DAY",
                 "hour, seconds = divmod(seconds, SECS_PER_HOUR)", "minute, second = divmod(seconds, SECS_PER_MIN)",
                 "return (year, month, day, hour, minute, second, microseconds)"]
    got_tail = [s for s in [nun(x) for x in fn.body] if s in want_tail]
    ctx.ob("LOCALTIME.tail", "py:local_time/decomposition", got_tail == want_tail,
           f"statements between/after the loops {tail}; expected {want_tail}", hm.loc(fn))
    if mir is None:
        return
    f = mir.fn("helpers::local_time")
    names = f.names()
    canr = Canon({"unix_time": "T"}, consts=consts)
    sccs = sorted((s for s in f.sccs() if not any("MONTHS_OFFSETS" in x.raw for b in s for x in f.blocks[b].stmts)), key=min)
    rs_loops = []
    try:
        for scc in sccs:
            head = min(scc)
            sym = mirsym.Sym(f, {})
            for p in sym.run(head, lambda b: b == head or b not in scc, max_visits=1):
                if p.end != head or len(p.blocks) < 2:
                    continue
                cb = mirsym.cond_bool(*p.conds[0])
                upd = {}
                for loc, v in p.state.items():
                    n = names.get(loc)
                    if n in ("seconds", "year", "leap_year", "sec_per_100years", "sec_per_4years", "sec_per_year"):
                        upd[n] = canr.s(v)
                rs_loops.append((canr.cond(cb[0], cb[1]), tuple(sorted(upd.items()))))
        ctx.ob("SIBLING.local_time", "py-vs-rs:local_time/loops", rs_loops == loops,
               f"Rust chunk loops {rs_loops} vs Python {loops}", "rust/src/helpers.rs")
        # prefix in Rust
        first = min(min(s) for s in sccs)
        sym = mirsym.Sym(f, {})
        rforms = set()
        sec_l, yr_l = f.local("seconds"), f.local("year")
        for p in sym.run(0, {first}):
            conds = []
            for v, k in p.conds:
                cb = mirsym.cond_bool(v, k)
                conds.append(canr.cond(cb[0], cb[1]))
            rforms.add((frozenset(conds), canr.s(p.state.get(sec_l)), canr.s(p.state.get(yr_l))))
        ctx.ob("SIBLING.local_time", "py-vs-rs:local_time/epoch-shift", rforms == forms,
               f"only Rust {sorted(map(str, rforms - forms))[:1]}; only Python {sorted(map(str, forms - rforms))[:1]}", "rust/src/helpers.rs")
    except (core.Unsupported, TypeError, IndexError) as e:
        ctx.unverified("SIBLING.local_time", "rs:local_time", f"{type(e).__name__}: {e}", "rust/src/helpers.rs")


# ---------------------------------------------------------------------------
# getters


def _ieval(n: ast.AST, env: dict) -> float:
    if isinstance(n, ast.Constant):
        return n.value
    if isinstance(n, ast.Name):
        return env[n.id]
    if isinstance(n, ast.Attribute):
        return env[un(n)]
    if isinstance(n, ast.UnaryOp) and isinstance(n.op, ast.USub):
        return -_ieval(n.operand, env)
    if isinstance(n, ast.BinOp):
        a, b = _ieval(n.left, env), _ieval(n.right, env)
        return {ast.Add: a + b, ast.Sub: a - b, ast.Mult: a * b, ast.FloorDiv: a // b if b else 0, ast.Div: a / b if b else 0,
                ast.Mod: a % b if b else 0}[type(n.op)]
    if isinstance(n, ast.Compare) and len(n.ops) == 1:
        a, b = _ieval(n.left, env), _ieval(n.comparators[0], env)
        return {ast.Eq: a == b, ast.NotEq: a != b, ast.Lt: a < b, ast.LtE: a <= b, ast.Gt: a > b, ast.GtE: a >= b}[type(n.ops[0])]
    if isinstance(n, ast.BoolOp):
        vals = [_ieval(v, env) for v in n.values]
        return all(vals) if isinstance(n.op, ast.And) else any(vals)
    if isinstance(n, ast.UnaryOp) and isinstance(n.op, ast.Not):
        return not _ieval(n.operand, env)
    if isinstance(n, ast.Call) and un(n.func) == "math.ceil":
        return math.ceil(_ieval(n.args[0], env))
    if isinstance(n, ast.IfExp):
        return _ieval(n.body if _ieval(n.test, env) else n.orelse, env)
    if isinstance(n, ast.Call) and un(n.func) == "self.is_leap_year":
        return env["leap"]
    raise core.Unsupported(f"expression `{un(n)}` is outside the checker's arithmetic evaluator")


def _getters(ctx) -> None:
    m = pmod("date")
    mo = core.const("constants", "MONTHS_OFFSETS")
    fn = m.func("Date.day_of_year")
    try:
        p = cfg.paths(fn)[0]
        expr = cfg.subst_path(p, p.exit()[2].value, set())
        bad = []
        # one representative year per class of the Gregorian rule (div. by 400 / by 100 only / by 4 only / not by 4)
        for year, leap in ((2000, 1), (1900, 0), (2024, 1), (2023, 0)):
            for month in range(1, 13):
                v = _ieval(expr, {"self.month": month, "self.day": 0, "leap": leap, "self.year": year})
                if v != mo[leap][month]:
                    bad.append((year, month, v, mo[leap][month]))
        ctx.ob("TABULATE.day_of_year", "Date.day_of_year", not bad,
               f"closed form minus day vs MONTHS_OFFSETS over month 1..12 x the four leap-rule classes (2000, 1900, 2024, 2023): "
               f"mismatches (year, month, got, want) {bad[:4]}", m.loc(fn))
        ctx.count("tabulated_cases", 48)
    except (core.Unsupported, KeyError) as e:
        ctx.unverified("TABULATE.day_of_year", "Date.day_of_year", str(e), m.loc(fn))
    fn = m.func("Date.quarter")
    try:
        e = core.returns(fn)[0].value
        got = [_ieval(e, {"self.month": mth}) for mth in range(1, 13)]
        ctx.ob("TABULATE.quarter", "Date.quarter", got == [1, 1, 1, 2, 2, 2, 3, 3, 3, 4, 4, 4], f"months 1..12 -> {got}", m.loc(fn))
    except (core.Unsupported, KeyError, IndexError) as e:
        ctx.unverified("TABULATE.quarter", "Date.quarter", str(e), m.loc(fn))
    deleg = {"day_of_week": "WeekDay(self.weekday())", "week_of_year": "self.isocalendar()[1]",
             "days_in_month": "calendar.monthrange(self.year, self.month)[1]", "is_leap_year": "calendar.isleap(self.year)",
             "is_long_year": "Date(self.year, 12, 28).isocalendar()[1] == 53",
             "week_of_month": "math.ceil((self.day + self.first_of('month').isoweekday() - 1) / 7)"}
    for name, want in deleg.items():
        r = core.returns(m.func(f"Date.{name}"))
        ctx.ob("DELEGATE", f"Date.{name}", len(r) == 1 and nun(r[0].value) == want, f"returns {[nun(x.value) for x in r]}; accepted idiom `{want}`", m.rel)
    dm = pmod("datetime")
    r = core.returns(dm.func("DateTime.is_long_year"))
    ctx.ob("DELEGATE", "DateTime.is_long_year", len(r) == 1 and nun(r[0].value) == "DateTime.create(self.year, 12, 28, 0, 0, 0, tz=self.tz).isocalendar()[1] == 53",
           f"{[nun(x.value) for x in r]}", dm.rel)


def _day_number_cases(deep: bool):
    import calendar
    out = []
    for y in (list(range(1, 10000, 7)) if deep else [1, 4, 100, 400, 1583, 1600, 1899, 1900, 1901, 1999, 2000, 2001, 2004, 2023, 2024, 2100, 2400, 9999]):
        for mo in range(1, 13):
            for d in (1, 15, calendar.monthrange(y, mo)[1]):
                out.append((y, mo, d))
    return out


def _local_time_cases(deep: bool):
    """timestamps on both sides of year boundaries, leap days, the epoch, negative times, utc offsets of both signs; the expected
    broken-down time by the standard library's datetime arithmetic"""
    import datetime as _dt
    import math
    EP = _dt.datetime(1970, 1, 1)

    def lt_want(t, off, us):
        w = EP + _dt.timedelta(seconds=math.floor(t) + off)
        return (w.year, w.month, w.day, w.hour, w.minute, w.second, us)
    lt_cases = []
    for y in (list(range(1601, 2400)) if deep else list(range(1601, 2400, 13)) + [1969, 1970, 1971, 1999, 2000, 2001, 2004, 2100, 2101, 1900, 1901, 2399]):
        t0 = int((_dt.datetime(y, 1, 1) - EP).total_seconds())
        for dlt in (-1, 0, 1, 86399, 86400, 59 * 86400, 60 * 86400, 365 * 86400 - 1, 365 * 86400):
            lt_cases.append((t0 + dlt, 0, 5))
        lt_cases += [(t0, 3600, 0), (t0, -3600, 999999), (t0 - 1, 19800, 1), (t0 + 86400 * 59 + 43200, -34200, 2)]
    for y in (1, 2, 400, 401, 1199, 1200, 1201, 1600, 2400, 2401, 2800, 5000, 9999):      # the 400-year chunks far from the epoch, both directions
        t0 = int((_dt.datetime(y, 1, 1) - EP).total_seconds())
        lt_cases += [(t0, 0, 0), (t0 + 86400 * 200 + 3661, 0, 1), (t0 + 1, 3600, 2)] + ([(t0 - 1, 0, 3)] if y > 1 else [])
    lt_cases += [(0, 0, 0), (-1, 0, 0), (1, 0, 0), (951782400, 0, 0), (951868799, 0, 7), (0.5, 0, 500000), (-0.5, 0, 500000), (4102444800, 0, 0), (-11644473600, 0, 0)]
    return lt_cases, lt_want


def _getters_tabulate(ctx) -> bool | None:
    """GETTERS.tabulated: the calendar getters of Date (days_in_month, is_leap_year, is_long_year, quarter, day_of_week, day_of_year,
    week_of_year) run by the checker's interpreter on Date instance stubs - the fields and the native methods (weekday, isocalendar,
    timetuple ...) are the standard library's, `calendar` / `math` are the standard library, helpers imported from pendulum.helpers stand
    for what PRIM.tabulated decides them to be - over month ends and starts of common, leap, century and long years, against the
    standard library."""
    import calendar
    import datetime as _dt
    import math
    from ..rules import minieval, wallstub
    from ..rules.minieval import ClassStub, Obj, Stub
    m = pmod("date")
    meths = m.methods_mro("Date")
    props = {k for k, f in meths.items() if any(core.dotted(d) == "property" for d in f.decorator_list)}
    clevel = minieval.class_level(m, "Date")         # class-level tables of the analysed class (a table of days before each month, ...)
    helpers = {"is_leap": calendar.isleap, "is_long_year": lambda y: _dt.date(y, 12, 28).isocalendar()[1] == 53,
               "days_in_year": lambda y: 366 if calendar.isleap(y) else 365, "week_day": lambda y, mo, d: _dt.date(y, mo, d).isoweekday()}
    glob = {**minieval.module_consts(m), "calendar": minieval.std_module("calendar"),
            "math": Stub(ceil=math.ceil, floor=math.floor), "WeekDay": wallstub.WEEKDAY, "pendulum": Stub(helpers=Stub(**helpers)),
            "Date": ClassStub(_new=_dt.date, _isa=lambda v: isinstance(v, (_dt.date, Obj))), "date": ClassStub(_new=_dt.date, _isa=lambda v: isinstance(v, (_dt.date, Obj)))}
    for st in m.tree.body:
        if isinstance(st, ast.ImportFrom) and st.module in ("pendulum.helpers", "pendulum._helpers"):
            for a in st.names:
                if a.name in helpers:
                    glob[a.asname or a.name] = helpers[a.name]
    want = {"days_in_month": lambda d: calendar.monthrange(d.year, d.month)[1], "is_leap_year": lambda d: calendar.isleap(d.year),
            "is_long_year": lambda d: _dt.date(d.year, 12, 28).isocalendar()[1] == 53, "quarter": lambda d: (d.month - 1) // 3 + 1,
            "day_of_week": lambda d: d.weekday(), "day_of_year": lambda d: d.timetuple().tm_yday, "week_of_year": lambda d: d.isocalendar()[1]}
    dates = []
    for y in (1, 4, 100, 400, 1900, 1999, 2000, 2004, 2015, 2016, 2020, 2021, 2023, 2024, 2026, 2100, 9999):
        for mo in range(1, 13):
            for day in (1, calendar.monthrange(y, mo)[1]):
                dates.append(_dt.date(y, mo, day))
    funcs = {st.name: st for st in m.top() if isinstance(st, ast.FunctionDef)}
    res: dict[str, list[str]] = {}
    counts: dict[str, int] = {}
    for name, w in want.items():
        if name not in meths:
            continue
        bad = res.setdefault(name, [])
        try:
            for d in dates:
                o = Obj(_methods=meths, _props=props, _natives={}, _ctor=glob["Date"], _types=(_dt.date,), **clevel, year=d.year, month=d.month, day=d.day, weekday=d.weekday,
                        isoweekday=d.isoweekday, isocalendar=d.isocalendar, timetuple=d.timetuple, toordinal=d.toordinal)
                got = minieval.call(meths[name], [o], {}, {**funcs, "$globals": glob})
                counts[name] = counts.get(name, 0) + 1
                exp = w(d)
                if got != exp or (isinstance(exp, bool) != isinstance(got, bool)):
                    bad.append(f"Date({d}).{name} = {got!r} (expected {exp!r})")
        except (core.Unsupported, KeyError, TypeError, AttributeError, IndexError, RecursionError, ValueError, ZeroDivisionError, minieval.Raised) as e:
            ctx.unverified("GETTERS.tabulated", f"Date.{name}", f"outside the checker's interpreter: {type(e).__name__}: {e}", m.loc(meths[name]))
            res.pop(name)
            continue
        ctx.ob("GETTERS.tabulated", f"Date.{name}", not bad, f"{counts.get(name, 0)} dates: " + (f"wrong: {bad[:3]}" if bad else "equal to the standard library"), m.loc(meths[name]))
        if not bad:
            ctx.established(("DELEGATE", "TABULATE.quarter"), f"Date.{name}", "GETTERS.tabulated")
    return all(not b for b in res.values())


def _prim_tabulate(ctx) -> None:
    """PRIM.tabulated: the pure-Python calendar primitives of _helpers.py run by the checker's interpreter against the standard
    library: is_leap / days_in_year for every year 1..2800 and 9999 (calendar.isleap), is_long_year for the same years
    (ISO week 53 of 28 December), week_day for the first, 28th and last day of every month of 1..2800 sampled every 7th year
    plus every day of 1999-2001 and 2024 (date.isoweekday), local_time for timestamps on both sides of every year boundary
    1601..2399 (sampled), leap days, the epoch, negative times and utc offsets of both signs (datetime arithmetic)."""
    import calendar
    import datetime as _dt
    from ..rules import minieval
    m = pmod("_helpers")
    consts = minieval.module_consts(m)
    funcs = {st.name: st for st in m.top() if isinstance(st, ast.FunctionDef)}
    import math
    glob = {**funcs, "$globals": {**consts, "math": minieval.Stub(floor=math.floor), "ValueError": ValueError}}
    deep = ctx.tier == "thorough"
    years = list(range(1, 10000)) if deep else list(range(1, 402)) + list(range(1583, 2402)) + [2800, 9999]      # the Gregorian calendar repeats every 400 years

    def tab(name, cases, want, show):
        if name not in funcs:
            return
        bad, n = [], 0
        try:
            for args in cases:
                n += 1
                try:
                    got = minieval.call(funcs[name], list(args), {}, glob)
                except minieval.Raised as e:
                    bad.append(f"{show(args)}: raises {e.exc_name}")
                    continue
                w = want(*args)
                if got != w or type(got) is not type(w) and not (isinstance(got, (bool, int)) and isinstance(w, (bool, int))):
                    bad.append(f"{show(args)} = {got!r} (expected {w!r})")
        except (core.Unsupported, KeyError, TypeError, AttributeError, IndexError, RecursionError, ValueError, ZeroDivisionError) as e:
            ctx.unverified("PRIM.tabulated", f"py:{name}", f"outside the checker's interpreter: {type(e).__name__}: {e}", m.loc(funcs[name]))
            return
        ctx.ob("PRIM.tabulated", f"py:{name}", not bad, f"{n} inputs: " + (f"wrong: {bad[:3]}" if bad else "equal to the standard library on every input"), m.loc(funcs[name]))
        if not bad:
            ctx.established(("FORMULA", "LOCALTIME", "CUMSEARCH.backward"), f"py:{name}", "PRIM.tabulated")
    tab("is_leap", [(y,) for y in years], lambda y: calendar.isleap(y), lambda a: f"is_leap({a[0]})")
    tab("days_in_year", [(y,) for y in years], lambda y: 366 if calendar.isleap(y) else 365, lambda a: f"days_in_year({a[0]})")
    tab("is_long_year", [(y,) for y in years], lambda y: _dt.date(y, 12, 28).isocalendar()[1] == 53, lambda a: f"is_long_year({a[0]})")
    wd_cases = [(y, mo, d) for y in list(range(1, 2801, 7 if deep else 23)) + [9999] for mo in range(1, 13) for d in (1, 28, calendar.monthrange(y, mo)[1])]
    for y in (range(1900, 2101) if deep else (1999, 2000, 2001, 2024)):
        wd_cases += [(y, mo, d) for mo in range(1, 13) for d in range(1, calendar.monthrange(y, mo)[1] + 1)]
    for y in (100, 200, 300, 400, 500, 1700, 1800, 1900, 2000, 2100, 2200, 2300, 2400, 9900):      # century years: where the /100 and /400 terms of the day count switch
        wd_cases += [(y, 1, 1), (y, 1, 31), (y, 2, 1), (y, 2, calendar.monthrange(y, 2)[1]), (y, 3, 1), (y, 12, 31), (y - 1, 12, 31), (y + 1, 1, 1)]
    if deep:
        wd_cases += [(y, mo, 1) for y in range(1, 10000) for mo in (1, 2, 3, 12)]
    tab("week_day", wd_cases, lambda y, mo, d: _dt.date(y, mo, d).isoweekday(), lambda a: f"week_day{a}")
    lt_cases, lt_want = _local_time_cases(deep)
    tab("local_time", lt_cases, lt_want, lambda a: f"local_time{a}")
    # _day_number: only differences matter (total_days of an interval) - the day count from 2000-03-01, whatever the function's own origin
    if "_day_number" in funcs:
        try:
            origin = minieval.call(funcs["_day_number"], [2000, 3, 1], {}, glob)
            funcs["_day_number (relative)"] = None
            bad, n = [], 0
            for y, mo, d in _day_number_cases(deep):
                n += 1
                got = minieval.call(funcs["_day_number"], [y, mo, d], {}, glob) - origin
                w = (_dt.date(y, mo, d) - _dt.date(2000, 3, 1)).days
                if got != w:
                    bad.append(f"_day_number({y}, {mo}, {d}) - _day_number(2000, 3, 1) = {got} (expected {w})")
            ctx.ob("PRIM.tabulated", "py:_day_number", not bad, f"{n} dates: " + (f"wrong: {bad[:3]}" if bad else "differences equal the standard library's day counts"), m.loc(funcs["_day_number"]))
            if not bad:
                ctx.established(("FORMULA.day_number",), "py:_day_number", "PRIM.tabulated")
        except (core.Unsupported, KeyError, TypeError, AttributeError, IndexError, RecursionError, ValueError, ZeroDivisionError, minieval.Raised) as e:
            ctx.unverified("PRIM.tabulated", "py:_day_number", f"outside the checker's interpreter: {type(e).__name__}: {e}", m.loc(funcs["_day_number"]))


def _rs_prim_tabulate(ctx, mir) -> None:
    """RSPRIM.tabulated: the compiled calendar primitives (rust/src/helpers.rs) decided on values: the MIR path summaries of is_leap,
    days_in_year, is_long_year and week_day (symbolic execution of the basic blocks, calls between them followed) are evaluated by
    the checker's interpreter - Rust's truncating `/` and `%` modelled as such - for the years 1..2800 and 9999 (every year in the
    thorough tier) and for week_day the first, 28th and last day of every month of every 7th year plus every day of four years,
    and compared with the standard library (calendar.isleap, ISO week 53 of 28 December, date.isoweekday)."""
    import calendar
    import datetime as _dt
    import math
    from .. import mirexec
    from ..rules import minieval
    if mir is None:
        return
    rel = "rust/src/helpers.rs"
    sf = mirsym.struct_fields_from_source((core.REPO / rel).read_text())
    cache: dict[str, tuple] = {}
    consts = {}
    for k in ("DAY_OF_WEEK_TABLE", "DAYS_PER_N_YEAR", "DAYS_PER_L_YEAR", "DAYS_PER_MONTHS", "MONTHS_OFFSETS"):
        try:
            consts[k] = core.const("constants", k)          # TABLES.py-rs establishes that the Rust tables are these
        except Exception:       # noqa: BLE001
            pass

    class _TruncDiv(ast.NodeTransformer):
        """Rust integer `/` and `%` truncate toward zero: rewritten as calls the evaluator answers that way"""

        def visit_BinOp(self, n):
            self.generic_visit(n)
            if isinstance(n.op, (ast.Div, ast.FloorDiv)):
                return ast.Call(ast.Name("__tdiv", ast.Load()), [n.left, n.right], [])
            if isinstance(n.op, ast.Mod):
                return ast.Call(ast.Name("__trem", ast.Load()), [n.left, n.right], [])
            return n

    def summaries(nm):
        if nm not in cache:
            f = mir.fn(nm)
            out = []
            for p_ in mirsym.Sym(f, sf).run(0, mirsym.NEVER):
                conds = []
                for v, k in p_.conds:
                    cb = mirsym.cond_bool(v, k)
                    if cb is None:
                        raise core.Unsupported(f"{nm}: non-boolean branch")
                    conds.append((_TruncDiv().visit(core.clone(cb[0])), cb[1]))
                r = p_.state.get("_0")
                if not isinstance(r, ast.AST):
                    raise core.Unsupported(f"{nm}: no return value on a path")
                out.append((conds, _TruncDiv().visit(core.clone(r))))
            nparams = len(re.findall(r"_\d+: ", f.sig.split("->")[0])) if hasattr(f, "sig") else 0
            names = [f.names().get(f"_{i + 1}", f"_{i + 1}") for i in range(nparams)]
            cache[nm] = (names, out)
        return cache[nm]

    def rs(nm, *args):
        names, paths = summaries(nm)
        env = dict(zip(names, args))
        live = [r for conds, r in paths if all(bool(minieval.ev(c, env, G)) == pol for c, pol in conds)]
        if len(live) != 1:
            raise core.Unsupported(f"{nm}{args}: {len(live)} paths apply")
        return minieval.ev(live[0], env, G)
    tdiv = lambda a, b: int(a / b) if abs(a) < 2**52 else (abs(a) // abs(b)) * (1 if (a >= 0) == (b >= 0) else -1)      # noqa: E731
    G = {"$globals": {**consts, "__tdiv": tdiv, "__trem": lambda a, b: int(math.fmod(a, b)), "unsigned_abs": abs, "abs": abs,
                      "p": lambda y: rs("p", y), "is_leap": lambda y: rs("helpers::is_leap", y), "is_long_year": lambda y: rs("helpers::is_long_year", y),
                      "days_in_year": lambda y: rs("helpers::days_in_year", y), "from": lambda x: x, "usize": int, "i32": int, "u32": int}}
    deep = ctx.tier == "thorough"
    years = list(range(1, 10000)) if deep else list(range(1, 402)) + list(range(1583, 2402)) + [2800, 9999]      # the Gregorian calendar repeats every 400 years
    wd_cases = [(y, mo, d) for y in list(range(1, 2801, 7 if deep else 23)) + [9999] for mo in range(1, 13) for d in (1, 28, calendar.monthrange(y, mo)[1])]
    for y in (range(1900, 2101) if deep else (1999, 2000, 2001, 2024)):
        wd_cases += [(y, mo, d) for mo in range(1, 13) for d in range(1, calendar.monthrange(y, mo)[1] + 1)]
    for y in (100, 200, 300, 400, 500, 1700, 1800, 1900, 2000, 2100, 2200, 2300, 2400, 9900):      # century years: where the /100 and /400 terms of the day count switch
        wd_cases += [(y, 1, 1), (y, 1, 31), (y, 2, 1), (y, 2, calendar.monthrange(y, 2)[1]), (y, 3, 1), (y, 12, 31), (y - 1, 12, 31), (y + 1, 1, 1)]
    for nm, cases, want in (("helpers::is_leap", [(y,) for y in years], lambda y: calendar.isleap(y)),
                            ("helpers::days_in_year", [(y,) for y in years], lambda y: 366 if calendar.isleap(y) else 365),
                            ("helpers::is_long_year", [(y,) for y in years], lambda y: _dt.date(y, 12, 28).isocalendar()[1] == 53),
                            ("helpers::week_day", wd_cases, lambda y, mo, d: _dt.date(y, mo, d).isoweekday())):
        short = nm.split("::")[-1]
        bad, n = [], 0
        try:
            fn_mir = mir.fn(nm)
            use_exec = False
            for args in cases:
                n += 1
                if not use_exec:
                    try:
                        got = rs(nm, *args)          # the symbolic path summaries of the function (fast) ...
                    except (core.Unsupported, KeyError):
                        use_exec = True              # ... or, outside them (closures, iterator adaptors), its MIR evaluated block by block
                if use_exec:
                    got = mirexec.Machine(mir, sf).run(fn_mir, list(args))
                w = want(*args)
                if got != w:
                    bad.append(f"{short}{args} = {got!r} (expected {w!r})")
        except (core.Unsupported, core.AnchorMissing, KeyError, TypeError, AttributeError, IndexError, ValueError, ZeroDivisionError, RecursionError) as e:
            ctx.unverified("RSPRIM.tabulated", f"rs:{short}", f"outside the evaluator: {type(e).__name__}: {e}", rel)
            continue
        ctx.ob("RSPRIM.tabulated", f"rs:{short}", not bad, f"{n} inputs evaluated on the MIR path summaries: " + (f"wrong: {bad[:3]}" if bad else "equal to the standard library on every input"), rel)
        if not bad:
            ctx.established(("SIBLING", "FORMULA"), f"py-vs-rs:{short}", "RSPRIM.tabulated + PRIM.tabulated")
            ctx.established(("SIBLING", "FORMULA"), f"rs:{short}", "RSPRIM.tabulated")
    # local_time has loops: its MIR is evaluated block by block (pvs/mirexec.py) on the timestamps of PRIM.tabulated
    cases, want = _local_time_cases(deep)
    if not deep:
        cases = cases[:-60:4] + cases[-60:]          # quick tier: a quarter of the year-boundary cases, all the special ones
    bad, n = [], 0
    try:
        f = mir.fn("helpers::local_time")
        for t, off, us in cases:
            n += 1
            try:
                got = mirexec.Machine(mir, sf).run(f, [float(t), off, us])
            except mirexec.Panic as e:
                bad.append(f"local_time({t}, {off}, {us}) panics ({e})")
                continue
            if tuple(got) != tuple(want(t, off, us)):
                bad.append(f"local_time({t}, {off}, {us}) = {tuple(got)} (expected {tuple(want(t, off, us))})")
    except (core.Unsupported, core.AnchorMissing, KeyError, TypeError, AttributeError, IndexError, ValueError, ZeroDivisionError, RecursionError) as e:
        ctx.unverified("RSPRIM.tabulated", "rs:local_time", f"outside the MIR evaluator: {type(e).__name__}: {str(e)[:160]}", rel)
        return
    try:
        import datetime as _dtm
        fdn = mir.fn("day_number")
        origin = mirexec.Machine(mir, sf).run(fdn, [2000, 3, 1])
        bad_d, n_d = [], 0
        for y, mo, d in _day_number_cases(deep):
            n_d += 1
            got = mirexec.Machine(mir, sf).run(fdn, [y, mo, d]) - origin
            w = (_dtm.date(y, mo, d) - _dtm.date(2000, 3, 1)).days
            if got != w:
                bad_d.append(f"day_number({y}, {mo}, {d}) - day_number(2000, 3, 1) = {got} (expected {w})")
        ctx.ob("RSPRIM.tabulated", "rs:day_number", not bad_d, f"{n_d} dates evaluated on the MIR: " + (f"wrong: {bad_d[:3]}" if bad_d else "differences equal the standard library's day counts"), rel)
        if not bad_d:
            ctx.established(("SIBLING.day_number",), "py-vs-rs:day_number", "RSPRIM.tabulated + PRIM.tabulated")
    except (core.Unsupported, core.AnchorMissing, KeyError, TypeError, AttributeError, IndexError, ValueError, ZeroDivisionError, RecursionError, mirexec.Panic) as e:
        ctx.unverified("RSPRIM.tabulated", "rs:day_number", f"outside the MIR evaluator: {type(e).__name__}: {str(e)[:160]}", rel)
    ctx.ob("RSPRIM.tabulated", "rs:local_time", not bad, f"{n} timestamps evaluated on the MIR of the compiled local_time: " + (f"wrong: {bad[:3]}" if bad else "equal to the standard library's datetime arithmetic on every input"), rel)
    if not bad:
        ctx.established(("SIBLING.local_time", "CUMSEARCH.backward"), "py-vs-rs:local_time", "RSPRIM.tabulated + PRIM.tabulated")
        ctx.established(("SIBLING.local_time", "CUMSEARCH.backward"), "rs:local_time", "RSPRIM.tabulated")


def run(ctx) -> None:
    ctx.explanation = EXPLANATION
    ctx.step(_prim_tabulate, ctx)
    ctx.step(_tables, ctx)
    ctx.step(_rust_consts, ctx)
    mir = None
    try:
        mir = mirfront.load()
    except mirfront.MirUnavailable as e:
        ctx.unverified("RUST", "helpers.rs", f"MIR unavailable, Rust clauses not checked: {e}", "rust/")
    ctx.step(_rs_prim_tabulate, ctx, mir)
    ctx.step(_siblings, ctx, mir)
    ctx.step(_local_time, ctx, mir)
    ctx.step(_getters_tabulate, ctx)
    ctx.step(_getters, ctx)
    from . import C07
    ctx.step(C07._py_backward, ctx)
    if mir is not None:
        C07._rs_backward(ctx, mir)
    ctx.expect_min("TABLES", 25)
    ctx.expect_min("FORMULA", 6)
    ctx.expect_min("DELEGATE", 6)
    ctx.expect_min("TABULATE", 2)
