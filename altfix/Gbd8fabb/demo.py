"""AbsoluteDuration must break its length down exactly, to the microsecond,
whatever its size.  Expected values come from the standard library's
timedelta (integer fields of abs(timedelta)).  (.days itself is the inherited
timedelta attribute and is not what is checked here.)"""
import random
import sys

from datetime import timedelta

from pendulum.duration import AbsoluteDuration

failures = []


def check(**kw):
    native = abs(timedelta(**kw))
    d = AbsoluteDuration(**kw)
    weeks, rdays = divmod(native.days, 7)
    hours, rem = divmod(native.seconds, 3600)
    minutes, secs = divmod(rem, 60)
    want = {
        "weeks": weeks,
        "remaining_days": rdays,
        "hours": hours,
        "minutes": minutes,
        "remaining_seconds": secs,
        "microseconds": native.microseconds,
    }
    got = {k: getattr(d, k) for k in want}
    if got != want:
        failures.append(f"AbsoluteDuration({kw}): got {got}, expected {want}")
    negative = timedelta(**kw) < timedelta(0)
    if d.invert != negative:
        failures.append(f"AbsoluteDuration({kw}).invert = {d.invert}")


# the examples of the report (hand-computed)
d = AbsoluteDuration(days=109500, seconds=7, microseconds=630000)
got = (d.weeks * 7 + d.remaining_days, d.remaining_seconds, d.microseconds)
if got != (109500, 7, 630000):
    failures.append(f"example 1: {got}")
d = AbsoluteDuration(days=10**6, microseconds=-1)
# 10**6 days minus 1 us = 999999 days 23:59:59.999999
got = (d.weeks * 7 + d.remaining_days, d.hours, d.minutes, d.remaining_seconds, d.microseconds)
if got != (999999, 23, 59, 59, 999999):
    failures.append(f"example 2: {got}")

check(days=109500, seconds=7, microseconds=630000)
check(days=10**6, microseconds=-1)
check(days=-(10**6), microseconds=1)
check(days=-109500, seconds=-7, microseconds=-630000)
check(seconds=3, microseconds=500000)
check(days=-1, microseconds=1)
check(hours=25, minutes=61, milliseconds=1500.5)
check(weeks=2.5, days=0.25)
check()

rnd = random.Random(20261004)
for _ in range(3000):
    check(
        days=rnd.randint(-(10**8), 10**8),
        seconds=rnd.randint(-86400 * 3, 86400 * 3),
        microseconds=rnd.randint(-(10**7), 10**7),
    )

for f in failures[:20]:
    print("FAIL", f)
print("failures:", len(failures))
sys.exit(1 if failures else 0)
