"""Time.diff() must take the microseconds into account.  Expected values are
computed with datetime/timedelta of the standard library."""
import itertools
import sys
from datetime import datetime, time, timedelta

import pendulum

failures = []
US = timedelta(microseconds=1)


def want_us(a, b):
    d = datetime(2000, 1, 1)
    return (datetime.combine(d, b) - datetime.combine(d, a)) // US


def total_us(duration):
    # exact at this magnitude (< 1 day): round the float seconds to microseconds
    return round(duration.total_seconds() * 1000000)


# hand-computed example of the report: 900000 - 5 microseconds
d = pendulum.time(1, 0, 0, 5).diff(pendulum.time(1, 0, 0, 900000))
if total_us(d) != 899995 or d.microseconds != 899995 or d.in_seconds() != 0:
    failures.append(("hand", total_us(d), d.microseconds))
d = pendulum.time(1, 0, 0, 900000).diff(pendulum.time(1, 0, 0, 5), False)
if total_us(d) != -899995:
    failures.append(("hand signed", total_us(d)))
d = pendulum.time(12, 0, 0, 500000).diff(time(12, 0, 1, 250000))
if total_us(d) != 750000 or (d.remaining_seconds, d.microseconds) != (0, 750000):
    failures.append(("hand carry", total_us(d), d.remaining_seconds, d.microseconds))

points = [
    time(0, 0, 0, 0), time(0, 0, 0, 1), time(1, 0, 0, 5), time(1, 0, 0, 900000),
    time(11, 59, 59, 999999), time(12, 0, 0, 0), time(12, 0, 0, 500000),
    time(12, 30, 15, 123456), time(23, 59, 59, 999999),
]
for a, b in itertools.product(points, repeat=2):
    pa = pendulum.time(a.hour, a.minute, a.second, a.microsecond)
    w = want_us(a, b)
    for other in (b, pendulum.time(b.hour, b.minute, b.second, b.microsecond)):
        signed = pa.diff(other, False)
        absolute = pa.diff(other)
        if total_us(signed) != w:
            failures.append(("signed", a, b, total_us(signed), w))
        if total_us(absolute) != abs(w):
            failures.append(("abs", a, b, total_us(absolute), abs(w)))
        if absolute.microseconds != abs(w) % 1000000:
            failures.append(("abs.microseconds", a, b, absolute.microseconds))
        if absolute.in_seconds() != abs(w) // 1000000:
            failures.append(("abs.in_seconds", a, b, absolute.in_seconds()))

for f in failures[:20]:
    print("FAIL", f)
print("ok" if not failures else f"{len(failures)} failures")
sys.exit(1 if failures else 0)
