"""C09 — Duration normalisation (decomposition shape)."""
from __future__ import annotations

import ast

from .. import core
from ..core import nun, pmod, un
from ..rules.canon import Canon
from . import C05

EXPLANATION = (
    "Decided statically (shape of the decomposition, not its float behaviour): (1) Duration.__new__ hands "
    "timedelta.__new__ each unit in its own positional slot with days + years*365 + months*30, and removes "
    "exactly (years*365 + months*30)*86400 seconds again for the 'intuitive' total; _signature's microseconds "
    "include milliseconds*1000; (2) (_days, _seconds) are (x // 86400, x % 86400) of the same x = abs(int(total)) "
    "times the same sign m, (_weeks, _remaining_days) are (y // 7, y % 7) of y = abs(_days) times m, m is -1 "
    "exactly for total < 0; (3) hours / minutes / remaining_seconds are the mixed-radix digits "
    "x // 3600 % 24, x // 60 % 60, x % 60 of abs(_seconds) with the sign of _seconds, hence the stated ranges "
    "and exact sum as long as the arithmetic is integer; (4) years and months are stored as given and "
    "non-integers are rejected with ValueError; AbsoluteDuration uses divmod pairs of the absolute total; "
    "(5) total_*/in_* constants and truncation. NOT decided: float effects of `total % m * 1e6`/round, "
    "equality with timedelta for huge totals, rebuild-from-components."
    ' Also: the pendulum.duration() factory forwards every parameter to the constructor parameter of the same name; the guards around the lazily computed hours/minutes digits only skip values below the unit; the component tuples used by copy/pickle rebuild the same Duration.'
    " As built: DIVMOD.tabulated runs the whole Duration.__new__ / AbsoluteDuration.__new__ with the checker's interpreter (rules/durstub.py; the C base class is the standard library's timedelta) on 53 argument tuples and compares the stored state (native value, years/months, weeks..microseconds digits, _total) with the specification; where it succeeds the shape clauses (1), (2), (4) are established by it and only decide for code outside the interpreter."
)


def self_assigns(fn: ast.FunctionDef) -> dict[str, ast.expr]:
    out: dict[str, ast.expr] = {}
    nodes = []
    for x in core.walk_fn(fn):
        if isinstance(x, ast.Assign):
            nodes.append(x)
        elif isinstance(x, ast.AnnAssign) and x.value is not None:      # `self._total: float = total`
            y = ast.Assign(targets=[x.target], value=x.value)
            y.lineno, y.col_offset = x.lineno, x.col_offset
            nodes.append(y)
    for n in sorted(nodes, key=lambda x: (x.lineno, x.col_offset)):
        if len(n.targets) == 1:
            t = n.targets[0]
            if isinstance(t, ast.Attribute) and nun(t.value) == "self":
                out[t.attr] = n.value
            elif isinstance(t, ast.Tuple):
                for i, e in enumerate(t.elts):
                    key = e.attr if isinstance(e, ast.Attribute) and nun(e.value) == "self" else (e.id if isinstance(e, ast.Name) else None)
                    if key:
                        out[key] = ast.Subscript(n.value, ast.Constant(i), ast.Load())
            elif isinstance(t, ast.Name):
                out.setdefault("local:" + t.id, n.value)
                out["local_last:" + t.id] = n.value
    return out


def _consts(m: core.Mod) -> dict[str, int]:
    out = {}
    for name in ("SECONDS_PER_DAY", "SECONDS_PER_HOUR", "SECONDS_PER_MINUTE", "US_PER_SECOND"):
        try:
            out[name] = core.fold_name(name, m)
        except core.NotConst:
            pass
    return out


NEW_ARGS = [
    {}, {"microseconds": 1}, {"microseconds": -1}, {"seconds": 59}, {"seconds": -59}, {"seconds": 60}, {"hours": 1}, {"hours": -1},
    {"seconds": 86399}, {"days": 1}, {"days": -1}, {"seconds": 86401}, {"seconds": -86401}, {"days": 1, "hours": 1, "minutes": 1, "seconds": 1},
    {"days": -1, "hours": -1, "minutes": -1, "seconds": -1}, {"weeks": 1}, {"weeks": -1}, {"days": 8, "seconds": 3661}, {"days": -8, "seconds": -3661},
    {"seconds": 12345678}, {"seconds": -12345678}, {"milliseconds": 500}, {"milliseconds": -500}, {"seconds": 1, "microseconds": 250000},
    {"seconds": -1, "microseconds": -250000}, {"days": 1, "microseconds": 1}, {"days": -1, "microseconds": -1},
    {"days": 1, "hours": 1, "minutes": 1, "seconds": 1, "microseconds": 123456}, {"days": -1, "hours": -1, "minutes": -1, "seconds": -1, "microseconds": -123456},
    {"seconds": 59, "microseconds": 999999}, {"seconds": -59, "microseconds": -999999}, {"days": 109500, "seconds": 7, "microseconds": 630000},
    # sign-cancelling and mixed-sign components
    {"days": 1, "hours": -25}, {"days": -1, "hours": 25}, {"days": 1, "microseconds": -1}, {"days": -1, "microseconds": 1}, {"weeks": 1, "days": -7},
    {"weeks": 2, "days": -15, "hours": 23, "minutes": 59, "seconds": 59, "microseconds": 999999}, {"seconds": 1, "milliseconds": -1000},
    {"hours": 1, "minutes": -61, "seconds": 30}, {"days": 10**6, "microseconds": -1}, {"days": -10**6, "microseconds": 1},
    {"days": 999999, "seconds": 86399, "microseconds": 999999}, {"milliseconds": 1, "microseconds": -1001},
    # years and months ride along untouched
    {"years": 2}, {"months": 5}, {"years": -3, "months": 14}, {"years": 1, "days": -365}, {"months": 1, "days": -31, "seconds": 5},
    {"years": 2, "months": -3, "weeks": 1, "days": 1, "hours": 1, "minutes": 1, "seconds": 1, "milliseconds": 1, "microseconds": 1},
    {"years": -2, "months": 3, "weeks": -1, "days": -1, "hours": -1, "minutes": -1, "seconds": -1, "milliseconds": -1, "microseconds": -1},
    {"years": 1, "seconds": -1}, {"months": -1, "microseconds": 1},
]


def _new_tabulate(ctx, m, fn, cls: str, absolute: bool) -> bool | None:
    """the normalisation of Duration.__new__ / AbsoluteDuration.__new__, decided on values: the whole constructor is evaluated
    with the checker's interpreter (rules/minieval.py, rules/durstub.py: the C base class is the standard library's own
    timedelta) for a table of argument tuples (both signs, unit boundaries, sub-second parts, sign-cancelling components,
    years and months).  The native value must be timedelta(the same arguments, a year = 365 days, a month = 30 days), years
    and months kept as given, and the stored breakdown the mixed-radix digits of |the rest| with the sign of the rest (no
    sign for the absolute class), `_total` the rest in seconds."""
    import datetime as _dt
    from ..rules import durstub
    bad, n = [], 0
    sig_bad, sig_seen = [], []
    try:
        w = durstub.World(m, cls)
        args_table = list(NEW_ARGS)
        if ctx.tier == "thorough":
            # a deterministic pseudo-random walk over mixed-sign component tuples (linear congruential generator), |component| up to 10^6
            x = 20261004
            names = ["days", "seconds", "microseconds", "milliseconds", "minutes", "hours", "weeks", "years", "months"]
            for _ in range(1500):
                kw_ = {}
                for nm in names:
                    x = (x * 6364136223846793005 + 1442695040888963407) % 2**64
                    r = (x >> 33) % 7
                    if r < 3:
                        continue
                    x = (x * 6364136223846793005 + 1442695040888963407) % 2**64
                    mag = [1, 7, 59, 60, 61, 3600, 86399, 86400, 10**6, 999999][(x >> 40) % 10] if nm not in ("years", "months") else [1, 2, 11, 12, 13, 400][(x >> 40) % 6]
                    kw_[nm] = mag if (x >> 20) % 2 else -mag
                args_table.append(kw_)
        for kw in args_table:
            y, mo = kw.get("years", 0), kw.get("months", 0)
            o = w.call("__new__", [w.duration_cls], dict(kw))
            if not isinstance(o, durstub.Obj):
                raise core.Unsupported("__new__ does not return the instance")
            f = vars(o)
            rest_td = _dt.timedelta(**{k: v for k, v in kw.items() if k not in ("years", "months")})
            rest = (rest_td.days * 86400 + rest_td.seconds) * 10**6 + rest_td.microseconds
            n += 1
            sgn = 1 if (absolute or rest >= 0) else -1
            a_ = abs(rest) // 10**6
            want = {"_days": a_ // 86400 * sgn, "_seconds": a_ % 86400 * sgn, "_weeks": a_ // 86400 // 7 * sgn, "_remaining_days": a_ // 86400 % 7 * sgn,
                    "_microseconds": abs(rest) % 10**6 * sgn, "_years": abs(y) if absolute else y, "_months": abs(mo) if absolute else mo,
                    "_total": rest / 10**6}
            if absolute:
                want["_days"] = abs(a_ // 86400 + y * 365 + mo * 30)    # the absolute class keeps years and months in _days
                want["_native"] = rest_td
            else:
                want["_native"] = _dt.timedelta(days=y * 365 + mo * 30) + rest_td
            if not absolute:
                # the arguments as given (read back by `DateTime + Duration`): every add() unit under its own name, milliseconds folded into the microseconds
                sig_want = {u: kw.get(u, 0) for u in ("years", "months", "weeks", "days", "hours", "minutes", "seconds")}
                sig_want["microseconds"] = kw.get("microseconds", 0) + kw.get("milliseconds", 0) * 1000
                sig = f.get("_signature")
                if not isinstance(sig, dict):
                    sig_seen.append(None)
                else:
                    sig_seen.append(True)
                    if sig != sig_want:
                        sig_bad.append(f"{cls}({', '.join(f'{a}={v}' for a, v in kw.items())}): _signature={sig} (the arguments given: {sig_want})")
            for k, w_ in want.items():
                g = f.get(k)
                if g != w_ or (k != "_total" and k != "_native" and type(g) is not int):
                    bad.append(f"{cls}({', '.join(f'{a}={v}' for a, v in kw.items())}): {k.replace('_native', 'timedelta value')}={g!r} (expected {w_!r})")
    except durstub.ERRORS as e:
        ctx.unverified("DIVMOD.tabulated", f"{cls}.__new__", f"outside the checker's interpreter: {type(e).__name__}: {e}", m.loc(fn))
        return None
    ctx.ob("DIVMOD.tabulated", f"{cls}.__new__", not bad,
           f"{n} argument tuples evaluated through the whole constructor: " + (f"wrong state: {bad[:3]}" if bad else
           "the native value is timedelta(args) with 365-day years and 30-day months; years/months kept; weeks/remaining_days/_days/_seconds/"
           "_microseconds are the digits of the rest with its sign, _total the rest in seconds"), m.loc(fn))
    if not absolute and sig_seen and all(sig_seen):
        ctx.ob("SIGNATURE.tabulated", f"{cls}.__new__", not sig_bad, f"{len(sig_seen)} argument tuples: " + (f"wrong: {sig_bad[:3]}" if sig_bad else
               "_signature records every add() unit as given, the milliseconds folded into the microseconds"), m.loc(fn))
        if not sig_bad:
            ctx.established(("SIGNATURE",), "Duration.", "SIGNATURE.tabulated")
    return not bad


def exact_breakdown(ctx) -> None:
    """the stored breakdown must be computed in integers: a float number of seconds carries 53 bits, i.e. it is exact to
    the microsecond only up to 2**53 us = 285 years - beyond that `total_seconds()`-based digits are off by microseconds"""
    m = pmod("duration")
    fn = m.func("Duration.__new__")
    a = self_assigns(fn)
    cone = [(k, v) for k, v in a.items() if k in ("_microseconds", "_seconds", "_days", "_weeks", "_remaining_days", "local:total", "local:_days")]
    bad = []
    for k, v in cone:
        for n in ast.walk(v):
            if isinstance(n, ast.Call) and isinstance(n.func, ast.Attribute) and n.func.attr == "total_seconds":
                bad.append(f"{k}: {nun(n)}")
            elif isinstance(n, ast.BinOp) and isinstance(n.op, ast.Div):
                bad.append(f"{k}: true division `{nun(n)[:40]}`")
            elif isinstance(n, ast.Constant) and isinstance(n.value, float):
                bad.append(f"{k}: float constant {n.value}")
    if not cone:
        ctx.unverified("EXACT.breakdown", "Duration.__new__", "breakdown assignments not found", m.loc(fn))
    else:
        ctx.ob("EXACT.breakdown", "Duration.__new__", not bad,
               f"float arithmetic in the breakdown: {bad[:4]}; weeks/days/seconds/microseconds must come from the integer slots of the "
               f"underlying timedelta" if bad else f"{len(cone)} breakdown expressions are integer arithmetic on the native slots", m.loc(fn))


def _duration_new(ctx) -> None:
    m = pmod("duration")
    fn = m.func("Duration.__new__")
    can = Canon(consts=_consts(m))
    tab = _new_tabulate(ctx, m, fn, "Duration", False)
    exact_breakdown(ctx)

    def E(src):
        return can.s(ast.parse(src, mode="eval").body)
    td = [c for c in core.calls(fn) if nun(c.func) == "timedelta.__new__"]
    if len(td) != 1 and not tab:
        ctx.unverified("UNITS.new", "Duration.__new__", "timedelta.__new__ call not found", m.loc(fn))
        return
    args = td[0].args if len(td) == 1 else []
    names = ["days", "seconds", "microseconds", "milliseconds", "minutes", "hours", "weeks"]
    ctx.ob("UNITS.new", "Duration.__new__/timedelta-slots", bool(tab) or (len(args) == 8 and [nun(a) for a in args[2:]] == names[1:] and nun(args[0]) == "cls"),
           f"timedelta.__new__({[nun(a) for a in args]}); timedelta's positional order is {names}", m.loc(td[0]))
    if len(args) >= 2 or tab:
        ctx.ob("UNITS.new", "Duration.__new__/days", bool(tab) or can.s(args[1]) == E("days + years * 365 + months * 30"),
               f"days argument is `{nun(args[1])}`; a year counts 365 days and a month 30", m.loc(td[0]))
    a = self_assigns(fn)
    # the sign variable: a local set to 1 and to -1 under `total < 0` (whatever it is called)
    for n_ in core.walk_fn(fn):
        if isinstance(n_, ast.If) and nun(n_.test) in ("total < 0", "0 > total") and len(n_.body) == 1 and isinstance(n_.body[0], ast.Assign) \
                and core.is_const(n_.body[0].value, -1) and isinstance(n_.body[0].targets[0], ast.Name):
            sv = n_.body[0].targets[0].id
            if sv != "m":
                can = Canon({sv: "m"}, consts=_consts(m))
                a = {("local:m" if k == f"local:{sv}" else "local_last:m" if k == f"local_last:{sv}" else k): v for k, v in a.items()}
                fix_us = sv
            break
    else:
        sv = "m"
    tot = a.get("local:total")
    tot_forms = (E("self.total_seconds() - (years * 365 + months * 30) * 86400"),
                 E("((timedelta.days.__get__(self) - (years * 365 + months * 30)) * 86400 + timedelta.seconds.__get__(self)) * 1000000 "
                   "+ timedelta.microseconds.__get__(self)"))
    ctx.ob("UNITS.new", "Duration.__new__/total", bool(tab) or (tot is not None and can.s(tot) in tot_forms),
           f"total = `{nun(tot)}`; the years/months part added above must be removed again (seconds, or exact microseconds from the native slots)", m.loc(fn))
    ctx.ob("UNITS.new", "Duration.__new__/_total", bool(tab) or ("_total" in a and can.s(a["_total"]) in (E("total"), E("total / 1000000"))),
           "self._total is the length without years/months in seconds", m.loc(fn))
    # sign
    ifs = [n for n in core.walk_fn(fn) if isinstance(n, ast.If) and nun(n.test) in ("total < 0", "0 > total")]
    ok = len(ifs) == 1 and [nun(s) for s in ifs[0].body] == [f"{sv} = -1"] and nun(a.get("local:m")) == "1" and not ifs[0].orelse
    ctx.ob("DIVMOD.sign", "Duration.__new__/m", ok or bool(tab), "m must be 1, and -1 exactly when total < 0" + (" (established by tabulation)" if tab and not ok else ""), m.loc(fn))
    want = {
        "_seconds": "abs(int(total)) % 86400 * m",
        "_days": "_days",
        "_remaining_days": "abs(_days) % 7 * m",
        "_weeks": "abs(_days) // 7 * m",
        "_months": "months",
        "_years": "years",
    }
    for k, src in want.items():
        got = a.get(k)
        ctx.ob("DIVMOD.pair", f"Duration.__new__/{k}", (got is not None and can.s(got) == E(src)) or bool(tab),
               f"self.{k} = `{nun(got)}`; must be `{src}`", m.loc(fn))
    d = a.get("local:_days")
    ctx.ob("DIVMOD.pair", "Duration.__new__/_days-local", (d is not None and can.s(d) == E("abs(int(total)) // 86400 * m")) or bool(tab),
           f"_days = `{nun(d)}`; must be the quotient of the same abs(int(total)) by 86400 with the same sign m", m.loc(fn))
    us = a.get("_microseconds")
    ctx.ob("DIVMOD.pair", "Duration.__new__/_microseconds", (us is not None and nun(us) in (f"round(total % {sv} * 1000000.0)", f"round(total % {sv} * 1000000)")) or bool(tab),
           f"self._microseconds = `{nun(us)}`; must be the sub-second remainder (total % m) in microseconds", m.loc(fn))
    # guards
    g = [n for n in core.body_no_doc(fn) if isinstance(n, ast.If) and isinstance(n.body[0], ast.Raise)]
    ok = len(g) >= 1 and nun(g[0].test) == "not isinstance(years, int) or not isinstance(months, int)" and "ValueError" in un(g[0].body[0])
    # the property quantifies over integer arguments: what the constructor does with a float number of years is outside it (that integers
    # are accepted is decided on values by DIVMOD.tabulated) - the guard is recorded, its absence or another spelling is no violation
    if ok:
        ctx.ob("GUARD.int", "Duration.__new__/years-months", True, "non-integer years/months raise ValueError", m.loc(fn), nontrivial=False)
    else:
        ctx.unverified("GUARD.int", "Duration.__new__/years-months", "the guard against non-integer years / months is not in the form this rule reads (outside the property: integer arguments)", m.loc(fn))
    sig = a.get("_signature")
    if isinstance(sig, ast.Dict):
        d2 = {nun(k): can.s(v) for k, v in zip(sig.keys, sig.values)}
        ctx.ob("UNITS.signature", "Duration._signature/microseconds", d2.get("'microseconds'") == E("microseconds + milliseconds * 1000"),
               f"{d2.get(chr(39) + 'microseconds' + chr(39))}", m.loc(sig))


def _abs_new(ctx) -> None:
    m = pmod("duration")
    fn = m.func("AbsoluteDuration.__new__")
    # the state handed to the class by pickle / copy (`self.__class__, (positional values in Duration's order)`) and every positional call
    # made through `self.__class__(...)` bind by position: a subclass constructor must list the components in the order of Duration's
    base_p, sub_p = core.params(m.func("Duration.__new__")), core.params(fn)
    ctx.ob("SIGNATURE.subclass", "AbsoluteDuration.__new__", sub_p == base_p,
           f"AbsoluteDuration.__new__{tuple(sub_p)} vs Duration.__new__{tuple(base_p)}: the same components in the same order (a swapped pair is rebuilt swapped by copy / pickle)", m.loc(fn))
    can = Canon(consts=_consts(m))
    tab = _new_tabulate(ctx, m, fn, "AbsoluteDuration", True)

    def E(src):
        return can.s(ast.parse(src, mode="eval").body)
    names = ["days", "seconds", "microseconds", "milliseconds", "minutes", "hours", "weeks"]
    td = [c for c in core.calls(fn) if nun(c.func) == "timedelta.__new__"]
    ok = bool(tab) or (len(td) == 1 and [nun(x) for x in td[0].args] == ["cls"] + names)
    ctx.ob("UNITS.new", "AbsoluteDuration.__new__/timedelta-slots", ok, f"{[nun(x) for x in td[0].args] if td else None}", m.loc(fn))
    td2 = [c for c in core.calls(fn) if nun(c.func) == "timedelta"]
    ok = bool(tab) or (len(td2) == 1 and [nun(x) for x in td2[0].args] == names)
    ctx.ob("UNITS.new", "AbsoluteDuration.__new__/delta-slots", ok, f"{[nun(x) for x in td2[0].args] if td2 else None}", m.loc(fn))
    a = self_assigns(fn)
    want = {"_total": "delta.total_seconds()", "_microseconds": None, "_seconds": "divmod(int(total), 86400)[1]",
            "_weeks": "divmod(days, 7)[0]", "_remaining_days": "divmod(days, 7)[1]", "_months": "abs(months)", "_years": "abs(years)",
            "_days": "abs(days + years * 365 + months * 30)"}
    for k, src in want.items():
        if src is None:
            continue
        got = a.get(k)
        ctx.ob("DIVMOD.pair", f"AbsoluteDuration.__new__/{k}", (got is not None and can.s(got) == E(src)) or bool(tab),
               f"self.{k} = `{nun(got)}`; must be `{src}`", m.loc(fn))
    ctx.ob("DIVMOD.pair", "AbsoluteDuration.__new__/days-local", ("days" in a and can.s(a["days"]) == E("divmod(int(total), 86400)[0]")) or bool(tab),
           f"days = `{nun(a.get('days'))}`", m.loc(fn))
    ctx.ob("DIVMOD.pair", "AbsoluteDuration.__new__/total", bool(tab) or nun(a.get("local:total")) == "abs(self._total)", f"total = `{nun(a.get('local:total'))}`", m.loc(fn))
    us = a.get("_microseconds")
    ctx.ob("DIVMOD.pair", "AbsoluteDuration.__new__/_microseconds", (us is not None and nun(us) in ("round(total % 1 * 1000000.0)",)) or bool(tab),
           f"`{nun(us)}`", m.loc(fn))
    r = core.returns(m.func("AbsoluteDuration.total_seconds"))
    ctx.ob("ABS.total", "AbsoluteDuration.total_seconds", len(r) == 1 and nun(r[0].value) == "abs(self._total)", f"{[nun(x.value) for x in r]}", m.rel)


def _digits_tabulate(ctx, m) -> None:
    """RADIX.tabulated: the lazily computed hours / minutes / remaining_seconds (and weeks / remaining_days / microseconds accessors)
    evaluated by the checker's interpreter on Duration instance stubs for seconds parts on both sides of every unit boundary and
    both signs, twice in a row (the cache): each must be the mixed-radix digit of |seconds part| with its sign, and together with
    the days they must sum exactly to the stub's length."""
    from ..rules import durstub
    bad, n = [], 0
    try:
        w = durstub.World(m)
        for secs in (0, 1, 59, 60, 61, 3599, 3600, 3601, 7325, 86399, 43200):
            for sg in (1, -1):
                for days in (0, 3, 16):
                    if sg < 0 and secs == 0 and days == 0:
                        continue
                    us = sg * ((days * 86400 + secs) * 10**6 + 250000)
                    o = w.normalised(1, -2, us)
                    a = abs(us) // 10**6 % 86400
                    want = {"hours": a // 3600 % 24 * sg, "minutes": a // 60 % 60 * sg, "remaining_seconds": a % 60 * sg, "microseconds": 250000 * sg,
                            "weeks": days // 7 * sg, "remaining_days": days % 7 * sg, "years": 1, "months": -2}
                    for rnd in (1, 2):
                        for prop, wv in want.items():
                            if prop not in w.meths:
                                continue
                            n += 1
                            got = durstub.minieval._attr(o, prop, w.glob, 0)
                            if got != wv or type(got) is not int:
                                bad.append(f"a duration of {us} us: {prop} = {got!r} (expected {wv})" + (" on the second read" if rnd == 2 else ""))
    except durstub.ERRORS as e:
        ctx.unverified("RADIX.tabulated", "Duration", f"outside the checker's interpreter: {type(e).__name__}: {e}", m.rel)
        return
    ctx.ob("RADIX.tabulated", "Duration.hours/minutes/remaining_seconds", not bad, f"{n} reads: " + (f"wrong: {bad[:3]}" if bad else
           "every component is the digit of the seconds part with its sign, also when read again"), m.rel)
    if not bad:
        ctx.established(("RADIX.digit", "RADIX.guard", "RADIX.source"), "Duration.", "RADIX.tabulated")


def _digits(ctx) -> None:
    m = pmod("duration")
    _digits_tabulate(ctx, m)
    can = Canon()

    def E(src):
        return can.s(ast.parse(src, mode="eval").body)
    sg = m.func("Duration._sign")
    src = [nun(s) for s in core.body_no_doc(sg)]
    ctx.ob("RADIX.sign", "Duration._sign", src == ["if value < 0:\n    return -1", "return 1"], f"{src}; must be -1 for negative values, else 1", m.loc(sg))
    spec = {"hours": ("_h", "abs(S) // 3600 % 24 * self._sign(S)"), "minutes": ("_i", "abs(S) // 60 % 60 * self._sign(S)"),
            "remaining_seconds": ("_s", "abs(S) % 60 * self._sign(S)")}
    for prop, (cache, want) in spec.items():
        fn = m.func(f"Duration.{prop}")
        # last assignment to the cache attribute, with local `seconds` / self._s resolved to self._seconds
        vals = [n for n in core.walk_fn(fn) if isinstance(n, ast.Assign) and nun(n.targets[0]) == f"self.{cache}"]
        vals.sort(key=lambda n: n.lineno)
        if not vals:
            ctx.unverified("RADIX.digit", f"Duration.{prop}", "cache assignment not found", m.loc(fn))
            continue
        e = vals[-1].value
        env = {"seconds": "self._seconds", f"self.{cache}": "self._seconds"}
        s = can.s(e)
        import re
        for k, v in env.items():
            s = re.sub(rf"(?<![\w.]){re.escape(k)}(?!\w)", v, s)
        s = re.sub(r"self\._seconds(?!\w)", "S", s)
        ctx.ob("RADIX.digit", f"Duration.{prop}", s == E(want),
               f"{prop} = `{nun(e)}` (canonical `{s}`); must be the mixed-radix digit `{want}` of S = self._seconds", m.loc(fn))
        # the digit is 0 below its unit; a guard around the assignment may only skip values for which it is 0 anyway
        unit = {"hours": 3600, "minutes": 60}.get(prop)
        g = vals[-1]._parent
        if unit and isinstance(g, ast.If) and vals[-1] in g.body and "is None" not in nun(g.test):
            t = g.test
            thr = None
            if isinstance(t, ast.Compare) and len(t.ops) == 1 and nun(t.left) in ("abs(seconds)", "abs(self._seconds)"):
                try:
                    c = core.fold(t.comparators[0], m)
                    thr = c if isinstance(t.ops[0], ast.GtE) else c + 1 if isinstance(t.ops[0], ast.Gt) else None
                except Exception:
                    thr = None
            if thr is None:
                ctx.unverified("RADIX.guard", f"Duration.{prop}", f"guard `{nun(t)}`", m.loc(g))
            else:
                ctx.ob("RADIX.guard", f"Duration.{prop}", thr <= unit,
                       f"the digit is only computed when `{nun(t)}` (i.e. from {thr} s on); it is non-zero from {unit} s on, so exactly "
                       f"{unit} s would report 0 {prop}", m.loc(g))
        first = [nun(v.value) for v in vals[:-1]] + [nun(x) for x in core.assigns_to(fn, "seconds")]
        ok_src = all(x in ("0", "self._seconds") for x in first)
        ctx.ob("RADIX.source", f"Duration.{prop}", ok_src, f"digit computed from {first}; the only source may be self._seconds", m.loc(fn))
        r = core.returns(fn)
        ctx.ob("RADIX.source", f"Duration.{prop}/return", len(r) == 1 and nun(r[0].value) == f"self.{cache}", f"{[nun(x.value) for x in r]}", m.loc(fn), nontrivial=False)
    for prop, attr in (("years", "_years"), ("months", "_months"), ("weeks", "_weeks"), ("remaining_days", "_remaining_days"),
                       ("seconds", "_seconds"), ("microseconds", "_microseconds")):
        r = core.returns(m.func(f"Duration.{prop}"))
        ctx.ob("ACCESSOR", f"Duration.{prop}", len(r) == 1 and nun(r[0].value) == f"self.{attr}", f"{[nun(x.value) for x in r]}", m.rel)


def _factory(ctx) -> None:
    """pendulum.duration(...) is the documented way to build a Duration: every parameter must reach the constructor
    parameter of the same name, with the same default"""
    im, dm = pmod("__init__"), pmod("duration")
    fn = im.func("duration")
    ctor = dm.func("Duration.__new__")
    r = core.returns(fn)
    if len(r) != 1 or not isinstance(r[0].value, ast.Call) or nun(r[0].value.func) != "Duration":
        ctx.unverified("FACTORY.forward", "pendulum.duration", f"returns {[nun(x.value)[:60] for x in r]}", im.loc(fn))
        return
    cps = core.params(ctor)
    try:
        bound = core.bind(r[0].value, cps)
    except core.Unsupported as e:
        ctx.unverified("FACTORY.forward", "pendulum.duration", str(e), im.loc(fn))
        return
    fd, cd = core.defaults(fn), core.defaults(ctor)
    for p in core.params(fn):
        got = bound.get(p)
        ctx.ob("FACTORY.forward", f"pendulum.duration/{p}", got is not None and nun(got) == p,
               f"constructor parameter {p} receives `{nun(got) if got is not None else None}`; the factory's `{p}` argument must be "
               f"passed on (a dropped keyword silently builds a shorter duration)", im.loc(r[0]))
        ctx.ob("FACTORY.defaults", f"pendulum.duration/{p}", nun(fd.get(p)) == nun(cd.get(p)),
               f"default {nun(fd.get(p))} vs Duration's {nun(cd.get(p))}", im.loc(fn), nontrivial=False)
    extra = set(cps) - set(core.params(fn))
    ctx.ob("FACTORY.forward", "pendulum.duration/signature", not extra, f"constructor parameters not offered by the factory: {sorted(extra)}", im.loc(fn), nontrivial=False)


def run(ctx) -> None:
    ctx.explanation = EXPLANATION
    ctx.step(_duration_new, ctx)
    ctx.step(_abs_new, ctx)
    ctx.step(_digits, ctx)
    ctx.step(_factory, ctx)
    ctx.expect_min("FACTORY.forward", 9)
    ctx.step(C05._totals, ctx)
    from . import C14
    ctx.step(C14._duration, ctx)          # 'rebuilding a Duration from its own components reproduces it': the component tuples of copy/pickle
    ctx.expect_min("DIVMOD", 15)
    ctx.expect_min("RADIX", 7)
    ctx.expect_min("UNITS", 8)
