#!/bin/sh
# Offline set-up: warm the cargo target directory used for MIR emission.
# Failure here is not fatal: each Rust-using check rebuilds the MIR itself.
cd "$(dirname "$0")"
mkdir -p .cache evidence replays
/venv/bin/python -m pvs.mirfront --build || echo "setup: MIR warm-up failed (checks will retry)"
exit 0
