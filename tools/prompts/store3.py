#!/venv/bin/python
"""stores the confirmed round-3 seeds as /verif/seeded/Cxx-7..9 (needs results3/<id>.json = confirmation, results3q/<id>.json = checks)"""
import json, os, shutil, sys
first = json.load(open('/tmp/wt/results3_first.json')) if os.path.exists('/tmp/wt/results3_first.json') else {}
n = 0
for p in [f"C{i:02d}" for i in range(1, 21)]:
    for k in (1, 2, 3):
        d = f"/tmp/wt/{p}/out/{k}"
        sid = f"{p}-{k}"
        try:
            conf = json.load(open(f"/tmp/wt/results3/{sid}.json"))
            chk = json.load(open(f"/tmp/wt/results3q/{sid}.json"))
        except Exception as e:
            print(sid, "not ready:", e); continue
        if sid == "C20-1":
            pass
        ok = conf.get("demo_passes_without") and conf.get("demo_fails_with") and conf.get("suite_passes_with")
        if not ok and "error" not in conf:
            print(sid, "NOT CONFIRMED", {k_: conf.get(k_) for k_ in ("demo_passes_without", "demo_fails_with", "suite_passes_with")}); continue
        if "error" in conf:
            print(sid, "confirm error:", conf["error"][:100])
        am = json.load(open(f"{d}/meta.json"))
        dst = f"/verif/seeded/{p}-{k + 6}"
        os.makedirs(dst, exist_ok=True)
        shutil.copy(f"{d}/patch.diff", f"{dst}/patch.diff")
        shutil.copy(f"{d}/demo.py", f"{dst}/demo.py")
        fired = chk.get("checks_fired", {})
        caught = "; ".join(f"{q}: " + "; ".join(v["rules"][:2]) for q, v in fired.items() if q != "_unverified" and v.get("rc") == 1)
        meta = {"property": p, "round": 3, "clause": am.get("clause"), "needs": am.get("needs"), "files": am.get("files"), "env": am.get("env") or {},
                "author": "independent sub-agent given only the property text, the list of earlier ideas to avoid, and a private worktree (nothing from /verif)",
                "confirmed_here": {"suite_still_at_baseline_with_change": bool(conf.get("suite_passes_with")), "demo_fails_with_change": bool(conf.get("demo_fails_with")),
                                   "demo_passes_without_change": bool(conf.get("demo_passes_without")),
                                   "how": "tools/eval_seed.py: scratch worktree /tmp/wt/verify at bd8fabb (git apply patch.diff; Rust changes: extension rebuilt), /tmp/wt/suite_check.py (pinned suite vs BASELINE stable_pass), demo.py run with PYTHONPATH=<worktree>/src and the seed's env before and after"},
                "first_evaluation": first.get(sid, ""),
                "checks_run": "all 20 `./check Cxx --tier quick --repo <scratch copy of /repo sources + patch>`",
                "caught_by": caught, "caught_by_own_property": bool(chk.get("caught_by_own_property"))}
        if sid == "C20-1":
            meta["rebased"] = "the agent's patch changed int(total) to round(total) in the float breakdown of AbsoluteDuration.__new__; after fix bd8fabb (integer breakdown) the same change is `(total + US_PER_SECOND // 2) // US_PER_SECOND`; confirmed with the rebased patch"
        json.dump(meta, open(f"{dst}/meta.json", "w"), indent=1)
        n += 1
print("stored", n)
