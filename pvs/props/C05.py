"""C05 — an interval's length is the exact elapsed time between its endpoints."""
from __future__ import annotations

import ast

from .. import cfg, core
from ..core import nun, pmod, un
from ..rules import recon, units

EXPLANATION = (
    "Decided statically: (1) operand direction of DateTime/Date __sub__, __rsub__, diff and pendulum.interval "
    "(b - a == a.diff(b, False) == Interval(a, b), Interval computes end - start); (2) on every non-raising "
    "path of Interval.__new__ the subtracted values are full copies of the endpoints (7 fields + tzinfo + fold) "
    "and, when both share one tzinfo object, each endpoint's own utcoffset() is subtracted from that endpoint "
    "before the zone is stripped - no cross pairing, no sign change; the absolute swap happens before the "
    "copies; the guard is identity of the tzinfo objects; (3) the Duration is built from total_seconds() of "
    "that difference; (4) total_*/in_* divide by the right constants and truncate with int(); (5) native "
    "operands are normalised without loss before differencing; abs()/absolute route to absolute=True. "
    "NOT decided: float precision beyond 2^33 s, the stdlib's aware subtraction."
)
F7 = recon.DATE_F + recon.TIME_F


def _dtcopy(x: str) -> str:
    return "datetime(" + ", ".join(f"{x}.{f}" for f in F7) + f", tzinfo={x}.tzinfo, fold={x}.fold)"


def _datecopy(x: str) -> str:
    return f"date({x}.year, {x}.month, {x}.day)"


def _allowed(x: str) -> set[str]:
    out = {x, _dtcopy(x), _datecopy(x)}
    out |= {f"({b} - {x}.utcoffset()).replace(tzinfo=None)" for b in (x, _dtcopy(x), _datecopy(x))}
    return out


def _interval_new(ctx) -> None:
    m = pmod("interval")
    fn = m.func("Interval.__new__")
    ps = ctx.guard("FLOW.delta", "Interval.__new__", lambda: cfg.paths(fn), m.loc(fn))
    if ps is None:
        return
    seen: set[tuple[str, str, bool]] = set()
    for p in ps:
        ex = p.exit()
        if ex[1] != "return":
            continue
        ret = core.strip_casts(ex[2].value)
        ok_ret = isinstance(ret, ast.Call) and nun(ret.func) in ("super().__new__", "Duration.__new__")
        if not ok_ret:
            ctx.unverified("FLOW.delta", "Interval.__new__/return", f"`{un(ret)[:80]}`", m.loc(ex[2]))
            continue
        k = core.kw(ret)
        sec = k.get("seconds")
        v = cfg.subst_path(p, sec, set()) if sec is not None else None
        s = nun(v) if v is not None else "<none>"
        # the exact form: days / seconds / microseconds of one difference; the older one: its total_seconds() (exact up to 2**53 microseconds)
        parts = {a: cfg.subst_path(p, k[a], set()) for a in ("days", "seconds", "microseconds") if a in k}
        three = set(k) == {"days", "seconds", "microseconds"} and all(isinstance(x, ast.Attribute) and x.attr == a for a, x in parts.items()) \
            and len({nun(x.value) for x in parts.values()}) == 1
        ctx.ob("FLOW.duration", "Interval.__new__/seconds", (three or (s.endswith(".total_seconds()") and set(k) == {"seconds"})) and len(ret.args) == 1,
               f"Duration built with {sorted(k)} = `{s[-40:]}`; must be the days, seconds and microseconds of the difference (or seconds=<difference>.total_seconds())", m.loc(ex[2]))
        d = parts["seconds"].value if three else v.func.value if (isinstance(v, ast.Call) and isinstance(v.func, ast.Attribute)) else None
        if not isinstance(d, ast.BinOp):
            ctx.unverified("FLOW.delta", "Interval.__new__/delta", f"`{s[:80]}`", m.loc(ex[2]))
            continue
        swapped = p.holds("absolute") is True and (p.holds("start > end") is True or p.holds("_is_after(start, end)") is True)
        S, E = ("end", "start") if swapped else ("start", "end")
        left, right = nun(d.left), nun(d.right)
        key = (left, right, swapped)
        if key in seen:
            continue
        seen.add(key)
        ok = isinstance(d.op, ast.Sub) and left in _allowed(E) and right in _allowed(S)
        ctx.ob("FLOW.delta", f"Interval.__new__/delta[{len(seen)}]", ok,
               f"length = `{left[:110]}` {type(d.op).__name__} `{right[:110]}` (swapped={swapped}); must be "
               f"<end side built only from {E}> - <start side built only from {S}>, each a full copy, offset-corrected "
               f"with its own utcoffset() when at all", m.loc(ex[2]))
    ctx.count("distinct_delta_forms", len(seen))
    # the swap precedes the copies
    body = core.body_no_doc(fn)
    swap_i = copy_i = None
    for i, st in enumerate(body):
        if isinstance(st, ast.If) and ("start > end" in un(st.test) or "_is_after(start, end)" in un(st.test)) and "absolute" in un(st.test):
            swap_i = i
            ok = [nun(s) for s in st.body] in (["end, start = (start, end)"], ["start, end = (end, start)"])
            ctx.ob("FLOW.swap", "Interval.__new__/absolute-swap", ok and nun(st.test) in ("absolute and start > end", "absolute and _is_after(start, end)"),
                   f"`if {un(st.test)}: {[nun(s) for s in st.body]}`; absolute intervals swap the endpoints iff start > end",
                   m.loc(st))
        if copy_i is None and isinstance(st, ast.Assign) and nun(st.targets[0]) in ("_start", "_end"):
            copy_i = i
    if swap_i is None:
        ctx.ob("FLOW.swap", "Interval.__new__/absolute-swap", False, "no `absolute and start > end` swap found", m.loc(fn))
    elif copy_i is not None:
        ctx.ob("FLOW.swap", "Interval.__new__/swap-before-copies", swap_i < copy_i,
               "the native copies must be taken after the endpoints were ordered", m.loc(body[swap_i]))
    # guard of the offset correction
    for st in body:
        if isinstance(st, ast.If) and "utcoffset" in un(st):
            conj = cfg.decide(st.test, True)
            atoms = sorted(t for t, pol in conj[0] if pol) if len(conj) == 1 else None
            want = sorted(["isinstance(_start, datetime)", "isinstance(_end, datetime)", "_start.tzinfo is _end.tzinfo"])
            ctx.ob("FLOW.guard", "Interval.__new__/same-tzinfo-guard", atoms == want,
                   f"offset correction guarded by {atoms}; must be exactly {want} (identity of the tzinfo objects: "
                   f"that is when datetime.__sub__ ignores the offsets)", m.loc(st))
            for inner in st.body:
                if isinstance(inner, ast.If):
                    which = "_start" if "_start = " in un(inner) else "_end"
                    c2 = cfg.decide(inner.test, True)
                    at = sorted(t for t, pol in c2[0]) if len(c2) == 1 else []
                    ok = (f"{which}.tzinfo is None", False) in c2[0] if len(c2) == 1 else False
                    ctx.ob("FLOW.guard", f"Interval.__new__/{which}-aware-guard", ok,
                           f"correction of {which} guarded by `{un(inner.test)}` ({at}); must require {which}.tzinfo is not None",
                           m.loc(inner))


def _is_after_tabulate(ctx, m) -> bool | None:
    """ORDER.tabulated: the ordering helper of interval.py run by the checker's interpreter on standard-library values: aware datetimes
    sharing one tzinfo object on both sides of and inside a repeated hour (both folds), aware datetimes of different tzinfo objects,
    naive datetimes, dates.  Expected: the order of the instants where both operands are aware, the native order otherwise."""
    import datetime as _dt
    from ..rules import minieval

    class _Z(_dt.tzinfo):           # the clocks go back from 02:00 (+02:00) to 01:00 (+01:00) on 2021-10-31
        def utcoffset(self, x):
            w = x.replace(tzinfo=None, fold=0)
            lo, hi = _dt.datetime(2021, 10, 31, 1), _dt.datetime(2021, 10, 31, 2)
            return _dt.timedelta(hours=2 if w < lo or (w < hi and x.fold == 0) else 1)

        def dst(self, x):
            return _dt.timedelta(0)

        def fromutc(self, x):
            u = x.replace(tzinfo=None)
            if u < _dt.datetime(2021, 10, 30, 23):
                return (u + _dt.timedelta(hours=2)).replace(tzinfo=self)
            w = u + _dt.timedelta(hours=1)
            return w.replace(tzinfo=self, fold=1 if w < _dt.datetime(2021, 10, 31, 2) else 0)
    z, z2 = _Z(), _Z()
    D = _dt.datetime
    same = [D(2021, 10, 31, 0, 59, 59, 999999, tzinfo=z), D(2021, 10, 31, 1, 15, tzinfo=z, fold=1), D(2021, 10, 31, 1, 30, tzinfo=z), D(2021, 10, 31, 1, 30, tzinfo=z, fold=1),
            D(2021, 10, 31, 1, 45, tzinfo=z), D(2021, 10, 31, 1, 45, 0, 1, tzinfo=z), D(2021, 10, 31, 2, 0, tzinfo=z), D(2021, 6, 1, 12, tzinfo=z)]
    other = [D(2021, 10, 31, 1, 30, tzinfo=z2, fold=1), D(2021, 10, 31, 0, 0, tzinfo=_dt.timezone.utc), D(2021, 10, 30, 23, 30, tzinfo=_dt.timezone(_dt.timedelta(hours=-1))),
             D(2021, 10, 31, 1, 30, tzinfo=z2)]
    naive = [D(2021, 10, 31, 1, 30), D(2021, 10, 31, 1, 30, fold=1), D(2021, 10, 31, 1, 30, 0, 1), D(2020, 2, 29)]
    dates = [_dt.date(2021, 10, 31), _dt.date(2021, 11, 1), _dt.date(2020, 2, 29)]
    fn = m.func("_is_after")
    funcs = {st.name: st for st in m.top() if isinstance(st, ast.FunctionDef)}
    glob = {"datetime": _dt.datetime, "date": _dt.date, "timedelta": _dt.timedelta, "timezone": _dt.timezone, "UTC": _dt.timezone.utc, "cast": lambda t, v: v,
            "ValueError": ValueError, "TypeError": TypeError}
    bad, n = [], 0

    def inst(x):
        return x.replace(tzinfo=None) - x.utcoffset()
    try:
        for group, aware in ((same + other, True), (naive, False), (dates, False)):
            for a in group:
                for b in group:
                    got = minieval.call(fn, [a, b], {}, {**funcs, "$globals": dict(glob)})
                    want = inst(a) > inst(b) if aware else a > b
                    n += 1
                    if got is not want:
                        how = f" (fold={a.fold} / fold={b.fold}, {'one tzinfo object' if a.tzinfo is b.tzinfo else 'two tzinfo objects'})" if aware else ""
                        bad.append(f"_is_after({a.isoformat()}, {b.isoformat()}){how} -> {got!r}; the first operand is {'' if want else 'not '}the later point in time")
    except (core.Unsupported, KeyError, TypeError, AttributeError, ValueError, IndexError, RecursionError, minieval.Raised) as e:
        ctx.unverified("ORDER.tabulated", "_is_after", f"outside the checker's interpreter: {type(e).__name__}: {str(e)[:160]}", m.loc(fn))
        return None
    ctx.ob("ORDER.tabulated", "_is_after", not bad, f"{n} ordered pairs: " + (f"wrong: {bad[:3]}" if bad else "the order of the instants (inside a repeated hour, "
           "both folds, one and two tzinfo objects), the native order for naive values and dates"), m.loc(fn))
    if not bad:
        ctx.established(("ORDER.instant",), "_is_after", "ORDER.tabulated")
    return not bad


def _instant_order(ctx) -> None:
    """Ordering decisions between the two endpoints must not use the bare native comparison: for two aware
    datetimes sharing one tzinfo it compares wall clock fields and ignores fold."""
    m = pmod("interval")
    for q in ("Interval.__new__", "Interval.__init__"):
        fn = m.func(q)
        a, b = core.params(fn)[:2]
        bare = [n for n in core.walk_fn(fn) if isinstance(n, ast.Compare) and len(n.ops) == 1
                and isinstance(n.ops[0], (ast.Gt, ast.Lt, ast.GtE, ast.LtE)) and {nun(n.left), nun(n.comparators[0])} == {a, b}]
        ctx.ob("ORDER.instant", f"{q}/endpoint-order", not bare,
               f"{[nun(x) for x in bare]}: a native comparison of the endpoints ignores fold when both share one tzinfo, so inside a "
               f"repeated hour the later instant can compare as earlier (negative absolute length, wrong invert flag)", m.loc(bare[0]) if bare else m.loc(fn))
    if m.has_func("_is_after") and _is_after_tabulate(ctx, m):
        pass
    if m.has_func("_is_after"):
        # whatever its shape: some leaf of the helper must order aware operands through their UTC offsets (utcoffset() of both,
        # or astimezone() of both), and the bare wall-clock comparison may only remain on leaves that exclude that case
        from .. import sem
        fn = m.func("_is_after")
        a, b = core.params(fn, drop_self=False)[:2]
        try:
            lv = sem.leaves_of(m, "_is_after")
        except (sem.Giveup, core.Unsupported, KeyError, AttributeError) as e:
            ctx.unverified("ORDER.instant", "_is_after/same-tzinfo", str(e), m.loc(fn))
            return

        def instant(txt: str) -> bool:
            return (f"{a}.utcoffset()" in txt and f"{b}.utcoffset()" in txt) or (f"{a}.astimezone(" in txt and f"{b}.astimezone(" in txt)
        inst = [(c, it) for c, it in lv if any(x[0] == "exit" and x[1] == "return" and instant(str(x[2])) for x in it)]
        bare = [(c, it) for c, it in lv if any(x[0] == "exit" and x[1] == "return" and not instant(str(x[2])) for x in it)]
        def excluded(c: dict) -> bool:
            """the leaf's conditions rule out 'two aware datetimes with one tzinfo'"""
            for k, v in c.items():
                if "isinstance(" in k and "datetime" in k and v is False:
                    return True
                if k.endswith(" is None") and ("tzinfo" in k or "utcoffset" in k) and v is True:
                    return True
                if ".tzinfo is " in k and not k.endswith(" is None") and v is False:
                    return True
            return False
        guarded = all(excluded(c) for c, _ in bare)
        if not lv:
            ctx.unverified("ORDER.instant", "_is_after/same-tzinfo", "no leaves", m.loc(fn))
        else:
            ctx.ob("ORDER.instant", "_is_after/same-tzinfo", bool(inst) and guarded,
                   f"{len(inst)} leaf/leaves order the operands by instant, {len(bare)} by the native comparison"
                   + ("" if inst and guarded else "; aware endpoints sharing one tzinfo must be compared through their UTC offsets (the native "
                      "comparison ignores fold)"), m.loc(fn))


def _direction_tabulate(ctx) -> None:
    """DIRECTION.tabulated: `-` between values and diff() run by the checker's interpreter on instance stubs (rules/wallstub.py) with
    pendulum and native operands: `a - b` must build Interval(b, a, absolute=False) - the native operand first turned into a
    pendulum value with the same fields (naive stays naive, aware goes through instance()) -, `native - a` Interval(a, native'),
    diff(b, abs) Interval(self, b, absolute=abs) with abs defaulting to True; operands of other types give NotImplemented."""
    import datetime as _dt
    from ..rules import minieval, wallstub
    dm, dam = pmod("datetime"), pmod("date")
    for cls, m in (("DateTime", dm), ("Date", dam)):
        bad, n = [], 0
        try:
            w = wallstub.World(m, cls, extra=dam.methods("Date") if cls == "DateTime" else None)
            made = []

            def interval(a, b, absolute=False):
                r = minieval.Stub(_iv=(a, b, absolute))
                made.append(r)
                return r
            g = w.glob["$globals"]
            g["Interval"] = minieval.ClassStub(_new=interval, _isa=lambda v: False)
            g["timedelta"] = _dt.timedelta
            g["date"] = _dt.date
            g["NotImplemented"] = NotImplemented
            pend = g["pendulum"]
            vars(pend)["naive"] = lambda y, mo, d, h=0, mi=0, s_=0, us=0, fold=1: vars_set(w.datetime(_dt.datetime(y, mo, d, h, mi, s_, us), fold, zone=w.other_zone(None)), _naive=True)
            vars(pend)["Interval"] = g["Interval"]
            vars(pend)["interval"] = interval

            def vars_set(o, **k):
                vars(o).update(k)
                return o

            def same(x, want, how):
                if how == "is":
                    return x is want or (cls == "Date" and isinstance(x, minieval.Obj) and vars(x).get("_date") == vars(want).get("_date"))
                if how == "instance":      # pendulum value made from the native `want`
                    return isinstance(x, minieval.Obj) and (vars(x).get("_from") is want or (cls == "Date" and vars(x).get("_date") == want))
                if how == "naive":
                    return isinstance(x, minieval.Obj) and vars(x).get("_naive") and vars(x)["_wall"] == want
                return False
            if cls == "DateTime":
                a = w.datetime(_dt.datetime(2021, 3, 1, 12, 0), 1)
                vars(a)["instance"] = lambda dt, tz=None: vars_set(w.datetime(dt.replace(tzinfo=None), dt.fold, zone=w.other_zone(dt.tzinfo)), _from=dt)
                b = w.datetime(_dt.datetime(2021, 2, 1, 8, 30), 0)
                aware = _dt.datetime(2021, 1, 1, 5, 0, tzinfo=_dt.timezone(_dt.timedelta(hours=3)))
                naive = _dt.datetime(2021, 1, 1, 5, 0, 0, 7)
                cases = [("__sub__", b, ("iv", (b, "is"), (a, "is"), False)), ("__sub__", aware, ("iv", (aware, "instance"), (a, "is"), False)),
                         ("__sub__", naive, ("iv", (naive, "naive"), (a, "is"), False)), ("__sub__", 5, ("ni",)), ("__sub__", "x", ("ni",)),
                         ("__rsub__", aware, ("iv", (a, "is"), (aware, "instance"), False)), ("__rsub__", naive, ("iv", (a, "is"), (naive, "naive"), False)),
                         ("__rsub__", 5, ("ni",)), ("__rsub__", b, ("iv", (a, "is"), (b, "is"), False)),
                         # a plain date and a datetime do not subtract (TypeError in the standard library): the operand must be refused, not used
                         ("__sub__", _dt.date(2021, 1, 1), ("ni-or-typeerror",)), ("__rsub__", _dt.date(2021, 1, 1), ("ni-or-typeerror",))]
            else:
                a = w.date(_dt.date(2021, 3, 1))
                b = w.date(_dt.date(2021, 2, 1))
                nat = _dt.date(2020, 2, 29)
                cases = [("__sub__", b, ("iv", (_dt.date(2021, 2, 1), "instance"), (a, "is"), False)), ("__sub__", nat, ("iv", (nat, "instance"), (a, "is"), False)),
                         ("__sub__", 5, ("ni",)), ("__sub__", "x", ("ni",))]
            for meth, other, want in cases:
                if meth not in w.meths:
                    continue
                n += 1
                label = f"{cls}.{meth}({other if not isinstance(other, minieval.Obj) else 'pendulum value'!r})"
                if want[0] == "ni-or-typeerror":
                    try:
                        got = w.call(a, meth, [other])
                    except minieval.Raised as e:
                        if e.exc_name != "TypeError":
                            bad.append(f"{label}: raises {e.exc_name} (the standard library answers TypeError)")
                        continue
                    except (AttributeError, core.Unsupported) as e:
                        bad.append(f"{label}: the date is used like a datetime ({e}); the standard library answers TypeError")
                        continue
                    if got is not NotImplemented:
                        bad.append(f"{label}: returns {got!r} (expected NotImplemented / TypeError)")
                    continue
                got = w.call(a, meth, [other])
                if want[0] == "ni":
                    if got is not NotImplemented:
                        bad.append(f"{label}: returns {got!r} (expected NotImplemented)")
                    continue
                iv = getattr(got, "_iv", None)
                if iv is None:
                    bad.append(f"{label}: does not return an Interval")
                elif not (same(iv[0], *want[1]) and same(iv[1], *want[2])):
                    bad.append(f"{label}: Interval is built from the wrong / wrongly normalised end points (start: {'ok' if same(iv[0], *want[1]) else 'wrong'}, end: "
                               f"{'ok' if same(iv[1], *want[2]) else 'wrong'}); `a - b` runs from b to a")
                elif bool(iv[2]) != want[3]:
                    bad.append(f"{label}: absolute={iv[2]!r}")
            if "diff" in w.meths:
                for absarg, wantabs in (([b, False], False), ([b, True], True), ([b], True)):
                    n += 1
                    got = w.call(a, "diff", list(absarg))
                    iv = getattr(got, "_iv", None)
                    if iv is None or iv[0] is not a or not (iv[1] is b or (cls == "Date" and vars(iv[1]).get("_date") == vars(b)["_date"])) or bool(iv[2]) != wantabs:
                        bad.append(f"{cls}.diff({'b, ' + str(absarg[1]) if len(absarg) > 1 else 'b'}): Interval{tuple('a' if x is a else 'b' if x is b else '?' for x in (iv or (None, None))[:2])} absolute={iv[2] if iv else None}")
        except wallstub.ERRORS + (ValueError, minieval.Raised) as e:
            ctx.unverified("DIRECTION.tabulated", f"{cls}", f"outside the checker's interpreter: {type(e).__name__}: {e}", m.rel)
            continue
        ctx.ob("DIRECTION.tabulated", f"{cls}.__sub__/__rsub__/diff", not bad, f"{n} cases: " + (f"wrong: {bad[:3]}" if bad else
               "a - b is Interval(b, a), native - a is Interval(a, native), diff(b, abs) is Interval(self, b, absolute=abs)"), m.rel)
        if not bad:
            ctx.established(("DIRECTION", "NORMALISE", "DEFAULTS.abs", "ABS"), f"{cls}.", "DIRECTION.tabulated")


def _direction(ctx) -> None:
    _direction_tabulate(ctx)
    dm, dam, im = pmod("datetime"), pmod("date"), pmod("__init__")

    def final_returns(m, q):
        fn = m.func(q)
        out = []
        for p in cfg.paths(fn):
            ex = p.exit()
            if ex[1] == "return" and nun(ex[2].value) != "NotImplemented":
                out.append((p, ex[2]))
        return fn, out

    norm_dt = {"other", "self.instance(other)",
               "pendulum.naive(" + ", ".join(f"other.{f}" for f in F7) + ")"}
    # DateTime.__sub__ (datetime operand)
    fn, rets = final_returns(dm, "DateTime.__sub__")
    for p, r in rets:
        if p.holds("isinstance(other, datetime.timedelta)") is True:
            continue
        e = core.strip_casts(r.value)
        ok = False
        recv = "?"
        if isinstance(e, ast.Call) and isinstance(e.func, ast.Attribute) and e.func.attr == "diff" and len(e.args) == 2:
            recv = nun(cfg.subst_path(p, e.func.value, set()))
            ok = recv in norm_dt and nun(e.args[0]) == "self" and core.is_const(e.args[1], False)
        ctx.ob("DIRECTION", "DateTime.__sub__", ok,
               f"returns `{nun(e)[:80]}` with receiver `{recv[:60]}`; self - other must be <other>.diff(self, False)", dm.loc(r))
        naive = p.holds("other.tzinfo is None")
        if not (p.holds("isinstance(other, self.__class__)") is True):
            want = "pendulum.naive(" if naive else "self.instance(other)"
            ctx.ob("NORMALISE", f"DateTime.__sub__/{'naive' if naive else 'aware'}-native", recv.startswith(want),
                   f"native operand normalised as `{recv[:60]}`", dm.loc(r), nontrivial=False)
    fn, rets = final_returns(dm, "DateTime.__rsub__")
    for p, r in rets:
        e = core.strip_casts(r.value)
        ok = False
        arg = "?"
        if isinstance(e, ast.Call) and nun(e.func) == "self.diff" and len(e.args) == 2:
            arg = nun(cfg.subst_path(p, e.args[0], set()))
            ok = arg in norm_dt and core.is_const(e.args[1], False)
        ctx.ob("DIRECTION", "DateTime.__rsub__", ok,
               f"returns `{nun(e)[:80]}` (argument `{arg[:60]}`); other - self must be self.diff(<other>, False)", dm.loc(r))
    # DateTime.diff
    fn, rets = final_returns(dm, "DateTime.diff")
    for p, r in rets:
        e = core.strip_casts(r.value)
        ok = isinstance(e, ast.Call) and nun(e.func) == "Interval" and [nun(a) for a in e.args] == ["self", "dt"] \
            and {k_: nun(v) for k_, v in core.kw(e).items()} == {"absolute": "abs"}
        ctx.ob("DIRECTION", "DateTime.diff", ok, f"returns `{nun(e)}`; must be Interval(self, dt, absolute=abs)", dm.loc(r))
    d = core.defaults(dm.func("DateTime.diff"))
    ctx.ob("DEFAULTS.abs", "DateTime.diff/abs", core.is_const(d.get("abs"), True), f"default abs={nun(d.get('abs'))}", dm.loc(fn))
    # Date
    fn, rets = final_returns(dam, "Date.__sub__")
    for p, r in rets:
        if p.holds("isinstance(other, timedelta)") is True:
            continue
        e = core.strip_casts(r.value)
        ok = False
        recv = "?"
        if isinstance(e, ast.Call) and isinstance(e.func, ast.Attribute) and e.func.attr == "diff" and len(e.args) == 2:
            recv = nun(cfg.subst_path(p, e.func.value, set()))
            ok = recv in ("self.__class__(other.year, other.month, other.day)", "other") and nun(e.args[0]) == "self" \
                and core.is_const(e.args[1], False)
        ctx.ob("DIRECTION", "Date.__sub__", ok, f"returns `{nun(e)}` on `{recv}`; must be <other>.diff(self, False)", dam.loc(r))
    fn, rets = final_returns(dam, "Date.diff")
    for p, r in rets:
        e = core.strip_casts(r.value)
        ok = isinstance(e, ast.Call) and nun(e.func) == "Interval" and len(e.args) == 2 and nun(e.args[0]) == "self" \
            and nun(e.args[1]) in ("Date(dt.year, dt.month, dt.day)", "dt", "self.__class__(dt.year, dt.month, dt.day)") \
            and {k_: nun(v) for k_, v in core.kw(e).items()} == {"absolute": "abs"}
        ctx.ob("DIRECTION", "Date.diff", ok, f"returns `{nun(e)}`; must be Interval(self, <dt>, absolute=abs)", dam.loc(r))
    # pendulum.interval
    r = core.returns(im.func("interval"))
    ok = len(r) == 1 and nun(r[0].value) == "Interval(start, end, absolute=absolute)"
    ctx.ob("DIRECTION", "pendulum.interval", ok, f"returns `{[nun(x.value) for x in r]}`", im.loc(im.func("interval")))
    # Interval.__abs__ / __neg__
    ivm = pmod("interval")
    r = core.returns(ivm.func("Interval.__abs__"))
    ctx.ob("ABS", "Interval.__abs__", len(r) == 1 and nun(r[0].value) == "self.__class__(self.start, self.end, absolute=True)",
           f"returns `{[nun(x.value) for x in r]}`", ivm.loc(ivm.func("Interval.__abs__")))


def _totals_tabulate(ctx) -> bool | None:
    """TOTALS.tabulated: total_minutes / total_hours / total_days / total_weeks and in_weeks .. in_seconds run by the checker's interpreter on
    Duration instance stubs (rules/durstub.py) of both signs - whole units, sub-second parts, lengths near 2**53 us - against
    total_seconds() of the standard library divided by the unit (to the last bit or the next: the two-step division of weeks may differ from
    one division by 604800 in the last place), in_*() being that value truncated toward zero."""
    import datetime as _dt
    import math
    from ..rules import durstub, minieval
    m = pmod("duration")
    try:
        w = durstub.World(m)
    except durstub.ERRORS as e:
        ctx.unverified("TOTALS.tabulated", "Duration.total_*", f"outside the checker's interpreter: {type(e).__name__}: {e}", m.rel)
        return None
    unit = {"minutes": 60, "hours": 3600, "days": 86400, "weeks": 604800, "seconds": 1}
    vals = [0, 1, 10**6, 90 * 10**6, 3600 * 10**6, 86400 * 10**6, 14 * 86400 * 10**6, 36 * 3600 * 10**6 + 1, 59999999, 604800 * 10**6 - 1, 123456789012345, 2**53 + 3, 7 * 86400 * 10**6 * 1000 + 5 * 10**5]
    bad, n = [], 0
    try:
        insts = [(f"Duration({us} us)", w.normalised(0, 0, us), _dt.timedelta(microseconds=us)) for us in vals + [-v for v in vals if v]]
        # years and months count in the length (365 / 30 days); and an Interval overrides the component properties with its calendar
        # components, which need not add up to the length: totals must come from total_seconds(), not from components
        for y, mo, us in ((1, 0, 0), (0, 2, 3 * 86400 * 10**6), (-1, 0, -5 * 10**6), (2, 11, 90 * 10**6 + 1)):
            insts.append((f"Duration(years={y}, months={mo}, {us} us)", w.normalised(y, mo, us), _dt.timedelta(days=365 * y + 30 * mo, microseconds=us)))
        for us in (84600 * 10**6, -3 * 86400 * 10**6 - 5400 * 10**6):
            d = w.normalised(0, 0, us)
            vars(d).update(hours=5, minutes=17, remaining_seconds=33, weeks=1, remaining_days=2, microseconds=7, _days=40, years=0, months=1)
            insts.append((f"an Interval of {us} us whose calendar components differ from its length", d, _dt.timedelta(microseconds=us)))
        for label, d, td in insts:
            secs = td.total_seconds()
            for u in ("minutes", "hours", "days", "weeks"):
                if f"total_{u}" not in w.meths:
                    continue
                n += 1
                got = w.call(f"total_{u}", [d])
                want = secs / unit[u]
                if not isinstance(got, float) or not (got == want or math.nextafter(got, want) == want):
                    bad.append(f"{label}.total_{u}() = {got!r} (total_seconds() / {unit[u]} = {want!r})")
            for u in ("weeks", "days", "hours", "minutes", "seconds"):
                if f"in_{u}" not in w.meths:
                    continue
                n += 1
                got = w.call(f"in_{u}", [d])
                want = int(secs / unit[u])
                if abs(secs / unit[u] - round(secs / unit[u])) < 1e-9 and abs(secs / unit[u]) > 2**40:
                    continue        # at a unit boundary of a very long duration the last bit decides: not a reference value
                if got != want or not isinstance(got, int):
                    bad.append(f"{label}.in_{u}() = {got!r} (total_seconds() / {unit[u]} truncated toward zero = {want})")
    except durstub.ERRORS + (minieval.Raised, ValueError) as e:
        ctx.unverified("TOTALS.tabulated", "Duration.total_*", f"outside the checker's interpreter: {type(e).__name__}: {e}", m.rel)
        return None
    ctx.ob("TOTALS.tabulated", "Duration.total_* / in_*", not bad, f"{n} evaluations: " + (f"wrong: {bad[:3]}" if bad else "total_seconds() divided by the unit; in_*() truncated toward zero"), m.rel)
    if not bad:
        ctx.established(("UNITS.total", "TRUNC.in"), "Duration.", "TOTALS.tabulated")
    return not bad


def _totals(ctx) -> None:
    _totals_tabulate(ctx)
    m = pmod("duration")
    want = {"total_minutes": ("self.total_seconds()", 60), "total_hours": ("self.total_seconds()", 3600),
            "total_days": ("self.total_seconds()", 86400), "total_weeks": ("self.total_days()", 7)}
    for name, (base, k) in want.items():
        fn = m.func(f"Duration.{name}")
        r = core.returns(fn)
        ok = False
        got = [nun(x.value) for x in r]
        if len(r) == 1:
            try:
                w = units.weights(r[0].value, m)
                ok = w == {base: 1 / units.Fraction(k)}
            except core.Unsupported:
                ok = False
        ctx.ob("UNITS.total", f"Duration.{name}", ok, f"returns `{got}`; must be {base} / {k}", m.loc(fn))
    for u in ("weeks", "days", "hours", "minutes", "seconds"):
        fn = m.func(f"Duration.in_{u}")
        r = core.returns(fn)
        ok = len(r) == 1 and nun(r[0].value) == f"int(self.total_{u}())"
        ctx.ob("TRUNC.in", f"Duration.in_{u}", ok,
               f"returns `{[nun(x.value) for x in r]}`; must be int(self.total_{u}()) (truncation toward zero)", m.loc(fn))


def _length_tabulate(ctx, exact: bool = False) -> None:
    """LENGTH.tabulated (exact=True, used by C06: LENGTH.exact - only the pairs C06 speaks of, naive / UTC / date pairs, and every length
    exact; C05 itself allows 64 microseconds beyond 2**33 seconds, where a float of seconds is used): Interval.__new__ (and the ordering helper it uses) run by the checker's interpreter on standard-library
    values: naive pairs, date pairs, aware pairs sharing one zoneinfo object inside and around a repeated and a skipped hour
    (both folds - the standard library compares and subtracts such pairs on their wall clock only), aware pairs in different
    zones and with fixed offsets, forward and reversed, absolute or not.  The number of seconds handed to the Duration
    constructor must be the exact elapsed time between the two instants (the difference of the dates for dates), negative
    for a reversed pair unless absolute; mixed naive / aware and date / datetime pairs are refused."""
    import datetime as _dt
    import zoneinfo
    from ..rules import minieval
    m = pmod("interval")
    fn = m.func("Interval.__new__")
    try:
        paris, ny = zoneinfo.ZoneInfo("Europe/Paris"), zoneinfo.ZoneInfo("America/New_York")
    except Exception as e:      # noqa: BLE001
        ctx.unverified("LENGTH.tabulated", "Interval.__new__", f"no tz database for the standard library's zoneinfo: {e}", m.loc(fn))
        return
    D = _dt.datetime
    utc = _dt.timezone.utc

    def inst(x):
        return x.astimezone(utc) if x.tzinfo is not None else x
    aw = [D(2021, 10, 31, 1, 30, tzinfo=paris), D(2021, 10, 31, 2, 30, tzinfo=paris, fold=0), D(2021, 10, 31, 2, 30, tzinfo=paris, fold=1), D(2021, 10, 31, 3, 30, tzinfo=paris),
          D(2021, 3, 28, 1, 59, 59, 999999, tzinfo=paris), D(2021, 3, 28, 3, 0, tzinfo=paris), D(2021, 3, 28, 12, 0, tzinfo=ny), D(2021, 10, 31, 2, 45, 0, 1, tzinfo=paris, fold=0),
          D(2021, 10, 31, 0, 30, tzinfo=utc), D(2021, 10, 31, 6, 0, tzinfo=_dt.timezone(_dt.timedelta(hours=5, minutes=30))), D(2021, 11, 7, 1, 30, tzinfo=ny, fold=1), D(2021, 11, 7, 1, 30, tzinfo=ny, fold=0)]
    try:
        london = zoneinfo.ZoneInfo("Europe/London")
        # a zone that is at +00:00 for part of the year: a zero offset is a falsy timedelta
        aw += [D(2021, 3, 28, 0, 30, tzinfo=london), D(2021, 3, 28, 3, 0, tzinfo=london), D(2021, 1, 15, 12, 0, tzinfo=london), D(2021, 10, 31, 1, 30, tzinfo=london, fold=1)]
    except Exception:       # noqa: BLE001
        pass
    # two distinct but equal tzinfo objects
    aw += [D(2021, 6, 1, 12, 0, tzinfo=_dt.timezone(_dt.timedelta(hours=1))), D(2021, 6, 1, 18, 0, tzinfo=_dt.timezone(_dt.timedelta(hours=1)))]
    nv = [D(2021, 1, 31, 0, 0), D(2021, 3, 1, 12, 30, 15, 250000), D(2020, 2, 29, 23, 59, 59, 999999), D(2020, 2, 29, 23, 59, 59, 999998),
          D(1000, 1, 1, 0, 0, 0, 1), D(2500, 6, 15, 13, 14, 15, 999999), D(9999, 12, 31, 23, 59, 59, 999999)]       # lengths beyond 2**53 microseconds (a float of seconds cannot hold them)
    aw += [D(1, 1, 1, 0, 0, 0, 7, tzinfo=utc), D(9999, 12, 31, 23, 59, 59, 999999, tzinfo=utc)]
    dates = [_dt.date(2021, 1, 31), _dt.date(2021, 3, 1), _dt.date(2020, 2, 29)]
    bad, n = [], 0

    # the class part of the pendulum-typed stubs: the analysed DateTime / Date (a helper method the endpoints are asked for is interpreted)
    dmm, damm = pmod("datetime"), pmod("date")
    dmeths = {**damm.methods_mro("Date"), **dmm.methods_mro("DateTime")}
    dprops = {k for k, f in dmeths.items() if any(core.dotted(d) == "property" for d in f.decorator_list)}
    foreign_ids: set[int] = set()       # tzinfo objects that stand for a tzinfo of the standard library carried by a DateTime (else: for a pendulum zone)
    dfuncs = {**{st.name: st for st in dmm.top() if isinstance(st, ast.FunctionDef)},
              "$globals": {**minieval.module_consts(dmm), "Timezone": minieval.ClassStub(_new=None, _isa=lambda v: isinstance(v, _dt.tzinfo) and id(v) not in foreign_ids),
                           "FixedTimezone": minieval.ClassStub(_new=None, _isa=lambda v: False), "UTC": utc, "datetime": minieval.std_module("datetime"),
                           "ValueError": ValueError, "TypeError": TypeError}}

    def pend(x, foreign=False):
        """a stub standing for the pendulum DateTime / Date with the fields, tzinfo and fold of the native value x (`foreign`: its tzinfo is one
        of the standard library, for which `.tz` / `.timezone` answer None)"""
        if isinstance(x, _dt.datetime):
            zone = None if foreign else x.tzinfo
            if foreign and x.tzinfo is not None:
                foreign_ids.add(id(x.tzinfo))
            return minieval.Obj(_methods=dmeths, _props=dprops, _natives={}, _ctor=None, _funcs=dfuncs, _types=(_dt.datetime,), _pend="DateTime", _native=x, _eqkey=x, year=x.year, month=x.month, day=x.day, hour=x.hour, minute=x.minute,
                                 second=x.second, microsecond=x.microsecond, tzinfo=x.tzinfo, fold=x.fold, utcoffset=x.utcoffset, astimezone=x.astimezone, tz=zone,
                                 timezone=zone, timezone_name=(zone.tzname(None) if zone is not None else None), is_local=lambda: False,
                                 offset=(None if x.utcoffset() is None else int(x.utcoffset().total_seconds())), timestamp=x.timestamp, date=x.date, time=x.time, timetz=x.timetz,
                                 toordinal=x.toordinal, weekday=x.weekday, isoformat=x.isoformat)
        return minieval.Stub(_types=(_dt.date,), _pend="Date", _native=x, _eqkey=x, year=x.year, month=x.month, day=x.day)
    try:
        funcs = {st.name: st for st in m.top() if isinstance(st, ast.FunctionDef)}
        if exact:
            aw = [x for x in aw if x.tzinfo is utc]
        # (the last group: DateTimes that carry a tzinfo of the standard library - what astimezone(ZoneInfo(..)) returns)
        for group, wrap in ((aw, None), (nv, None), (dates, None), (aw, pend), (nv, pend), (dates, pend), (aw[:7], lambda x: pend(x, True))):
            foreign_ids.clear()
            for a0 in group:
                for b0 in group:
                    a, b = (a0, b0) if wrap is None else (wrap(a0), wrap(b0))
                    for absolute in (False, True):
                        made = []

                        class _Sup:
                            def __new__(self_, cls_, *a_, **k_):
                                made.append((a_, k_))
                                return minieval.Stub(_made=True)
                        glob = {"datetime": _dt.datetime, "date": _dt.date, "timedelta": _dt.timedelta, "timezone": _dt.timezone, "ValueError": ValueError, "TypeError": TypeError,
                                "pendulum": minieval.Stub(DateTime=minieval.ClassStub(_new=None, _isa=lambda v: getattr(v, "_pend", None) == "DateTime"),
                                                          Date=minieval.ClassStub(_new=None, _isa=lambda v: getattr(v, "_pend", None) in ("Date", "DateTime"))),
                                "super": lambda *a_: minieval.Stub(__new__=lambda cls_, *a2, **k2: (made.append((a2, k2)), minieval.Stub(_made=True))[1])}
                        n += 1
                        label = f"Interval({'pendulum ' if wrap else ''}{a0!r}, {'pendulum ' if wrap else ''}{b0!r}{', absolute=True' if absolute else ''})"
                        try:
                            got = minieval.call(fn, [minieval.Stub(_cls="Interval"), a, b, absolute], {}, {**funcs, "$globals": glob})
                        except minieval.Raised as e:
                            bad.append(f"{label}: raises {e.exc_name}")
                            continue
                        if not getattr(got, "_made", False) or len(made) != 1 or made[0][0] or set(made[0][1]) - {"seconds", "microseconds", "days"}:
                            raise core.Unsupported("__new__ does not end in super().__new__(cls, seconds=...)")
                        k = made[0][1]
                        secs = _dt.timedelta(days=k.get("days", 0), seconds=k.get("seconds", 0), microseconds=k.get("microseconds", 0))
                        if isinstance(a0, _dt.datetime):
                            want = inst(b0) - inst(a0)
                        else:
                            want = b0 - a0
                        if absolute:
                            want = abs(want)
                        slack = _dt.timedelta(0) if exact or abs(want) < _dt.timedelta(seconds=2 ** 33) else _dt.timedelta(microseconds=64)
                        if abs(secs - want) > slack:
                            bad.append(f"{label}: built with {k} = {secs} (elapsed: {want})")
        for a, b, exc in ((nv[0], aw[0], "TypeError"), (aw[0], nv[0], "TypeError"), (dates[0], nv[0], "ValueError"), (nv[0], dates[0], "ValueError")):
            n += 1
            glob = {"datetime": _dt.datetime, "date": _dt.date, "timedelta": _dt.timedelta, "timezone": _dt.timezone, "ValueError": ValueError, "TypeError": TypeError,
                    "pendulum": minieval.Stub(DateTime=minieval.ClassStub(_new=None, _isa=lambda v: False), Date=minieval.ClassStub(_new=None, _isa=lambda v: False)),
                    "super": lambda *a_: minieval.Stub(__new__=lambda cls_, *a2, **k2: minieval.Stub(_made=True))}
            try:
                minieval.call(fn, [minieval.Stub(_cls="Interval"), a, b], {}, {**funcs, "$globals": glob})
                bad.append(f"Interval({a!r}, {b!r}) is accepted; a mixed pair must raise {exc}")
            except minieval.Raised as e:
                if e.exc_name != exc:
                    bad.append(f"Interval({a!r}, {b!r}) raises {e.exc_name} (expected {exc})")
            except TypeError:
                if exc != "TypeError":
                    bad.append(f"Interval({a!r}, {b!r}) raises TypeError (expected {exc})")
    except (core.Unsupported, KeyError, AttributeError, IndexError, RecursionError, ValueError, TypeError) as e:
        ctx.unverified("LENGTH.exact" if exact else "LENGTH.tabulated", "Interval.__new__", f"outside the checker's interpreter: {type(e).__name__}: {e}", m.loc(fn))
        return
    ctx.ob("LENGTH.exact" if exact else "LENGTH.tabulated", "Interval.__new__", not bad, f"{n} pairs evaluated: " + (f"wrong: {bad[:3]}" if bad else
           "the Duration is built from the exact elapsed time between the two instants" + ("" if exact else " (within 64 microseconds beyond 2**33 seconds)")), m.loc(fn))
    if not bad and not exact:
        ctx.established(("FLOW",), "Interval.__new__", "LENGTH.tabulated")


def run(ctx) -> None:
    ctx.explanation = EXPLANATION
    ctx.step(_length_tabulate, ctx)
    ctx.step(_direction, ctx)
    ctx.step(_instant_order, ctx)
    ctx.step(_interval_new, ctx)
    ctx.step(_totals, ctx)
    ivm, dm = pmod("interval"), pmod("datetime")
    sites = recon.sites_in(ivm, ["Interval.__new__", "Interval.__init__"]) + recon.sites_in(dm, ["DateTime.__sub__", "DateTime.__rsub__"]) \
        + recon.sites_in(pmod("date"), ["Date.__sub__", "Date.diff"])
    for s in sites:
        recon.check_site(ctx, s)
    ctx.count("recon_sites", len(sites))
    ctx.expect_min("DIRECTION", 7)
    ctx.expect_min("FLOW.delta", 3)
    ctx.expect_min("RECON.slot", 40)
    ctx.expect_min("UNITS.total", 4)
    ctx.expect_min("TRUNC.in", 5)
