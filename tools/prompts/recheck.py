import json, os, subprocess, sys, glob
from concurrent.futures import ThreadPoolExecutor
seeds = sorted(glob.glob('/tmp/wt/C*/out/[0-9]*/'))
def one(d):
    id_ = d.split('/')[3] + '-' + d.split('/')[5]
    conf = {}
    try: conf = json.load(open(f'/tmp/wt/results/{id_}.json'))
    except Exception as e: conf = {'error_confirm': str(e)[:80]}
    r = subprocess.run(['/verif/tools/eval_seed.py', d, '--no-confirm'], capture_output=True, text=True)
    try: chk = json.loads(r.stdout)
    except Exception as e: chk = {'error': (r.stdout + r.stderr)[-200:]}
    out = {k: conf.get(k) for k in ('demo_passes_without','demo_fails_with','suite_passes_with','error_confirm')}
    out.update({k: chk.get(k) for k in ('checks_fired','caught','caught_by_own_property','error','property')})
    out['id'] = id_
    json.dump(out, open(f'/tmp/wt/results/final-{id_}.json','w'), indent=1)
    return out
with ThreadPoolExecutor(8) as ex:
    res = list(ex.map(one, seeds))
n=len(res); conf=[r for r in res if r.get('demo_passes_without') and r.get('demo_fails_with') and r.get('suite_passes_with')]
print('seeds', n, 'confirmed', len(conf), 'caught(own)', sum(1 for r in conf if r.get('caught_by_own_property')), 'caught(any)', sum(1 for r in conf if r.get('caught')))
for r in res:
    c = ''.join('Y' if r.get(k) else 'N' for k in ('demo_passes_without','demo_fails_with','suite_passes_with'))
    fired = {k:(v['rules'][:2] if v.get('rc')==1 else 'RC2:'+v.get('tail','')[-80:]) for k,v in (r.get('checks_fired') or {}).items() if k!='_unverified'}
    status = 'OWN' if r.get('caught_by_own_property') else ('other' if r.get('caught') else 'MISSED')
    print(r['id'], c, status, (r.get('error') or r.get('error_confirm') or '')[:100], fired if fired else (r.get('checks_fired') or {}).get('_unverified',''))
