"""Self-test: every variant is a one-site edit of a scratch copy of the
sources (outside /repo and /verif, removed at once) that still parses; the named
check must fire (exit 1) and mention the expected rule; the unmodified copy
must stay silent.  Variants are declared in variants.py as
(id, property, file, old, new, expected rule substring | None for 'must stay quiet')."""
from __future__ import annotations

import ast
import os
import shutil
import subprocess
import sys
import tempfile
from concurrent.futures import ThreadPoolExecutor
from pathlib import Path

VERIF = Path(__file__).resolve().parent.parent.parent
REPO = Path(os.environ.get("PVS_REPO", "/repo"))


def make_copy(dst: Path) -> None:
    for sub in ("src/pendulum", "rust/src", "docs/docs"):
        shutil.copytree(REPO / sub, dst / sub, ignore=shutil.ignore_patterns("*.so", "__pycache__"))
    for f in ("rust/Cargo.toml", "rust/Cargo.lock"):
        if (REPO / f).exists():
            shutil.copy(REPO / f, dst / f)
    if (REPO / "rust/.cargo").exists():
        shutil.copytree(REPO / "rust/.cargo", dst / "rust/.cargo")


def run_variant(v) -> tuple[str, bool, str]:
    vid, prop, rel, old, new, expect = v[:6]
    count = v[6] if len(v) > 6 else 1
    tmp = Path(tempfile.mkdtemp(prefix="pvs-selftest-"))
    try:
        make_copy(tmp)
        if rel == "PATCH":
            r = subprocess.run(["git", "apply", "--unsafe-paths", f"--directory={tmp}", str(VERIF / old)], capture_output=True, text=True, cwd="/")
            if r.returncode != 0:
                return vid, False, f"pattern (patch {old}) does not apply to this tree: {r.stderr[:120]}"
        elif rel is not None:
            p = tmp / rel
            s = p.read_text()
            pairs = old if isinstance(old, list) else [(old, new)]
            for o, n in pairs:
                if (count is None and s.count(o) < 1) or (count is not None and s.count(o) != count):
                    return vid, False, f"pattern {o[:40]!r} occurs {s.count(o)}x in {rel} (expected {count})"
                s = s.replace(o, n)
            if rel.endswith(".py"):
                try:
                    ast.parse(s)
                except SyntaxError as e:
                    return vid, False, f"variant does not parse: {e}"
            p.write_text(s)
        env = dict(os.environ, PVS_NO_EVIDENCE="1", PVS_REPO=str(tmp), PVS_MIR_CACHE=str(VERIF / ".cache"))
        r = subprocess.run([str(VERIF / "check"), prop, "--repo", str(tmp)], capture_output=True, text=True, env=env,
                           cwd=str(VERIF))
        out = r.stdout + r.stderr
        if expect is None:
            ok = r.returncode == 0
            return vid, ok, "" if ok else f"expected quiet, got rc={r.returncode}: {out[-600:]}"
        ok = r.returncode == 1 and "VIOLATION property=" + prop in out and expect in out
        return vid, ok, "" if ok else f"expected rule {expect!r}, rc={r.returncode}: {out[-800:]}"
    finally:
        shutil.rmtree(tmp, ignore_errors=True)


def main(argv: list[str]) -> int:
    from .variants import VARIANTS
    sel = [v for v in VARIANTS if not argv or v[1] in argv or v[0] in argv]
    with ThreadPoolExecutor(max_workers=int(os.environ.get("PVS_JOBS", "16"))) as ex:
        res = list(ex.map(run_variant, sel))
    bad = [(i, m) for i, ok, m in res if not ok]
    for i, m in bad:
        print(f"SELFTEST-FAIL {i}: {m}")
    print(f"selftest: {len(res) - len(bad)}/{len(res)} variants behaved as expected")
    return 1 if bad else 0


if __name__ == "__main__":
    sys.exit(main(sys.argv[1:]))
