"""E5 / F4: polynomial normal form of integer expressions over named constants
and opaque atoms; helpers for unit / weight checks."""
from __future__ import annotations

import ast
from fractions import Fraction
from typing import Any

from .. import core
from ..core import Unsupported, strip_casts, un

Poly = dict[tuple[str, ...], Fraction]


def _mul(a: Poly, b: Poly) -> Poly:
    out: Poly = {}
    for ma, ca in a.items():
        for mb, cb in b.items():
            m = tuple(sorted(ma + mb))
            out[m] = out.get(m, 0) + ca * cb
    return {m: c for m, c in out.items() if c != 0}


def _add(a: Poly, b: Poly, sign: int = 1) -> Poly:
    out = dict(a)
    for m, c in b.items():
        out[m] = out.get(m, 0) + sign * c
    return {m: c for m, c in out.items() if c != 0}


def poly(node: ast.AST, m: core.Mod | None = None, cls: str | None = None,
         env: dict[str, Any] | None = None, atoms_ok: bool = True) -> Poly:
    """Normal form.  Names that fold to numbers (module / class constants, env)
    become coefficients; everything non-arithmetic becomes an opaque atom."""
    node = strip_casts(node)
    env = env or {}

    def rec(n: ast.AST) -> Poly:
        if isinstance(n, ast.Constant) and isinstance(n.value, (int, float)) and not isinstance(n.value, bool):
            return {(): Fraction(n.value)} if n.value != 0 else {}
        if isinstance(n, ast.UnaryOp) and isinstance(n.op, ast.USub):
            return _add({}, rec(n.operand), -1)
        if isinstance(n, ast.UnaryOp) and isinstance(n.op, ast.UAdd):
            return rec(n.operand)
        if isinstance(n, ast.BinOp):
            if isinstance(n.op, ast.Add):
                return _add(rec(n.left), rec(n.right))
            if isinstance(n.op, ast.Sub):
                return _add(rec(n.left), rec(n.right), -1)
            if isinstance(n.op, ast.Mult):
                return _mul(rec(n.left), rec(n.right))
            if isinstance(n.op, (ast.FloorDiv, ast.Mod, ast.Div)):
                l, r = rec(n.left), rec(n.right)
                opn = {ast.FloorDiv: "fdiv", ast.Mod: "mod", ast.Div: "div"}[type(n.op)]
                if isinstance(n.op, ast.Div) and set(r) == {()}:
                    k = r[()]
                    return {mm: c / k for mm, c in l.items()}
                return {(f"{opn}({show(l)}, {show(r)})",): Fraction(1)}
        if isinstance(n, ast.Name):
            if n.id in env:
                v = env[n.id]
                if isinstance(v, (int, float)) and not isinstance(v, bool):
                    return {(): Fraction(v)} if v != 0 else {}
                if isinstance(v, ast.AST):
                    return rec(v)
            if m is not None:
                try:
                    v = core.fold_name(n.id, m, cls)
                    if isinstance(v, (int, float)) and not isinstance(v, bool):
                        return {(): Fraction(v)} if v != 0 else {}
                except (core.NotConst, core.AnchorMissing):
                    pass
        if isinstance(n, ast.Call) and core.dotted(n.func) in ("int",) and len(n.args) == 1 and not n.keywords:
            inner = rec(n.args[0])
            return {(f"int({show(inner)})",): Fraction(1)}
        if not atoms_ok:
            raise Unsupported(f"non-arithmetic term `{un(n)}`")
        return {(un(n),): Fraction(1)}

    return rec(node)


def show(p: Poly) -> str:
    if not p:
        return "0"
    parts = []
    for mono in sorted(p, key=lambda t: (len(t), t)):
        c = p[mono]
        cs = str(c.numerator) if c.denominator == 1 else str(c)
        if not mono:
            parts.append(cs)
        elif c == 1:
            parts.append("*".join(mono))
        else:
            parts.append(cs + "*" + "*".join(mono))
    return " + ".join(parts)


def linear_terms(node: ast.AST, m: core.Mod | None = None, cls: str | None = None) -> list[tuple[str, str, int]]:
    """expr must be sum of c * <base>.<attr>; returns (base, attr, c)."""
    p = poly(node, m, cls)
    out = []
    for mono, c in p.items():
        if len(mono) != 1 or "." not in mono[0] or c.denominator != 1:
            raise Unsupported(f"term {mono} (coefficient {c}) is not c*<value>.<component>")
        base, attr = mono[0].rsplit(".", 1)
        if base.startswith("(") and base.endswith(")"):
            base = base[1:-1]
        out.append((base, attr, int(c)))
    return out


def weights(node: ast.AST, m: core.Mod | None = None, cls: str | None = None,
            env: dict[str, Any] | None = None) -> dict[str, Fraction]:
    """Linear form: atom -> coefficient ('' for the constant term).  Raises
    Unsupported when a monomial is not linear."""
    p = poly(node, m, cls, env)
    out: dict[str, Fraction] = {}
    for mono, c in p.items():
        if len(mono) > 1:
            raise Unsupported(f"non-linear term {'*'.join(mono)}")
        out[mono[0] if mono else ""] = c
    return out
