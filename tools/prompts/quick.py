import json, subprocess, glob
from concurrent.futures import ThreadPoolExecutor
seeds = sorted(glob.glob('/tmp/wt/C*/out/[0-9]*/'))
def one(d):
    r = subprocess.run(['/verif/tools/eval_seed.py', d, '--no-confirm'], capture_output=True, text=True)
    try: j = json.loads(r.stdout)
    except Exception: return d, None, (r.stdout+r.stderr)[-200:]
    return d, j, ''
with ThreadPoolExecutor(6) as ex: res = list(ex.map(one, seeds))
own = sum(1 for d,j,e in res if j and j.get('caught_by_own_property')); anyc = sum(1 for d,j,e in res if j and j.get('caught'))
print('seeds', len(res), 'own', own, 'any', anyc)
for d,j,e in res:
    sid = d.split('/')[3]+'-'+d.split('/')[5]
    if j is None: print(sid, 'ERR', e); continue
    if j.get('caught_by_own_property'): continue
    fired = {k:(v['rules'][:2] if v.get('rc')==1 else 'RC2 '+v.get('tail','')[-100:]) for k,v in (j.get('checks_fired') or {}).items() if k!='_unverified'}
    meta = json.load(open(d+'meta.json'))
    print(sid, 'other' if j.get('caught') else 'MISSED', j.get('error','')[:80], fired, (j.get('checks_fired') or {}).get('_unverified',''), '|', meta.get('files'), meta.get('clause','')[:100])
