"""C13 — ISO 8601 durations and intervals parse to their exact value (structural clauses)."""
from __future__ import annotations

import ast
import re

from .. import core, mirfront
from ..core import nun, pmod, un

EXPLANATION = (
    "Decided statically: (1) FRACTION-SCALE in the pure-Python duration parser: every use of a fraction digit "
    "string obtained by split('.') scales it by its own length (float('0.'+digits) / 10**len) - a constant "
    "divisor, a [:6] truncation or an int() truncation of the fractional carry is reported, per unit; "
    "(2) RUST-ARITH on rustc MIR of the compiled parser (release overflow setting, so unchecked arithmetic "
    "shows as plain Add/Mul): no integer local is updated by plain Mul/Add inside a loop whose trip count "
    "is driven by the input (Parser::inc without a constant bound), and no plain Add/Mul/Sub takes an "
    "operand that comes from parse_duration_number (the only unbounded number); loops with a literal bound "
    "(`i < 6`, `0..length` with literal lengths at every call site) are recognised as bounded; (3) interval "
    "assembly: start/duration uses add(), duration/end uses subtract(), both with the same 8 components of "
    "the same duration; the attributes read exist on both Duration classes (.pyi, Rust getters, pendulum); "
    "(4) ROUND-LAST on MIR: in the compiled parser's fraction carry chain f64::round may only be applied where the value "
    "becomes the integer microsecond count, never to an intermediate that is split further.  NOT decided: exact rational rounding "
    "of a fraction to the microsecond (float arithmetic)."
    ' Also: every branch of the pure-Python parser that accepts a fractional component records it, and each compiled rank guard refuses the rank it assigns next (repeated designators).'
    " As built (compiled parser): RSDUR.tabulated evaluates the MIR of the compiled duration parser (parse_duration, parse_duration_number(_frac), add_duration_value, the f64 carry of a fraction into the smaller units) with pvs/mirexec.py on the table of PYDUR.tabulated - every designator, '.' and ',' fractions incl. those whose carry does not stop at a whole second, every repeated and every out-of-order designator with and without a value."
)

COMP = {"years": "years", "months": "months", "weeks": "weeks", "days": "remaining_days", "hours": "hours",
        "minutes": "minutes", "seconds": "remaining_seconds", "microseconds": "microseconds"}


def _parent_chain(n: ast.AST):
    p = getattr(n, "_parent", None)
    while p is not None:
        yield p
        p = getattr(p, "_parent", None)


def _fraction_scale(ctx) -> None:
    m = pmod("parsing.iso8601")
    fn = m.func("_parse_iso8601_duration")
    splits = []
    for n in core.walk_fn(fn):
        if isinstance(n, ast.Assign) and isinstance(n.targets[0], ast.Tuple) and len(n.targets[0].elts) == 2 \
                and isinstance(n.value, ast.Call) and isinstance(n.value.func, ast.Attribute) and n.value.func.attr == "split" \
                and n.value.args and core.is_const(n.value.args[0], "."):
            whole, frac = (un(e) for e in n.targets[0].elts)
            splits.append((n, whole, frac, un(n.value.func.value)))
    ctx.count("fraction_sites", len(splits))
    for node, whole, frac, src in splits:
        unit = src.strip("_")
        # uses of the fraction variable in the statements following the split inside the same block
        blk = getattr(node, "_parent")
        body = None
        for fld in ("body", "orelse"):
            if node in getattr(blk, fld, []):
                body = getattr(blk, fld)
        if body is None:
            ctx.unverified("FRACTION-SCALE", f"py:duration/{unit}", "enclosing block not found", m.loc(node))
            continue
        uses = [x for st in body[body.index(node) + 1:] for x in ast.walk(st)
                if isinstance(x, ast.Name) and x.id == frac and isinstance(x.ctx, ast.Load)]
        if not uses:
            ctx.ob("FRACTION-SCALE", f"py:duration/{unit}", False, f"the fraction digits `{frac}` are never used (fraction dropped)", m.loc(node))
            continue
        for u in uses:
            verdict, why = None, ""
            chain = list(_parent_chain(u))
            for p in chain:
                if isinstance(p, ast.Subscript) and isinstance(p.slice, ast.Slice) and frac in un(p.value):
                    verdict, why = False, f"`{un(p)}` truncates the fraction digits (the property asks for rounding to the microsecond)"
                    break
                if isinstance(p, ast.Call) and nun(p.func) == "float":
                    a = p.args[0]
                    if isinstance(a, ast.JoinedStr) and len(a.values) == 2 and isinstance(a.values[0], ast.Constant) \
                            and a.values[0].value == "0." and isinstance(a.values[1], ast.FormattedValue) and un(a.values[1].value) == frac:
                        verdict, why = True, "float('0.<digits>'): scaled by its own length"
                    elif isinstance(a, ast.BinOp) and isinstance(a.op, ast.Add) and core.is_const(a.left, "0.") and un(a.right) == frac:
                        verdict, why = True, "float('0.' + digits)"
                    break
                if isinstance(p, ast.BinOp) and isinstance(p.op, ast.Div) and frac in un(p.left):
                    r = p.right
                    if isinstance(r, ast.BinOp) and isinstance(r.op, ast.Pow) and core.is_const(r.left, 10) and un(r.right) == f"len({frac})":
                        verdict, why = True, "divided by 10 ** len(digits)"
                    elif isinstance(r, ast.Constant):
                        verdict, why = False, (f"`{un(p)}` divides the {unit} fraction digits by the constant {r.value} whatever "
                                               f"their count (only right for a single digit)")
                    break
                if isinstance(p, ast.stmt):
                    break
            if verdict is None:
                ctx.unverified("FRACTION-SCALE", f"py:duration/{unit}", f"unrecognised use of `{frac}` in `{un(chain[0])[:60]}`", m.loc(u))
            else:
                ctx.ob("FRACTION-SCALE", f"py:duration/{unit}", verdict, why, m.loc(u))
    # a fractional carry must not be truncated to an integer
    for n in core.walk_fn(fn):
        if isinstance(n, ast.Call) and nun(n.func) == "int" and n.args and "% 1" in un(n.args[0]):
            ctx.ob("FRACTION-SCALE", "py:duration/carry", False,
                   f"`{un(n)}` truncates the fractional carry to a whole unit (the rest of the fraction is lost)", m.loc(n))
    ctx.ob("FRACTION-SCALE", "py:duration/carry-scan", True, "no int() truncation of a `% 1` carry", m.rel, nontrivial=False)
    # fraction only on the last component / not on years, months
    src = un(fn)
    for u in ("months", "days", "hours", "minutes", "seconds"):
        blk = [n for n in core.walk_fn(fn) if isinstance(n, ast.If) and nun(n.test) == f"_{u}"]
        ok = bool(blk) and isinstance(blk[0].body[0], ast.If) and nun(blk[0].body[0].test) == "fractional" and isinstance(blk[0].body[0].body[0], ast.Raise)
        ctx.ob("FRACTION.last-only", f"py:duration/{u}", ok, f"the {u} arm must reject a component that follows a fractional one", m.rel)
    order = ["weeks", "years", "months", "days", "hours", "minutes", "seconds"]
    for node, whole, frac, srcv in splits:
        unit = srcv.strip("_")
        if unit not in order or unit in ("weeks", "seconds"):
            continue        # nothing may follow weeks (exclusive) or seconds (last)
        blk = getattr(node, "_parent")
        sets = any(isinstance(s_, ast.Assign) and nun(s_.targets[0]) == "fractional" and core.is_const(s_.value, True)
                   for s_ in getattr(blk, "body", []))
        ctx.ob("FRACTION.last-only", f"py:duration/{unit}/marks", sets,
               f"the branch that accepts a fractional {unit} must record it (`fractional = True`), otherwise the smaller units that "
               f"follow are accepted and added on top (PT1.5H30M)", m.loc(node))
    for u in ("years", "months"):
        ok = f"raise ParserError('Float {u} in duration are not supported')" in src
        ctx.ob("FRACTION.ym", f"py:duration/{u}", ok, f"fractional {u} must be rejected", m.rel)
    ctx.ob("WEEKS.exclusive", "py:duration/weeks", "if m.group('ymd') or m.group('hms'):\n        raise ParserError" in src.replace("    " * 2, "    "),
           "PnW must not be combined with other designators", m.rel)


def _rust_arith(ctx) -> None:
    try:
        mir = mirfront.load()
    except mirfront.MirUnavailable as e:
        ctx.unverified("RUST-ARITH", "parsing.rs", f"MIR unavailable, Rust clauses not checked: {e}", "rust/")
        return
    fns = [f for n, f in mir.fns.items() if n.startswith("parsing::") and "{closure" not in n and "::fmt" not in n and "::clone" not in n]
    ctx.count("rust_functions", len(fns))
    # literal lengths at every call site of parse_integer (bounded `for i in 0..length`)
    lens = set()
    for f in fns:
        for _b, s in f.calls():
            if s.callee.endswith("parse_integer"):
                lens.add(s.args[1])
    lit = all(re.match(r"^const \d+_usize$", a) for a in lens)
    ctx.ob("RUST-ARITH.bounded", "parse_integer/length", lit and bool(lens),
           f"parse_integer is called with lengths {sorted(lens)}; every one must be a literal so that its accumulation loop is bounded",
           "rust/src/parsing.rs")
    n_loops = 0
    for f in fns:
        short = f.name.rsplit("::", 1)[-1]
        for scc in f.sccs():
            n_loops += 1
            stm = [s for b in scc for s in f.blocks[b].stmts]
            driven_by_input = any(s.op == "call" and s.callee.endswith("::inc") for s in stm) or \
                any(s.op == "call" and "::inc" in s.callee for s in stm)
            range_driven = any(s.op == "call" and "Range<" in s.callee and "::next" in s.callee for s in stm)
            const_bound = any(s.op in ("Lt", "Le") and re.match(r"^const \d+_u\d+$|^const \d+_usize$", s.args[1]) for s in stm
                              if not any(a.raw.startswith("assert(move " + (s.dest or "~")) for a in stm if a.op == "assert"))
            kind = "constant-bounded" if (const_bound or range_driven) else ("input-bounded" if driven_by_input else "other")
            for s in stm:
                if s.op in ("Mul", "Add", "Sub") and s.dest and (s.dest in s.args or any(a == s.dest for a in s.args)):
                    ty = f.types.get(s.dest, "")
                    if ty not in mirfront.INT_TYPES and not re.match(r"^\(\(\*_\d+\)\.\d+: u32\)$", s.dest):
                        continue
                    ok = kind != "input-bounded"
                    name = f.names().get(s.dest, s.dest)
                    ctx.ob("RUST-ARITH.loop", f"rs:{short}/{name}:{s.op}", ok,
                           f"`{s.raw}` updates {name} in a {kind} loop" + ("" if ok else
                           ": the number of iterations is chosen by the input and the release profile has overflow-checks "
                           "= false, so the value silently wraps (use checked_mul/checked_add)"), "rust/src/parsing.rs")
    ctx.count("rust_loops", n_loops)
    # closures invoked from input-bounded loops (e.g. `.map(|v| v + digit)`) run once per input character too
    for f in fns:
        short = f.name.rsplit("::", 1)[-1]
        input_loops = [scc for scc in f.sccs() if any(s_.op == "call" and "::inc" in s_.callee for b_ in scc for s_ in f.blocks[b_].stmts)
                       and not any(s_.op in ("Lt", "Le") and re.match(r"^const \d+_u(8|16|32|size)$", s_.args[1]) for b_ in scc for s_ in f.blocks[b_].stmts)]
        if not input_loops:
            continue
        called = {m_.group(0) for scc in input_loops for b_ in scc for s_ in f.blocks[b_].stmts if s_.op == "call"
                  for m_ in re.finditer(r"\{closure@[^}]*\}", s_.raw)}
        for cname, cf in mir.fns.items():
            if f"::{short}::{{closure" not in cname:
                continue
            for _b, s_ in cf.all_stmts():
                if s_.op in ("Add", "Mul", "Sub") and cf.types.get(s_.dest or "", "") in mirfront.INT_TYPES \
                        and not all(a.startswith("const ") for a in s_.args):
                    ctx.ob("RUST-ARITH.closure", f"rs:{short}/closure:{s_.op}", False,
                           f"`{s_.raw}` inside a closure of {short} (called once per input character from an input-bounded loop) is "
                           f"unchecked: with overflow-checks off it wraps silently", "rust/src/parsing.rs")
        ctx.ob("RUST-ARITH.closure", f"rs:{short}/closures-scanned", True, f"closures called from input-bounded loops: {len(called)}", "rust/src/parsing.rs",
               nontrivial=False)
    # taint: values returned by parse_duration_number(_frac) are unbounded
    for f in fns:
        short = f.name.rsplit("::", 1)[-1]
        tainted: set[str] = set()
        res: set[str] = set()
        for _b, s in f.calls():
            if s.callee.endswith("parse_duration_number") or s.callee.endswith("parse_duration_number_frac"):
                if s.dest:
                    res.add(s.dest)
        changed = True
        while changed:
            changed = False
            for _b, s in f.all_stmts():
                if s.dest and s.dest not in tainted and s.op in ("use", "cast", "call"):
                    srcs = " ".join(s.args)
                    if s.op == "call" and not any(k in s.callee for k in ("branch", "from_residual", "into")):
                        continue
                    if any(re.search(rf"\b{re.escape(t)}\b", srcs) for t in tainted | res):
                        # keep only the integer component (tuple field 0 / plain copy)
                        tainted.add(s.dest)
                        changed = True
        ints = {t for t in tainted if f.types.get(t, "") in mirfront.INT_TYPES}
        for _b, s in f.all_stmts():
            if s.op in ("Add", "Mul", "Sub") and any(a in ints for a in s.args):
                ctx.ob("RUST-ARITH.taint", f"rs:{short}/{s.dest}:{s.op}", False,
                       f"`{s.raw}` combines an unbounded parsed number with plain {s.op} (wraps silently in release builds)",
                       "rust/src/parsing.rs")
        if res:
            ctx.ob("RUST-ARITH.taint", f"rs:{short}/scan", True, f"{len(ints)} locals carry an unbounded parsed number; none feeds plain arithmetic",
                   "rust/src/parsing.rs", nontrivial=bool(ints))


def _rust_round_last(ctx) -> None:
    """In the fraction carry chain of the compiled parser a value may be rounded only where it is turned into the
    integer number of microseconds; rounding an intermediate (minutes, seconds) discards the rest of the fraction."""
    try:
        mir = mirfront.load()
    except mirfront.MirUnavailable:
        return
    f = mir.fn("parse_duration")
    n = 0
    for _b, s in f.calls():
        if not s.callee.endswith("::round") or "f64" not in s.callee or not s.dest:
            continue
        n += 1
        res = {s.dest}
        # follow plain copies
        changed = True
        while changed:
            changed = False
            for _b2, t in f.all_stmts():
                if t.op == "use" and t.dest and t.args and t.args[0] in res and t.dest not in res:
                    res.add(t.dest)
                    changed = True
        bad = []
        for _b2, t in f.all_stmts():
            if t is s:
                continue
            if t.op in ("Sub", "Mul", "Add", "Div") and any(a in res for a in t.args):
                bad.append(t.raw)
            if t.op == "call" and any(a in res for a in t.args) and (t.callee.endswith("::trunc") or t.callee.endswith("::floor")):
                bad.append(t.raw)
        name = f.names().get(s.dest, s.dest)
        ctx.ob("ROUND-LAST", f"rs:parse_duration/round->{name}", not bad,
               f"`{s.raw[:80]}` rounds `{name}`" + (f", which then feeds {bad[:2]}: the sub-unit part of the fraction is "
               f"discarded before the microseconds are taken" if bad else " at the microsecond stage only"), "rust/src/parsing.rs")
    ctx.count("rust_round_calls", n)


def _rust_order_guards(ctx) -> None:
    """The designator-order / weeks-exclusive errors of the compiled parser must be decided from the *position* of
    the designators (a rank or flag local), never from the values already parsed: a value test lets zero-valued or
    repeated components through (PT0M1H, PT1H1H)."""
    try:
        mir = mirfront.load()
    except mirfront.MirUnavailable:
        return
    f = mir.fn("parse_duration")
    names = f.names()
    preds: dict[int, list[int]] = {}
    for b in f.blocks.values():
        for t in b.succs:
            preds.setdefault(t, []).append(b.idx)
    n = 0
    for b in f.blocks.values():
        msg = None
        for s in b.stmts:
            mm = re.search(r'const "([^"]*(?:out of order|cannot have)[^"]*)"', s.raw)
            if mm:
                msg = mm.group(1)
        if msg is None:
            continue
        # walk back through the chain of condition blocks that lead here
        seen, work, conds = set(), list(preds.get(b.idx, [])), []
        while work:
            p = work.pop()
            if p in seen:
                continue
            seen.add(p)
            pb = f.blocks[p]
            if pb.switch:
                d = [x for x in pb.stmts if x.dest == pb.switch[0]]
                if d:
                    ops = []
                    for a in d[0].args:
                        src = a
                        for _ in range(4):
                            dd = [x for x in pb.stmts if x.dest == src and x.op == "use"]
                            if not dd:
                                break
                            src = dd[0].args[0]
                        ops.append(src)
                    conds.append((d[0].op, ops, p))
                    # `a || b` chains: a predecessor that only falls through to this test
                    for q in preds.get(p, []):
                        qb = f.blocks[q]
                        if qb.switch and len(qb.stmts) <= 4 and b.idx in [t for t in qb.succs]:
                            work.append(q)
        n += 1
        value_based = [c for c in conds if any(re.match(r"^\(_\d+\.\d+: u32\)$", o) for o in c[1])]
        positional = [c for c in conds if any(names.get(o) and f.types.get(o) in ("u8", "bool", "u32", "usize") for o in c[1])]
        if not value_based and not positional:
            # decided some other way (a helper consuming a template of designators, a string comparison): nothing here says
            # it is wrong, and nothing this rule knows says it is right
            ctx.unverified("ORDER-GUARD", f"rs:parse_duration/bb{b.idx}:{msg[:40]}",
                           f"error `{msg}` is not guarded by a test on a rank / flag local ({[(c[0], [names.get(o, o) for o in c[1]]) for c in conds]})",
                           "rust/src/parsing.rs")
            continue
        ctx.ob("ORDER-GUARD", f"rs:parse_duration/bb{b.idx}:{msg[:40]}", not value_based and bool(positional),
               f"error `{msg}` is guarded by {[(c[0], [names.get(o, o) for o in c[1]]) for c in conds]}; the guard must test the position of "
               f"the last designator, not whether earlier components are non-zero" if value_based or not positional else
               f"guarded by {[(c[0], [names.get(o, o) for o in c[1]]) for c in conds]}", "rust/src/parsing.rs")
        # a rank guard must reject the rank it is about to assign: `if last_rank >= K { error } last_rank = K`
        if "out of order" in msg:
            for op, ops, gb in positional:
                loc = next((o for o in ops if names.get(o)), None)
                kc = next((mirfront.const_val(o) for o in ops if o.startswith("const ")), None)
                if loc is None or kc is None:
                    continue
                tgt = [t for t in f.blocks[gb].succs if t != b.idx]
                assigned = None
                cur, hops = (tgt[0] if tgt else None), 0
                while cur is not None and hops < 8 and assigned is None:
                    for s in f.blocks[cur].stmts:
                        if s.dest == loc and s.op == "use" and s.args[0].startswith("const "):
                            assigned = mirfront.const_val(s.args[0])
                            break
                    nxt = f.blocks[cur].succs
                    cur = nxt[0] if len(nxt) == 1 and not f.blocks[cur].switch else None
                    hops += 1
                if assigned is None:
                    ctx.unverified("ORDER-GUARD.rank", f"rs:parse_duration/bb{b.idx}", f"no `{names[loc]} = <const>` after the guard", "rust/src/parsing.rs")
                    continue
                least = kc if op == "Ge" else kc + 1 if op == "Gt" else None
                ctx.ob("ORDER-GUARD.rank", f"rs:parse_duration/rank{assigned}", least is not None and least <= assigned,
                       f"designator of rank {assigned} is refused only when {names[loc]} {'>=' if op == 'Ge' else '>' if op == 'Gt' else op} {kc}: "
                       f"a repeated designator of the same rank must be refused too (PT5M5M)", "rust/src/parsing.rs")
    ctx.count("rust_order_errors", n)


PY_DURATIONS = [   # text -> (years, months, microseconds of the rest) | None = must be refused
    ("P1Y2M3DT4H5M6S", (1, 2, ((3 * 24 + 4) * 3600 + 5 * 60 + 6) * 10**6)), ("P2W", (0, 0, 14 * 86400 * 10**6)), ("P1.5W", (0, 0, 10 * 86400 * 10**6 + 12 * 3600 * 10**6)),
    ("P1,5W", (0, 0, 10 * 86400 * 10**6 + 12 * 3600 * 10**6)), ("P1.5D", (0, 0, 36 * 3600 * 10**6)), ("P1,5D", (0, 0, 36 * 3600 * 10**6)),
    ("PT1.5H", (0, 0, 5400 * 10**6)), ("PT1,5H", (0, 0, 5400 * 10**6)), ("PT1.5M", (0, 0, 90 * 10**6)), ("PT1,5M", (0, 0, 90 * 10**6)),
    ("PT4H1,5M", (0, 0, (4 * 3600 + 90) * 10**6)), ("PT0.5S", (0, 0, 500000)), ("PT0,5S", (0, 0, 500000)), ("PT1.000001S", (0, 0, 1000001)),
    ("P1DT1.25S", (0, 0, 86400 * 10**6 + 1250000)), ("PT36H", (0, 0, 36 * 3600 * 10**6)), ("P0D", (0, 0, 0)), ("PT0S", (0, 0, 0)), ("P10Y", (10, 0, 0)),
    ("P1M", (0, 1, 0)), ("PT1M", (0, 0, 60 * 10**6)), ("P1Y1D", (1, 0, 86400 * 10**6)), ("P3DT0.25H", (0, 0, 3 * 86400 * 10**6 + 900 * 10**6)),
    ("PT2H30M", (0, 0, 9000 * 10**6)), ("P1Y2M", (1, 2, 0)), ("PT10.123456S", (0, 0, 10123456)), ("P0.25D", (0, 0, 6 * 3600 * 10**6)),
    ("PT1.1234567S", (0, 0, 1123457)), ("PT0.99999951S", (0, 0, 1000000)), ("PT0.0000004S", (0, 0, 0)), ("PT2.123456789S", (0, 0, 2123457)),
    ("P0.33W", (0, 0, 199584 * 10**6)), ("P1.25W", (0, 0, (8 * 86400 + 18 * 3600) * 10**6)), ("P0.3D", (0, 0, 25920 * 10**6)), ("PT0.1H", (0, 0, 360 * 10**6)),
    ("PT0.25M", (0, 0, 15 * 10**6)), ("P2DT0.1S", (0, 0, 2 * 86400 * 10**6 + 100000)),
    # fractions whose carry does not stop at a whole second / minute
    ("PT0.0001H", (0, 0, 360000)), ("PT1.0001H", (0, 0, 3600 * 10**6 + 360000)), ("P0.00001D", (0, 0, 864000)), ("P0.000001W", (0, 0, 604800)), ("P0.001W", (0, 0, 604800000)),
    ("PT90S", (0, 0, 90 * 10**6)), ("PT150M", (0, 0, 9000 * 10**6)), ("P40D", (0, 0, 40 * 86400 * 10**6)), ("P10DT3725S", (0, 0, (10 * 86400 + 3725) * 10**6)),
    ("PT0.001M", (0, 0, 60000)), ("PT0.0125M", (0, 0, 750000)), ("P1DT0.51H", (0, 0, 86400 * 10**6 + 1836 * 10**6)), ("PT0.505H", (0, 0, 1818 * 10**6)),
    ("P1.5Y", None), ("P1,5Y", None), ("P1.5M", None), ("P1Y1,5M", None), ("P1.0Y", None), ("P3,000M", None), ("P1Y2.0M", None), ("P0.0Y", None), ("PT1.5H30M", None), ("PT1,5H30M", None), ("P1.5DT1H", None), ("PT1.5M1S", None),
    ("P1W1D", None), ("P1WT1H", None), ("PT1M1H", None), ("P1D1Y", None), ("P1S", None), ("1D", None), ("PT1H1H", None),
    # every designator repeated, with and without a value, and every adjacent pair out of order
    ("P1Y1Y", None), ("P1M1M", None), ("P1D1D", None), ("PT5M5M", None), ("PT1S1S", None), ("P1W1W", None), ("P0Y0Y", None), ("P0M0M", None), ("P0D0D", None), ("PT0H0H", None),
    ("PT0M0M", None), ("PT0S0S", None), ("P1M1Y", None), ("P1D1M", None), ("PT1S1M", None), ("PT1S1H", None), ("PT0S5M", None), ("PT0M5H", None), ("P0D5M", None), ("P0M5Y", None),
    ("PT1H5M5M", None), ("PT5M10M30S", None), ("P1Y2M3D", (1, 2, 3 * 86400 * 10**6)), ("PT4H5M6S", (0, 0, (4 * 3600 + 5 * 60 + 6) * 10**6)), ("P1YT1S", (1, 0, 10**6)), ("P1MT1M", (0, 1, 60 * 10**6)),
]


def _duration_table(ctx) -> list:
    """the strings of PYDUR.tabulated / RSDUR.tabulated with the value each denotes (None: must be refused)"""
    table = list(PY_DURATIONS)
    if ctx.tier == "thorough":
        # generated: every subset of designators with small values, the smallest one given with '.' / ',' fractions of 1-9 digits
        from fractions import Fraction as Fr
        units = [("Y", None), ("M", None), ("D", 86400), ("H", 3600), ("M", 60), ("S", 1)]
        vals = (0, 1, 7, 59)
        fracs = ("5", "25", "125", "000001", "999999", "1234567", "999999949", "000000501")
        for mask in range(1, 64):
            for v in vals:
                parts_d, parts_t, y, mo, rest = "", "", 0, 0, Fr(0)
                present = [i for i in range(6) if mask >> i & 1]
                for i in present:
                    letter, secs = units[i]
                    txt = f"{v + i}{letter}"
                    if i < 3:
                        parts_d += txt
                    else:
                        parts_t += txt
                    if i == 0:
                        y = v + i
                    elif i == 1:
                        mo = v + i
                    else:
                        rest += (v + i) * secs
                text = "P" + parts_d + ("T" + parts_t if parts_t else "")
                table.append((text, (y, mo, int(rest * 10**6))))
                last = present[-1]
                if last >= 2 and v == 1:
                    for fr in fracs:
                        for sep in ".,":
                            letter, secs = units[last]
                            t2 = text[:-1] + sep + fr + letter
                            exact = rest + Fr(int(fr), 10**len(fr)) * secs
                            us_ = exact * 10**6
                            if abs((us_ % 1) - Fr(1, 2)) < Fr(1, 1000):
                                continue        # too close to a tie for a float computation: not a reference value
                            table.append((t2, (y, mo, round(us_))))
    return table


def _rs_duration_tabulate(ctx) -> None:
    """RSDUR.tabulated: the compiled duration parser decided on values: the MIR of python::parsing::parse_iso8601 and of what it reaches
    (Parser::parse_duration, parse_duration_number(_frac), add_duration_value, the carry of a fraction into the smaller units) is
    evaluated by the checker's MIR evaluator (pvs/mirexec.py; f64 arithmetic is the host's IEEE double, trunc / round as in Rust) on the
    table of PYDUR.tabulated.  Accepted strings must yield the given years and months and a rest equal to the exact value in
    microseconds; refused ones an Err (the binding's ValueError)."""
    from .. import mirexec, mirsym
    from . import C07
    rel = "rust/src/parsing.rs"
    try:
        mir = mirfront.load()
    except mirfront.MirUnavailable:
        return
    bad, n = [], 0
    try:
        sf = mirsym.struct_fields_from_source((core.REPO / rel).read_text())
        f = mir.fn("parse_iso8601")
        ext = C07.pyo3_models()
        for text, want in _duration_table(ctx):
            M = mirexec.Machine(mir, sf)
            M.ext = ext
            n += 1
            try:
                r = M.run(f, [mirexec.Opaque(), text])
            except mirexec.Panic as e:
                bad.append(f"{text!r}: the compiled parser panics ({e})")
                continue
            if not isinstance(r, mirexec.Enum) or r.variant not in ("Ok", "Err"):
                raise core.Unsupported(f"result {r!r}")
            if r.variant == "Err":
                if want is not None:
                    bad.append(f"{text!r} is refused; it denotes years={want[0]} months={want[1]} and {want[2]} microseconds")
                continue
            d = r.payload[0]
            if want is None:
                bad.append(f"{text!r} is accepted; it must be refused")
                continue
            if not isinstance(d, mirexec.Struct) or "microseconds" not in d.names:
                bad.append(f"{text!r} is read as {d!r}, not as a duration")
                continue
            us = (((d.get("weeks") * 7 + d.get("days")) * 24 + d.get("hours")) * 60 + d.get("minutes")) * 60 * 10**6 + d.get("seconds") * 10**6 + d.get("microseconds")
            # parser.py reads the record through its getters remaining_days / remaining_seconds: they must hand out the fields
            for getter, fld in (("remaining_days", "days"), ("remaining_seconds", "seconds")):
                gf = [f_ for n_, f_ in mir.fns.items() if n_.endswith("::" + getter) and "__pymethod" not in n_ and "duration" in n_]
                if len(gf) == 1:
                    gv = mirexec.Machine(mir, sf).run(gf[0], [mirexec.Ref([d], 0)])
                    if not (isinstance(gv, mirexec.Enum) and gv.variant == "Ok" and gv.payload[0] == d.get(fld)):
                        bad.append(f"{text!r}: the record's {getter} answers {gv.payload[0] if isinstance(gv, mirexec.Enum) and gv.payload else gv!r}, its {fld} field is {d.get(fld)}")
            if (d.get("years"), d.get("months"), us) != want:
                bad.append(f"{text!r} -> years={d.get('years')} months={d.get('months')} and {us} microseconds (expected {want[0]}, {want[1]}, {want[2]})")
    except (core.Unsupported, core.AnchorMissing, KeyError, TypeError, AttributeError, IndexError, ValueError, RecursionError) as e:
        ctx.unverified("RSDUR.tabulated", "rs:parse_duration", f"outside the MIR evaluator: {type(e).__name__}: {str(e)[:200]}", rel)
        return
    ctx.ob("RSDUR.tabulated", "rs:parse_duration", not bad, f"{n} duration strings evaluated on the MIR of the compiled parser: " + ("; ".join(bad[:3]) if bad else
           "every accepted string yields its exact value, every malformed one is refused"), rel)
    if not bad:
        ctx.established(("FRACTION-SCALE", "ORDER-GUARD", "ROUND-LAST"), "rs:parse_duration", "RSDUR.tabulated")


def _py_duration_tabulate(ctx) -> None:
    """PYDUR.tabulated: the pure-Python duration parser `_parse_iso8601_duration` is run by the checker's interpreter (the
    pattern ISO8601_DURATION is matched by the standard library's `re`; Duration(...) only records its arguments) on a table
    of duration strings - every designator, '.' and ',' fractions on every component that may carry one, week form,
    zero values - and on strings that must be refused (fractional years / months, a fraction that is not on the smallest
    component, mixed week form, designators out of order or repeated).  Accepted strings must yield the given years and
    months and a rest equal to the exact value in microseconds (the arguments are summed with the standard library's
    timedelta, which is what Duration.__new__ does with them - C09)."""
    import datetime as _dt
    from ..rules import minieval
    m = pmod("parsing.iso8601")
    fn = m.func("_parse_iso8601_duration")
    try:
        pat = re.compile(core.const("parsing.iso8601", "ISO8601_DURATION"), re.VERBOSE)
        consts = minieval.module_consts(m)
        entry = m.func("parse_iso8601") if m.has_func("parse_iso8601") else None
        try:
            dt_pat = re.compile(core.const("parsing.iso8601", "ISO8601_DT"), re.VERBOSE)
        except core.Unsupported:
            entry = None
        bad, n = [], 0
        table = _duration_table(ctx)
        for text, want in table:
            def dur(*a, **k):
                # the recorded constructor call; a Duration is a timedelta: false when its length is zero
                y_, mo_ = k.get("years", 0), k.get("months", 0)
                rest = {x: v for x, v in k.items() if x not in ("years", "months")}
                return minieval.Stub(_args=a, _kws=k, _types=(_dt.timedelta,), _truth=bool(a) or (_dt.timedelta(days=365 * y_ + 30 * mo_) + _dt.timedelta(**rest)) != _dt.timedelta(0))
            glob = {**consts, "ISO8601_DURATION": pat, "ParserError": ValueError, "ValueError": ValueError,
                    "Duration": minieval.ClassStub(_new=dur, _isa=lambda v: isinstance(v, minieval.Stub) and hasattr(v, "_kws"))}
            funcs = {st.name: st for st in m.top() if isinstance(st, ast.FunctionDef)}
            n += 1
            try:
                got = minieval.call(fn, [text], {}, {**funcs, "$globals": glob})
                if entry is not None and got is not None:
                    # the same string through the entry point parse_iso8601 (it tries the duration form first): the same value must come out
                    g2 = {**glob, "ISO8601_DT": dt_pat, "datetime": minieval.Stub(datetime=_dt.datetime, date=_dt.date, time=_dt.time, timedelta=_dt.timedelta),
                          "UTC": _dt.timezone.utc, "FixedTimezone": minieval.ClassStub(_new=lambda off, *a, **k: _dt.timezone(_dt.timedelta(seconds=off)), _isa=lambda v: False), "Timezone": None}
                    try:
                        via = minieval.call(entry, [text], {}, {**funcs, "$globals": g2})
                    except minieval.Raised as e2:
                        via = ("raise", e2.exc_name)
                    if not (isinstance(via, minieval.Stub) and getattr(via, "_kws", None) == got._kws):
                        bad.append(f"{text!r}: parse_iso8601 gives {via[1] if isinstance(via, tuple) else via!r} although the duration form is recognised ({got._kws})")
                        continue
            except minieval.Raised as e:
                if want is not None:
                    bad.append(f"{text!r} is refused ({e.exc_name}); it denotes years={want[0]} months={want[1]} and {want[2]} microseconds")
                continue
            if got is None:
                if want is not None:
                    bad.append(f"{text!r} is not recognised as a duration")
                continue
            if want is None:
                bad.append(f"{text!r} is accepted; it must be refused")
                continue
            if got._args:
                raise core.Unsupported("Duration called positionally")
            k = dict(got._kws)
            y, mo = k.pop("years", 0), k.pop("months", 0)
            td = _dt.timedelta(**k)
            us = (td.days * 86400 + td.seconds) * 10**6 + td.microseconds
            if (y, mo, us) != want:
                bad.append(f"{text!r} -> years={y} months={mo} and {us} microseconds (expected {want[0]}, {want[1]}, {want[2]})")
    except (core.Unsupported, KeyError, TypeError, AttributeError, ValueError, IndexError, re.error) as e:
        ctx.unverified("PYDUR.tabulated", "_parse_iso8601_duration", f"outside the checker's interpreter: {type(e).__name__}: {e}", m.loc(fn))
        return
    ctx.ob("PYDUR.tabulated", "_parse_iso8601_duration", not bad, f"{n} duration strings: " + ("; ".join(bad[:3]) if bad else
           "every accepted string yields its exact value, every malformed one is refused"), m.loc(fn))
    if not bad:
        ctx.established(("FRACTION-SCALE", "FRACTION.last-only", "FRACTION.ym", "FRACTION.round", "WEEKS.exclusive", "FRACTION"), "py:duration", "PYDUR.tabulated")


def _rust_fraction_radix(ctx) -> None:
    """FRACTION-SCALE (rs): in the compiled duration parser a fraction is carried down unit by unit in floating point -
    `extra = fraction * K; whole = extra.trunc(); duration.<unit> += whole as u32; ...`.  By dataflow over MIR: every value
    `x * K` (K a float literal) that reaches, through trunc()/round() and the cast to u32, the `+=` of a duration field must
    use the radix of that field: days 7 (from weeks), hours 24, minutes 60, seconds 60, microseconds 1e6."""
    try:
        mir = mirfront.load()
    except mirfront.MirUnavailable:
        return
    from .. import mirsym
    rel = "rust/src/parsing.rs"
    f = mir.fn("parse_duration")
    sf = mirsym.struct_fields_from_source((core.REPO / rel).read_text())
    fields = sf.get("ParsedDuration") or []
    radix = {"days": 7.0, "hours": 24.0, "minutes": 60.0, "seconds": 60.0, "microseconds": 1e6}
    defs = {}
    for b, st in f.all_stmts():
        if st.dest:
            defs.setdefault(st.dest, []).append(st)
    n = 0
    for b, st in f.all_stmts():
        mo = re.fullmatch(r"\(_\d+\.(\d+): u32\)", st.dest or "")
        if not (mo and st.op == "Add" and len(st.args) == 2 and st.args[0] == st.dest):
            continue
        fld = fields[int(mo.group(1))] if int(mo.group(1)) < len(fields) else None
        src = st.args[1]
        cast = [d for d in defs.get(src, []) if d.op == "cast" and "FloatToInt" in d.args]
        if not cast or fld is None:
            continue
        t = [d for d in defs.get(cast[0].args[0], []) if d.op == "call" and re.search(r"::(trunc|round)$", d.callee.split("(")[0])]
        mul = [d for d in defs.get(t[0].args[0], []) if d.op == "Mul"] if t else []
        k = None
        if mul:
            km = re.fullmatch(r"const ([0-9.E+\-]+)f64", mul[0].args[1])
            k = float(km.group(1)) if km else None
        n += 1
        if k is None:
            ctx.unverified("FRACTION-SCALE", f"rs:parse_duration/{fld}@bb{b.idx}", f"the value added to {fld} is not `x * <float literal>` truncated / rounded", rel)
            continue
        ctx.ob("FRACTION-SCALE", f"rs:parse_duration/{fld}@bb{b.idx}", fld in radix and k == radix[fld],
               f"a fractional carry of `x * {k:g}` is added to duration.{fld}; one unit above {fld} holds {radix.get(fld, '?'):g} of them", rel)
    ctx.count("rust_fraction_carries", n)


def parse_results_tabulate(ctx) -> bool | None:
    """PARSE.tabulated: parser._parse run by the checker's interpreter on every kind of value the low-level parser can hand it (standard
    library datetime naive and aware, date, time; a pendulum Duration; the compiled parser's Duration record), with and without a tz
    option; pendulum.datetime / date / time / duration only record their arguments.  A datetime must be rebuilt field by field with
    tz = its own tzinfo, else the option, else UTC; a date and a time field by field; a Duration is handed on; the compiled record
    becomes pendulum.duration(...) with each of the eight components from its own field."""
    import datetime as _dt
    from ..rules import minieval
    S = minieval.Stub
    m = pmod("parser")
    fn = m.func("_parse")
    UTCm, TZm = S(_name="UTC"), S(_name="tz option")
    off = _dt.timezone(_dt.timedelta(hours=5, minutes=30))
    dur = S(_kind="duration")
    rs = S(_kind="rsduration", years=1, months=2, weeks=3, days=4, hours=5, minutes=6, seconds=7, microseconds=8)
    rec = lambda name: (lambda *a, **k: (name, a, k))      # noqa: E731
    bad, n = [], 0
    try:
        for opt in ({}, {"tz": TZm}):
            tzw = opt.get("tz", UTCm)
            cases = [("a naive datetime", _dt.datetime(2021, 3, 7, 14, 5, 9, 123456), ("datetime", (2021, 3, 7, 14, 5, 9, 123456), {"tz": tzw})),
                     ("an aware datetime", _dt.datetime(2021, 3, 7, 14, 5, 9, 123456, tzinfo=off), ("datetime", (2021, 3, 7, 14, 5, 9, 123456), {"tz": off})),
                     ("a UTC datetime", _dt.datetime(1999, 12, 31, 23, 59, 59, 1, tzinfo=_dt.timezone.utc), ("datetime", (1999, 12, 31, 23, 59, 59, 1), {"tz": _dt.timezone.utc})),
                     ("a date", _dt.date(2020, 2, 29), ("date", (2020, 2, 29), {})), ("a time", _dt.time(23, 4, 5, 6), ("time", (23, 4, 5, 6), {})),
                     ("a pendulum Duration", dur, dur),
                     ("the compiled parser's duration", rs, ("duration", (), dict(years=1, months=2, weeks=3, days=4, hours=5, minutes=6, seconds=7, microseconds=8)))]
            for label, parsed, want in cases:
                glob = {"base_parse": lambda *a_, _p=parsed, **k_: _p,
                        "pendulum": S(datetime=rec("datetime"), date=rec("date"), time=rec("time"), duration=rec("duration"), instance=rec("instance"), interval=rec("interval"), now=rec("now")),
                        "datetime": S(datetime=_dt.datetime, date=_dt.date, time=_dt.time),
                        "_Interval": minieval.ClassStub(_new=None, _isa=lambda v: False),
                        "Duration": minieval.ClassStub(_new=None, _isa=lambda v: isinstance(v, S) and getattr(v, "_kind", "") == "duration"),
                        "RustDuration": minieval.ClassStub(_new=None, _isa=lambda v: isinstance(v, S) and getattr(v, "_kind", "") == "rsduration"),
                        "UTC": UTCm, "t": S(cast=lambda ty, v: v, Any=None, Callable=None), "ParserError": ValueError, "NotImplementedError": ValueError}
                funcs = {st.name: st for st in m.top() if isinstance(st, ast.FunctionDef)}
                minieval.module_tables(m, glob, funcs)
                n += 1
                try:
                    got = minieval.call(fn, ["x"], dict(opt), {**funcs, "$globals": glob})
                except minieval.Raised as e:
                    bad.append(f"{label}{' with a tz option' if opt else ''}: raises {e.exc_name}")
                    continue
                if isinstance(got, tuple) and len(got) == 3 and isinstance(want, tuple):
                    # positional and keyword arguments bound to the constructor's parameter order
                    order = {"datetime": ["year", "month", "day", "hour", "minute", "second", "microsecond"], "date": ["year", "month", "day"],
                             "time": ["hour", "minute", "second", "microsecond"], "duration": []}.get(got[0], [])
                    kw = dict(zip(order, got[1]))
                    kw.update(got[2])
                    wkw = dict(zip(order, want[1]))
                    wkw.update(want[2])
                    ok = got[0] == want[0] and len(got[1]) <= len(order) and {k: v for k, v in kw.items()} == wkw
                else:
                    ok = got is want
                if not ok:
                    bad.append(f"{label}{' with a tz option' if opt else ''}: {got!r} (expected {want!r})")
    except (core.Unsupported, KeyError, TypeError, AttributeError, ValueError, IndexError, RecursionError) as e:
        ctx.unverified("PARSE.tabulated", "parser._parse", f"outside the checker's interpreter: {type(e).__name__}: {e}", m.loc(fn))
        return None
    ctx.ob("PARSE.tabulated", "parser._parse", not bad, f"{n} (kind of parsed value, tz option) cases: " + ("; ".join(bad[:3]) if bad else
           "each rebuilt field by field as the pendulum value of its kind; a datetime in its own offset, else the tz option, else UTC"), m.loc(fn))
    if not bad:
        ctx.established(("FUNNEL.parse", "LADDER.exhaustive", "ATTRS.rust-to-py"), "parser._parse", "PARSE.tabulated")
    return not bad


def _interval_tabulate(ctx, m, fn) -> bool:
    """INTERVAL.tabulated: parser._parse is run by the checker's interpreter on the three interval forms the low-level parser
    can hand it (start/end, start/duration, duration/end; stubs that only record what is done to them), with and without a
    tz option: the result must be interval(start, end) - not absolute - with every bound taken through
    pendulum.instance(bound, tz=<the option, default UTC>) and the missing bound computed from the given one by add() /
    subtract() with the eight components of the duration, each from its own accessor.  False: outside the interpreter."""
    from ..rules import minieval
    S = minieval.Stub
    comps = {"years": 1, "months": 2, "weeks": 3, "remaining_days": 4, "hours": 5, "minutes": 6, "remaining_seconds": 7, "microseconds": 8}
    want_kw = {k: comps[v] for k, v in COMP.items()}
    UTCm, TZm = S(_name="UTC"), S(_name="tz option")
    kinds = {"datetime": ("datetime", "date"), "date": ("date",), "time": ("time",)}

    def klass(name):
        return minieval.ClassStub(_new=lambda *a, **k: (_ for _ in ()).throw(core.Unsupported(f"{name}() constructed")),
                                  _isa=lambda v, n=name: isinstance(v, S) and n in kinds.get(getattr(v, "_kind", ""), ()))

    def instance(x, tz=None, **k):
        def shift(op):
            return lambda **kw: S(_shift=(op, me, kw))
        me = S(_of=x, _tz=tz, tzinfo=tz)
        vars(me)["add"], vars(me)["subtract"] = shift("add"), shift("subtract")
        return me
    bad: list[str] = []
    n = 0
    try:
        for form in ("start/end", "start/duration", "duration/end", "start/zero duration", "zero duration/end"):
            for opt in ({}, {"tz": TZm}):
                a, b = S(_kind="datetime", _id="A", tzinfo=None), S(_kind="datetime", _id="B", tzinfo=None)
                zero = "zero" in form
                form = form.replace("zero ", "")
                dur = S(_kind="duration", days=0 if zero else 99, seconds=0 if zero else 98, total_seconds=lambda z=zero: 0.0 if z else 97.0, _types=(__import__("datetime").timedelta,),
                        _truth=not zero, **comps)
                parsed = S(_iv=True, start=a if form != "duration/end" else None, end=b if form != "start/duration" else None,
                           duration=None if form == "start/end" else dur)
                glob = {"base_parse": minieval.ClassStub(_new=lambda *a_, **k_: parsed, _isa=lambda v: False),
                        "pendulum": S(instance=instance, interval=lambda x, y, absolute=False: S(_interval=(x, y, absolute)),
                                      now=lambda *a_, **k_: S(), datetime=lambda *a_, **k_: S(), date=lambda *a_, **k_: S(), time=lambda *a_, **k_: S(),
                                      duration=lambda *a_, **k_: S()),
                        "datetime": S(datetime=klass("datetime"), date=klass("date"), time=klass("time")),
                        "_Interval": minieval.ClassStub(_new=lambda *a_, **k_: S(), _isa=lambda v: isinstance(v, S) and getattr(v, "_iv", False)),
                        "Duration": minieval.ClassStub(_new=lambda *a_, **k_: S(), _isa=lambda v: isinstance(v, S) and getattr(v, "_kind", "") == "duration"),
                        "RustDuration": None, "UTC": UTCm, "t": S(cast=lambda ty, v: v, Any=None), "ParserError": ValueError, "NotImplementedError": ValueError}
                funcs = {st.name: st for st in m.top() if isinstance(st, ast.FunctionDef)}
                minieval.module_tables(m, glob, funcs)
                got = minieval.call(fn, ["x/y"], dict(opt), {**funcs, "$globals": glob})
                n += 1
                tzw = opt.get("tz", UTCm)
                label = f"{form}{' (a duration of length zero)' if zero else ''}{' with tz=' if opt else ''}"
                iv = getattr(got, "_interval", None)
                if iv is None:
                    bad.append(f"{label}: does not return pendulum.interval(...)")
                    continue
                x, y, absolute = iv
                if absolute:
                    bad.append(f"{label}: the interval is built with absolute={absolute!r}: reversed endpoints come back swapped")

                def bound(v, which):
                    if getattr(v, "_of", None) is None:
                        return f"{which} is not pendulum.instance(<bound>)"
                    if v._of is not (a if which == "start" else b):
                        return f"{which} is built from the other bound"
                    if v._tz is not tzw:
                        return f"{which} is given tz={getattr(v._tz, '_name', v._tz)!r} instead of the tz option (default UTC)"
                    return ""

                def shifted(v, op, base_which):
                    sh = getattr(v, "_shift", None)
                    if sh is None:
                        return "the missing bound is not computed with add()/subtract()"
                    if sh[0] != op:
                        return f"the missing bound is computed with {sh[0]}() instead of {op}()"
                    if sh[2] != want_kw:
                        return f"the missing bound is computed with {sh[2]}; the duration's components are {want_kw}"
                    return bound(sh[1], base_which)
                if form == "start/end":
                    errs = [bound(x, "start"), bound(y, "end")]
                elif form == "start/duration":
                    errs = [bound(x, "start"), shifted(y, "add", "start")]
                else:
                    errs = [shifted(x, "subtract", "end"), bound(y, "end")]
                bad += [f"{label}: {e}" for e in errs if e]
    except (core.Unsupported, KeyError, TypeError, AttributeError, ValueError, IndexError, RecursionError) as e:
        ctx.unverified("INTERVAL.tabulated", "parser._parse", f"outside the checker's interpreter: {type(e).__name__}: {str(e)[:160]}", m.loc(fn))
        return False
    ctx.ob("INTERVAL.tabulated", "parser._parse", not bad,
           f"{n} (form, tz option) cases: " + ("; ".join(bad[:3]) if bad else "interval(start, end), bounds through pendulum.instance(.., tz=option or UTC), "
           "the missing bound by add()/subtract() of the eight components"), m.loc(fn))
    return not bad


def _interval_assembly(ctx) -> None:
    m = pmod("parser")
    fn = m.func("_parse")
    tab = _interval_tabulate(ctx, m, fn)
    if tab:
        ctx.established(("INTERVAL.assembly", "INTERVAL.tz"), "parser._parse", "INTERVAL.tabulated")
        for c_ in ("dt.add", "dt.subtract", "forms"):
            ctx.ob("INTERVAL.assembly", f"parser._parse/{c_}", True, "established by INTERVAL.tabulated", m.rel, nontrivial=False)
        ctx.ob("INTERVAL.tz", "parser._parse/instances", True, "established by INTERVAL.tabulated", m.rel, nontrivial=False)
    else:
        _interval_assembly_shape(ctx, m, fn)
    _interval_attrs(ctx, m, fn)


def _interval_assembly_shape(ctx, m, fn) -> None:
    calls = {}
    for c in core.calls(fn):
        f = nun(c.func)
        if f in ("dt.add", "dt.subtract"):
            calls[f] = c
    want = {k: f"duration.{v}" for k, v in COMP.items()}
    for f in ("dt.add", "dt.subtract"):
        c = calls.get(f)
        if c is None:
            ctx.ob("INTERVAL.assembly", f"parser._parse/{f}", False, f"{f}(...) not found", m.loc(fn))
            continue
        got = {k: nun(v) for k, v in core.kw(c).items()}
        ctx.ob("INTERVAL.assembly", f"parser._parse/{f}", got == want and not c.args,
               f"{f}({got}); the missing endpoint must be computed from all 8 components of the parsed duration", m.loc(c))
    # which method serves which form
    src = un(fn)
    i_start = src.find("if parsed.start is not None")
    ok = i_start > 0 and src.find("dt.add(") > i_start and src.find("dt.subtract(") > src.find("dt.add(")
    ctx.ob("INTERVAL.assembly", "parser._parse/forms", ok, "start/duration must use add(), duration/end must use subtract()", m.loc(fn))
    for c in core.calls(fn):
        if nun(c.func) == "pendulum.interval" and len(c.args) == 2:
            a0, a1 = (nun(a).split("(")[0] for a in c.args)
            ok2 = (a0, a1) in (("dt", "dt.add"), ("dt.subtract", "dt"), ("pendulum.instance", "pendulum.instance"))
            ctx.ob("INTERVAL.assembly", f"parser._parse/interval({a0}..,{a1}..)", ok2,
                   "interval(start, end): the computed endpoint must be on the right side", m.loc(c))
    insts = [c for c in core.calls(fn) if nun(c.func) == "pendulum.instance"]
    for i_, c in enumerate(insts):
        tzv = nun(core.kw(c).get("tz"))
        ctx.ob("INTERVAL.tz", f"parser._parse/pendulum.instance[{i_}]", tzv == "options.get('tz', UTC)",
               f"`{nun(c)[:70]}` passes tz={tzv}; every interval bound without its own offset takes the tz option (default UTC)", m.loc(c))
    ctx.ob("INTERVAL.tz", "parser._parse/instances", len(insts) >= 4, f"{len(insts)} interval bounds are wrapped with pendulum.instance", m.loc(fn), nontrivial=False)


def _interval_attrs(ctx, m, fn) -> None:
    # attribute agreement for the duration object
    need = set(COMP.values())
    pyi = core.mod("src/pendulum/_pendulum.pyi")
    stub = {t.id for st in pyi.cls("Duration").body if isinstance(st, (ast.AnnAssign,)) for t in [st.target] if isinstance(t, ast.Name)}
    ctx.ob("ATTRS.duration", "_pendulum.pyi/Duration", need <= stub, f"missing in the stub: {sorted(need - stub)}", pyi.rel)
    rs = (core.REPO / "rust/src/python/types/duration.rs").read_text()
    fields = set(re.findall(r"#\[pyo3\(get(?:, set)?\)\]\s*pub (\w+):", rs)) | set(re.findall(r"#\[getter\]\s*fn (\w+)\(", rs))
    ctx.ob("ATTRS.duration", "rust/Duration", need <= fields, f"missing getters in the Rust class: {sorted(need - fields)}",
           "rust/src/python/types/duration.rs")
    dm = pmod("duration")
    have = set(dm.methods("Duration"))
    ctx.ob("ATTRS.duration", "pendulum.Duration", need <= have, f"missing properties: {sorted(need - have)}", dm.rel)
    # RustDuration -> pendulum.duration
    for c in core.calls(fn):
        if nun(c.func) == "pendulum.duration":
            got = {k: nun(v) for k, v in core.kw(c).items()}
            w = {k: f"parsed.{k}" for k in COMP}
            ctx.ob("ATTRS.rust-to-py", "parser._parse/pendulum.duration", got == w,
                   f"{got}; the compiled Duration's raw fields must be passed unit for unit", m.loc(c))


def run(ctx) -> None:
    ctx.explanation = EXPLANATION
    ctx.step(_py_duration_tabulate, ctx)
    ctx.step(_rs_duration_tabulate, ctx)
    ctx.step(_fraction_scale, ctx)
    ctx.step(_rust_arith, ctx)
    ctx.step(_rust_fraction_radix, ctx)
    ctx.step(_rust_round_last, ctx)
    ctx.step(_rust_order_guards, ctx)
    ctx.step(parse_results_tabulate, ctx)
    ctx.step(_interval_assembly, ctx)
    from . import C17
    ctx.step(C17._interval_types, ctx, True)        # which halves reach _Interval, and that the three well-formed shapes are accepted
    from . import C09
    ctx.step(C09._duration_new, ctx)        # 'a remaining length equal to the exact value rounded to the microsecond': every parsed duration is built through Duration.__new__
    ctx.expect_min("FRACTION-SCALE", 21)
    ctx.expect_min("PYDUR.tabulated", 1)
    ctx.expect_min("INTERVAL.assembly", 3)
    ctx.expect_min("INTERVAL.tabulated", 1)
    ctx.expect_min("RUST-ARITH", 4)
    ctx.assumptions += ["rust/Cargo.toml's release profile (overflow-checks=false) is what the shipped extension is built with"]
