#!/venv/bin/python
import json, os, sys
sys.path.insert(0, os.path.dirname(os.path.dirname(os.path.abspath(__file__))))
sys.dont_write_bytecode = True
from pvs.registry import CLAIMS, PENDING_REASON, NOT_APPLICABLE, VALUE_RULES  # noqa
ids = [json.loads(l)["id"] for l in open("/verif/properties.jsonl")]
checks, na = [], []
for i in ids:
    if i in CLAIMS:
        c = CLAIMS[i]
        checks.append({
            "property_id": i,
            "quick_cmd": f"./check {i} --tier quick",
            "thorough_cmd": f"./check {i} --tier thorough",
            "evidence_file": f"/verif/evidence/{i}.json",
            "replay_cmd_template": f"./check {i} --replay {{path}}",
            "engine": "pvs",
            "level_claimed": {"category": "other", "text": c["text"] + (" " + VALUE_RULES[i] if i in VALUE_RULES else ""), "design_ref": f"DESIGN.md section 4, {i}"},
            "level_note": c["note"],
            "technique": c["technique"],
        })
    else:
        na.append({"property_id": i, "reason": NOT_APPLICABLE.get(i, PENDING_REASON)})
man = {
    "version": 1,
    "setup_cmd": "./setup.sh",
    "hooks": {
        "guard": "PENDULUM_VERIF",
        "enable": "none needed: the checks read the source of /repo's working tree (ast / rustc MIR); no instrumentation is compiled in and the guard variable is never consulted",
        "baseline_off_cmd": "cd /repo && /venv/bin/python -m pytest -ra -q -p no:cacheprovider --timeout=900 --continue-on-collection-errors",
        "source_commits": json.load(open("/verif/known_findings.json")).get("fix_commits", []) if os.path.exists("/verif/known_findings.json") else [],
        "add_only": True,
    },
    "engines": [{
        "name": "pvs", "path": "/verif/pvs", "serves_properties": sorted(CLAIMS),
        "kind_free_text": "repository-specific static analysis: Python ast front end with constant folding, resolved call binding, small CFG/path enumeration, regex-AST analysis, locale-literal closure, an equivalence engine against a frozen reference snapshot (canonical path summaries), and the analyser's own interpreter over ast (instance-stub worlds for durations, calendar navigation, wall-clock units, times) used to tabulate the analysed source on finite input tables; Rust through rustc MIR text (loops, integer updates, comparison operators), symbolic execution of MIR blocks into path summaries and their numeric evaluation",
    }],
    "checks": checks,
    "not_applicable": na,
    "notes": "Static analysis only: no check imports, runs, fuzzes or hands pendulum to a solver; the source is read (ast, rustc MIR) and, for the value rules, evaluated by the analyser's own interpreter on finite tables. Each check says in its evidence which clauses it decides and which are outside the claim.",
}
json.dump(man, open("/verif/MANIFEST.json", "w"), indent=1)
print("checks:", [c["property_id"] for c in checks], "n/a:", len(na))
