"""Time.closest()/farthest() must compare the distance at full resolution.
Expected results are computed with datetime/timedelta of the standard library."""
import itertools
import sys
from datetime import datetime, time

import pendulum

failures = []


def dist(a, b):
    d = datetime(2000, 1, 1)
    return abs(datetime.combine(d, a) - datetime.combine(d, b))


def fields(t):
    return (t.hour, t.minute, t.second, t.microsecond)


# hand-computed example of the report: 0.1 s is closer to 12:00:00 than 0.9 s
base = pendulum.time(12, 0, 0)
far, near = pendulum.time(12, 0, 0, 900000), pendulum.time(12, 0, 0, 100000)
if fields(base.closest(far, near)) != (12, 0, 0, 100000):
    failures.append(("closest hand", str(base.closest(far, near))))
if fields(base.closest(near, far)) != (12, 0, 0, 100000):
    failures.append(("closest hand swapped", str(base.closest(near, far))))
if fields(base.farthest(far, near)) != (12, 0, 0, 900000):
    failures.append(("farthest hand", str(base.farthest(far, near))))
if fields(base.farthest(near, far)) != (12, 0, 0, 900000):
    failures.append(("farthest hand swapped", str(base.farthest(near, far))))

points = [
    time(0, 0, 0, 0), time(0, 0, 0, 1), time(11, 59, 59, 400000), time(11, 59, 59, 999999),
    time(12, 0, 0, 0), time(12, 0, 0, 1), time(12, 0, 0, 100000), time(12, 0, 0, 900000),
    time(12, 0, 1, 0), time(12, 0, 1, 500000), time(13, 30, 0, 0), time(23, 59, 59, 999999),
]
for b, x, y in itertools.product(points, repeat=3):
    pb = pendulum.time(b.hour, b.minute, b.second, b.microsecond)
    dx, dy = dist(b, x), dist(b, y)
    got_c = pb.closest(x, y)
    got_f = pb.farthest(x, y)
    if not isinstance(got_c, pendulum.Time) or not isinstance(got_f, pendulum.Time):
        failures.append(("type", b, x, y))
    # on a tie the second candidate is returned (unchanged behaviour)
    want_c = x if dx < dy else y
    want_f = x if dx > dy else y
    if fields(got_c) != fields(want_c):
        failures.append(("closest", b, x, y, str(got_c)))
    if fields(got_f) != fields(want_f):
        failures.append(("farthest", b, x, y, str(got_f)))

for f in failures[:20]:
    print("FAIL", f)
print("ok" if not failures else f"{len(failures)} failures")
sys.exit(1 if failures else 0)
