"""A small evaluator of rustc's MIR (the unoptimised MIR text mirfront parses), used by the value rules on the compiled helpers:
the checker reads the basic blocks of the analysed crate and computes what they denote on a table of inputs - nothing of the crate
is compiled into or run by the checker.  Integers wrap at the width of their MIR type (the crate is built with overflow checks
off), `/` and `%` truncate, `as` casts follow Rust (integer casts wrap, float -> integer saturates).  The standard-library
functions the crate calls are modelled here one by one (iterators over a str / a range, char::to_digit, Option / Result plumbing
of the `?` operator, checked arithmetic, f64 rounding); text formatting (error messages) is opaque.  Anything else raises
Unsupported, and the rule that uses the evaluator answers UNVERIFIED."""
from __future__ import annotations

import copy as _copy
import math
import re
from dataclasses import dataclass, field
from typing import Any

from . import core
from .core import Unsupported
from .mirfront import Mir, MirFn, _split_args

INT_BITS = {"u8": 8, "u16": 16, "u32": 32, "u64": 64, "usize": 64, "u128": 128, "i8": 8, "i16": 16, "i32": 32, "i64": 64, "isize": 64, "i128": 128}
VARIANTS = {"None": 0, "Some": 1, "Ok": 0, "Err": 1, "Continue": 0, "Break": 1, "Less": -1, "Equal": 0, "Greater": 1}


_CONSTS: dict[str, dict] = {}
_EXT_CACHE: dict[int, tuple] = {}


class Panic(Exception):
    """the evaluated code panics (an assert of the MIR fails, an unwrap of None ...)"""


@dataclass(eq=False)
class Ch:
    c: str

    def __eq__(self, o):
        return isinstance(o, Ch) and o.c == self.c

    def __hash__(self):
        return hash(self.c)

    def __repr__(self):
        return f"'{self.c}'"


@dataclass
class Struct:
    name: str
    names: list[str]
    vals: list[Any]

    def get(self, n: str):
        return self.vals[self.names.index(n)]


@dataclass
class Enum:
    variant: str
    payload: list[Any] = field(default_factory=list)

    @property
    def idx(self) -> int:
        return VARIANTS[self.variant]


@dataclass
class Ref:
    container: Any
    key: Any

    def get(self):
        return self.container[self.key]

    def set(self, v):
        self.container[self.key] = v


@dataclass
class CharIter:
    s: str
    pos: int = 0


class Opaque:
    """text built for a message: never inspected"""

    def __repr__(self):
        return "<text>"


_NOT_ITER = object()


@dataclass
class SliceView:
    seq: list
    lo: int
    hi: int


class Iter:
    """an iterator of the standard library, materialised: the items not yet consumed; or lazy (`from_fn`): a closure answering Option"""

    def __init__(self, items, pos: int = 0, lazy=None):
        self.items, self.pos, self.lazy = items, pos, lazy

    def next(self, machine):
        if self.lazy is not None:
            return machine.call_closure(self.lazy, [])
        if self.pos < len(self.items):
            self.pos += 1
            return Enum("Some", [self.items[self.pos - 1]])
        return Enum("None")

    def rest(self):
        if self.lazy is not None:
            raise Unsupported("a lazy iterator cannot be reversed")
        return self.items[self.pos:]

    def drain(self, machine):
        if self.lazy is None:
            out, self.pos = self.items[self.pos:], len(self.items)
            return out
        out = []
        while True:
            nx = machine.call_closure(self.lazy, [])
            if nx.variant == "None":
                return out
            out.append(nx.payload[0])
            if len(out) > 100000:
                raise Unsupported("unbounded iterator")


@dataclass
class FnItem:
    path: str


@dataclass
class Closure:
    key: str                     # the source position rustc names the closure by
    captures: list[Any]


def wrap(v: int, ty: str) -> int:
    bits = INT_BITS.get(ty)
    if bits is None:
        return v
    v &= (1 << bits) - 1
    if ty.startswith("i") and v >> (bits - 1):
        v -= 1 << bits
    return v


def _balanced(s: str, i: int) -> int:
    """index just after the group that opens at s[i] ('(' / '[' / '{')"""
    depth = 0
    for j in range(i, len(s)):
        if s[j] in "([{":
            depth += 1
        elif s[j] in ")]}":
            depth -= 1
            if depth == 0:
                return j + 1
    raise Unsupported(f"unbalanced `{s}`")


def split_ops(s: str) -> list[str]:
    """split at top-level commas; a quoted character / string constant may itself be a comma or a bracket"""
    out, depth, cur, i = [], 0, "", 0
    while i < len(s):
        ch = s[i]
        if ch in "'\"":
            # a char / string literal: copy to its closing quote (a lifetime such as <'_> has no closing quote nearby)
            j = i + 1
            while j < len(s) and (s[j] != ch or s[j - 1] == "\\" and s[j - 2] != "\\"):
                j += 1
            if ch == '"' or (j < len(s) and j - i <= 12 and not re.match(r"'\w+[>,) ]", s[i:])):
                cur += s[i:j + 1]
                i = j + 1
                continue
        if ch in "([{<":
            depth += 1
        elif ch in ")]}>":
            depth -= 1
        if ch == "," and depth == 0:
            out.append(cur.strip())
            cur = ""
        else:
            cur += ch
        i += 1
    if cur.strip():
        out.append(cur.strip())
    return out


class Machine:
    def __init__(self, mir: Mir, struct_fields: dict[str, list[str]] | None = None, fuel: int = 400000):
        self.mir = mir
        self.sf = struct_fields or {}
        self.fuel = fuel
        self._consts = None
        self.ext: list[tuple[str, Any]] = []        # models a rule supplies for functions of other crates (pyo3): (regex on the callee, function)
        cached = getattr(mir, "_by_tail_cache", None)
        if cached is None:
            cached = {}
            for n, f in mir.fns.items():
                cached.setdefault(n.rsplit("::", 1)[-1], []).append(f)
            mir._by_tail_cache = cached
        self._by_tail: dict[str, list[MirFn]] = cached

    # ---- places and operands ------------------------------------------------------------------------------------------
    def place(self, s: str, L: dict) -> tuple[Any, Any]:
        s = s.strip()
        if re.fullmatch(r"_\d+", s):
            return L, s
        if s.startswith("(") and _balanced(s, 0) == len(s):
            end = len(s)
            inner = s[1:-1].strip()
            if inner.startswith("*"):
                r = self.read(inner[1:], L)
                if not isinstance(r, Ref):
                    raise Unsupported(f"deref of a non-reference in `{s}`")
                return r.container, r.key
            m = re.fullmatch(r"(.*) as (\w+)", inner)
            if m and not re.search(r"\.\d+: ", inner[len(m.group(1)):]):
                c, k = self.place(m.group(1), L)
                v = c[k]
                if not isinstance(v, Enum) or v.variant != m.group(2):
                    raise Unsupported(f"downcast `{s}` of {v!r}")
                return c, k
            # <place>.<index>: <type>
            if inner.startswith("("):
                pe = _balanced(inner, 0)
            else:
                pe = re.match(r"_\d+", inner).end() if re.match(r"_\d+", inner) else 0
            m = re.match(r"\.(\d+): ", inner[pe:])
            if pe and m:
                base = self.read(inner[:pe], L)
                i = int(m.group(1))
                if isinstance(base, Struct):
                    return base.vals, i
                if isinstance(base, Enum):
                    return base.payload, i
                if isinstance(base, list):
                    return base, i
                raise Unsupported(f"field {i} of {base!r}")
        m = re.fullmatch(r"(.+)\[(_\d+|\d+ of \d+)\]", s)
        if m:
            base = self.read(m.group(1), L)
            i = self.read(m.group(2), L) if m.group(2).startswith("_") else int(m.group(2).split()[0])
            if isinstance(base, (list, str)):
                if not 0 <= i < len(base):
                    raise Panic("index out of bounds")
                return base, i
        raise Unsupported(f"place `{s}`")

    def read(self, s: str, L: dict):
        c, k = self.place(s, L)
        try:
            return c[k]
        except (KeyError, IndexError):
            raise Unsupported(f"read of `{s}` before it is written") from None

    def const(self, s: str):
        s = s.strip()
        m = re.fullmatch(r"(-?\d+)_(\w+)", s)
        if m:
            return int(m.group(1))
        m = re.fullmatch(r"(-?[\d.]+(?:[eE][-+]?\d+)?)(?:_?f64|f32)", s)
        if m:
            return float(m.group(1))
        if s in ("true", "false"):
            return s == "true"
        m = re.fullmatch(r"(\w+)::(MIN|MAX)", s)
        if m and m.group(1) in INT_BITS:
            bits, signed = INT_BITS[m.group(1)], m.group(1).startswith("i")
            return (-(1 << (bits - 1)) if signed else 0) if m.group(2) == "MIN" else ((1 << (bits - (1 if signed else 0))) - 1)
        m = re.fullmatch(r"ZeroSized: \{closure@([^}]*)\}", s)
        if m:
            return Closure(m.group(1).strip(), [])
        if s.startswith("'") and s.endswith("'"):
            body = s[1:-1]
            esc = {"\\0": "\0", "\\n": "\n", "\\t": "\t", "\\'": "'", "\\\\": "\\", '\\"': '"'}
            if body in esc:
                return Ch(esc[body])
            m = re.fullmatch(r"\\u\{([0-9a-fA-F]+)\}", body)
            if m:
                return Ch(chr(int(m.group(1), 16)))
            if len(body) == 1:
                return Ch(body)
        if s.startswith('"') and s.endswith('"'):
            return s[1:-1]
        if s.startswith('b"') or s == "()" or s.startswith("pyo3::Python::<"):
            return Opaque()
        m = re.fullmatch(r".*?(\w+)::promoted\[(\d+)\]", s)
        if m:
            cands = [f for n_, f in self.mir.fns.items() if re.search(rf"(^|::){re.escape(m.group(1))}::promoted\[{m.group(2)}\]$", n_)]
            if len(cands) == 1:
                return self.run(cands[0], [])
            raise Unsupported(f"promoted constant `{s}` not found in MIR")
        m = re.fullmatch(r"(?:\w+::)*(?:constants|helpers|parsing)::(\w+)", s) or re.fullmatch(r"([A-Z][A-Z0-9_]+)", s)
        if m and ("const:" + m.group(1)) in self.mir.fns:
            # the constant item as rustc evaluates it: its MIR body (a literal table, or a call of a const fn of the crate)
            cache = self.mir.__dict__.setdefault("_const_values", {})
            if m.group(1) not in cache:
                cache[m.group(1)] = self.run(self.mir.fns["const:" + m.group(1)], [])
            return _copy.deepcopy(cache[m.group(1)])
        if m:
            one = re.search(rf"^const {re.escape(m.group(1))}: [^=]+ = const ([^;{{]+);$", self.mir.text, re.M)
            if one:
                return self.const(one.group(1))
        if m:
            if self._consts is None:
                key = str(core.REPO)
                if key not in _CONSTS:
                    from . import rustconst
                    _CONSTS[key] = rustconst.load_all()    # the literal constants of the crate, folded from the source text
                self._consts = _CONSTS[key]
            if m.group(1) in self._consts:
                tolist = lambda v: [tolist(x) for x in v] if isinstance(v, (list, tuple)) else v      # noqa: E731
                return tolist(self._consts[m.group(1)])
        raise Unsupported(f"constant `{s}`")

    def operand(self, s: str, L: dict):
        s = s.strip()
        if s.startswith("const "):
            return self.const(s[6:])
        if s.startswith("move "):
            return self.read(s[5:], L)
        if s.startswith("copy "):
            v = self.read(s[5:], L)
            return _copy.deepcopy(v) if isinstance(v, (Struct, Enum, list)) and not self._has_ref(v) else v
        if not s.startswith(("_", "(")) and "::" in s:
            return FnItem(s)              # a function of the crate / the standard library used as a value (`.map(i64::from)`)
        return self.read(s, L)

    def _has_ref(self, v, depth=0) -> bool:
        if isinstance(v, (Ref, CharIter)):
            return True
        if depth > 4:
            return False
        if isinstance(v, Struct):
            return any(self._has_ref(x, depth + 1) for x in v.vals)
        if isinstance(v, Enum):
            return any(self._has_ref(x, depth + 1) for x in v.payload)
        if isinstance(v, list):
            return any(self._has_ref(x, depth + 1) for x in v)
        return False

    # ---- rvalues -------------------------------------------------------------------------------------------------------
    @staticmethod
    def _num(v):
        if isinstance(v, Ch):
            return ord(v.c)
        if isinstance(v, bool):
            return int(v)
        return v

    def binop(self, op: str, a, b, ty: str):
        a, b = self._num(a), self._num(b)
        base = op.replace("WithOverflow", "").replace("Unchecked", "")
        if base in ("Add", "Sub", "Mul"):
            r = a + b if base == "Add" else a - b if base == "Sub" else a * b
            if isinstance(r, float):
                return r
            if op.endswith("WithOverflow"):
                t = ty.strip("()").split(",")[0].strip()
                w = wrap(r, t)
                return [w, w != r]
            return wrap(r, ty)
        if base in ("Div", "Rem"):
            if isinstance(a, float) or isinstance(b, float):
                return a / b if base == "Div" else math.fmod(a, b)
            if b == 0:
                raise Panic("division by zero")
            q = abs(a) // abs(b) * (1 if (a >= 0) == (b >= 0) else -1)
            return wrap(q if base == "Div" else a - q * b, ty)
        if base in ("Lt", "Le", "Gt", "Ge", "Eq", "Ne"):
            return {"Lt": a < b, "Le": a <= b, "Gt": a > b, "Ge": a >= b, "Eq": a == b, "Ne": a != b}[base]
        if base in ("BitAnd", "BitOr", "BitXor"):
            if isinstance(a, bool) or ty == "bool":
                return bool({"BitAnd": a & b, "BitOr": a | b, "BitXor": a ^ b}[base])
            return wrap({"BitAnd": a & b, "BitOr": a | b, "BitXor": a ^ b}[base], ty)
        if base in ("Shl", "Shr"):
            return wrap(a << b if base == "Shl" else a >> b, ty)
        raise Unsupported(f"binary operation {op}")

    def cast(self, v, ty: str, kind: str):
        v = self._num(v) if kind in ("IntToInt", "IntToFloat") else v
        if kind == "IntToInt":
            if ty == "char":
                return Ch(chr(v))
            return wrap(v, ty)
        if kind == "IntToFloat":
            return float(v)
        if kind == "FloatToInt":
            if v != v:
                return 0
            bits = INT_BITS[ty]
            lo, hi = (-(1 << (bits - 1)), (1 << (bits - 1)) - 1) if ty.startswith("i") else (0, (1 << bits) - 1)
            return max(lo, min(hi, int(v))) if abs(v) != float("inf") else (hi if v > 0 else lo)
        if kind in ("FloatToFloat", "Transmute") or kind.startswith(("PointerCoercion", "Pointer", "PtrToPtr")):
            return v
        raise Unsupported(f"cast {kind}")

    def aggregate(self, rv: str, L: dict):
        rv = rv.strip()
        if rv.startswith("&"):
            body = re.sub(r"^&(?:raw (?:const|mut) |mut |\s*)", "", rv)
            return Ref(*self.place(body, L))
        if rv.startswith("(") and _balanced(rv, 0) == len(rv):
            return [self.operand(a, L) for a in _split_args(rv[1:-1])]
        if rv.startswith("["):
            inner = rv[1:-1]
            m = re.fullmatch(r"(.*); (\d+)", inner)
            if m:
                return [_copy.deepcopy(self.operand(m.group(1), L)) for _ in range(int(m.group(2)))]
            return [self.operand(a, L) for a in _split_args(inner)]
        m = re.match(r"^\{closure@([^}]*)\}(?: \{(.*)\})?$", rv)
        if m:
            caps = [self.operand(a.split(": ", 1)[1] if ": " in a else a, L) for a in _split_args(m.group(2) or "")]
            return Closure(m.group(1).strip(), caps)
        m = re.match(r"^([\w:<>', &\[\]()]+?) \{ (.*) \}$", rv)
        if m and not rv.startswith("const "):
            name = re.sub(r"::<.*", "", m.group(1)).split("::")[-1]
            names, vals = [], []
            for a in _split_args(m.group(2)):
                k, v = a.split(": ", 1)
                names.append(k.strip())
                vals.append(self.operand(v, L))
            return Struct(name, names, vals)
        m = re.match(r"^(.*)::(\w+)(?:\((.*)\))?$", rv)
        if m and m.group(2) in VARIANTS and not rv.startswith("const "):
            return Enum(m.group(2), [self.operand(a, L) for a in _split_args(m.group(3) or "")])
        raise Unsupported(f"rvalue `{rv[:80]}`")

    # ---- calls ---------------------------------------------------------------------------------------------------------
    def find(self, callee: str, nargs: int) -> MirFn | None:
        base = re.sub(r"::<[^>]*(?:<[^>]*>[^>]*)*>", "", callee)       # drop turbofish groups
        tail = base.rsplit("::", 1)[-1]
        cands = [f for f in self._by_tail.get(tail, []) if not f.name.startswith("python::")] or self._by_tail.get(tail, [])
        if not cands:
            return None
        if len(cands) > 1:
            owner = base.rsplit("::", 2)[-2] if "::" in base else ""
            by_ret = [f for f in cands if re.sub(r"<.*", "", f.sig.split("->")[-1].strip(" {")).split("::")[-1] == owner] if owner else []
            by_mod = [f for f in cands if f.name.startswith(owner + "::") or f"::{owner}::" in f.name] if owner else []
            cands = by_ret or by_mod or cands
        cands = [f for f in cands if len(re.findall(r"_\d+: ", f.sig.split(") ->")[0])) == nargs] or cands
        return cands[0] if len(cands) == 1 else None

    def closure_fn(self, key: str) -> MirFn:
        for f in self.mir.fns.values():
            if "{closure#" in f.name and key in f.sig:
                return f
        raise Unsupported(f"closure {key} not found in MIR")

    def call_closure(self, clo, args: list[Any]):
        if isinstance(clo, FnItem):
            return self.call(clo.path, args)
        if not isinstance(clo, Closure):
            raise Unsupported("call of a value that is not a closure of the crate")
        f = self.closure_fn(clo.key)
        env = Struct("closure", [str(i) for i in range(len(clo.captures))], list(clo.captures))
        first = f.types.get("_1", "")
        return self.run(f, [Ref([env], 0) if first.startswith("&") else env] + args)

    def std(self, callee: str, a: list[Any]):
        c = callee
        deref = lambda r: r.get() if isinstance(r, Ref) else r      # noqa: E731
        if re.search(r"as Deref>::deref$|as AsRef<.*>>::as_ref$|as Borrow<.*>>::borrow$", c):
            return a[0]
        m = re.search(r"^<(.+) as Partial(Ord|Eq)>::(partial_cmp|eq|ne|gt|ge|lt|le)$", c)
        if m:
            x, y = deref(a[0]), deref(a[1])
            if m.group(1).startswith("(") or m.group(1) in INT_BITS or m.group(1) in ("&str", "str", "char", "bool", "f64"):
                key = lambda v: [key(deref(e)) for e in v] if isinstance(v, list) else self._num(v)      # noqa: E731
                kx, ky = key(x), key(y)
                order = "Less" if kx < ky else "Greater" if kx > ky else "Equal"
            else:
                # a type of the crate: its own partial_cmp / eq decides
                ty = re.sub(r"<.*", "", m.group(1)).split("::")[-1]
                want = "eq" if m.group(3) in ("eq", "ne") else "partial_cmp"
                cands = [f for f in self._by_tail.get(want, []) if f"&{ty}" in f.sig]
                if len(cands) != 1:
                    raise Unsupported(f"{want} of {ty} not found in the crate")
                r = self.run(cands[0], [a[0], a[1]])
                if want == "eq":
                    return bool(r) == (m.group(3) == "eq")
                if r.variant != "Some":
                    raise Unsupported("partial_cmp answers None")
                order = r.payload[0].variant
            if m.group(3) == "partial_cmp":
                return Enum("Some", [Enum(order)])
            return {"eq": order == "Equal", "ne": order != "Equal", "gt": order == "Greater", "ge": order != "Less", "lt": order == "Less", "le": order != "Greater"}[m.group(3)]
        m = re.search(r"^<(.+) as Ord>::cmp$", c)
        if m:
            x, y = self._num(deref(a[0])), self._num(deref(a[1]))
            return Enum("Less" if x < y else "Greater" if x > y else "Equal")
        if c.endswith("::char_indices"):
            return CharIter(a[0])
        if "CharIndices" in c and c.endswith("::next"):
            it = deref(a[0])
            if it.pos >= len(it.s):
                return Enum("None")
            ch = it.s[it.pos]
            off = len(it.s[:it.pos].encode())
            it.pos += 1
            return Enum("Some", [[off, Ch(ch)]])
        if re.search(r"impl str>::len$", c):
            return len(deref(a[0]).encode())
        if re.search(r"RangeInclusive::<\w+>::new$", c):
            return Struct("RangeInclusive", ["start", "end"], [a[0], a[1]])
        if re.search(r"RangeInclusive::<\w+>::contains::<", c):
            r = deref(a[0])
            return self._num(r.vals[0]) <= self._num(deref(a[1])) <= self._num(r.vals[1])
        if re.search(r"Range::<\w+>::contains::<", c):
            r = deref(a[0])
            return self._num(r.vals[0]) <= self._num(deref(a[1])) < self._num(r.vals[1])
        m = re.search(r"<std::ops::Range(Inclusive)?<\w+> as Iterator>::(find|position|any|all)::<", c)
        if m:
            r = deref(a[0])
            lo, hi = r.vals[0], r.vals[1] + (1 if m.group(1) else 0)
            for i, x in enumerate(range(lo, hi)):
                # find's predicate takes a reference to the item, any / all / position the item itself
                hit = self.call_closure(a[1], [Ref([x], 0)] if m.group(2) == "find" else [x])
                if m.group(2) == "find" and hit:
                    r.vals[0] = x + 1
                    return Enum("Some", [x])
                if m.group(2) == "position" and hit:
                    return Enum("Some", [i])
                if m.group(2) == "any" and hit:
                    return True
                if m.group(2) == "all" and not hit:
                    return False
            return {"find": Enum("None"), "position": Enum("None"), "any": False, "all": True}[m.group(2)]
        if "Range<" in c and c.endswith("::into_iter"):
            return a[0]
        if "Range<" in c and c.endswith("::next"):
            r = deref(a[0])
            s, e = r.vals[r.names.index("start")], r.vals[r.names.index("end")]
            if s < e:
                r.vals[r.names.index("start")] = s + 1
                return Enum("Some", [s])
            return Enum("None")
        if c.endswith("::to_digit"):
            ch, radix = deref(a[0]), a[1]
            v = int(ch.c, 36) if ch.c.isascii() and ch.c.isalnum() else 99
            return Enum("Some", [v]) if v < radix else Enum("None")
        if c.endswith("::is_ascii_digit"):
            ch = deref(a[0])
            return isinstance(ch, Ch) and ch.c.isascii() and ch.c.isdigit()
        if c.endswith("as Try>::branch"):
            v = a[0]
            if v.variant in ("Ok", "Some"):
                return Enum("Continue", list(v.payload))
            return Enum("Break", [Enum(v.variant, list(v.payload))])
        if c.endswith("::from_residual"):
            return a[0]
        if re.search(r"(to_string|fmt::format|must_use::<String>|Arguments::<'_>::new(_const)?::<[\d, ]+>|Argument::<'_>::new_\w+::<.*>|<String as Clone>::clone)$", c):
            return Opaque()
        if re.search(r"as From<bool>>::from$", c):
            return int(a[0])
        if re.search(r"<f64 as From<u\d+>>::from$", c) or re.search(r"<f64 as From<i\d+>>::from$", c):
            return float(a[0])
        if re.search(r"as From<\w+>>::from$", c):
            return a[0]
        m = re.search(r"<(\w+) as (?:Try)?Into<(\w+)>>::(try_)?into$", c) or re.search(r"<(\w+) as (?:Try)?From<(\w+)>>::(try_)?from$", c)
        if m and m.group(1) in INT_BITS and m.group(2) in INT_BITS:
            src, dst = (m.group(1), m.group(2)) if "Into<" in c else (m.group(2), m.group(1))
            fits = wrap(a[0], dst) == a[0]
            if m.group(3):
                return Enum("Ok", [a[0]]) if fits else Enum("Err", [Opaque()])
            return a[0]
        if re.search(r"Result::<.*>::unwrap$", c):
            if a[0].variant != "Ok":
                raise Panic("unwrap of an Err")
            return a[0].payload[0]
        if c.endswith("f64>::trunc"):
            return float(math.trunc(a[0]))
        if c.endswith("f64>::round"):
            return float(math.floor(abs(a[0]) + 0.5)) * (1.0 if a[0] >= 0 else -1.0)
        if c.endswith("f64>::floor"):
            return float(math.floor(a[0]))
        m = re.search(r"impl (u\d+|i\d+|usize|isize)>::checked_(add|mul|sub)$", c)
        if m:
            r = a[0] + a[1] if m.group(2) == "add" else a[0] * a[1] if m.group(2) == "mul" else a[0] - a[1]
            return Enum("Some", [r]) if wrap(r, m.group(1)) == r else Enum("None")
        m = re.search(r"impl (u\d+|i\d+|usize|isize)>::(pow|wrapping_add|wrapping_mul)$", c)
        if m:
            r = a[0] ** a[1] if m.group(2) == "pow" else a[0] + a[1] if m.group(2) == "wrapping_add" else a[0] * a[1]
            return wrap(r, m.group(1))
        if re.search(r"impl i\d+>::(unsigned_abs|abs)$", c):
            return abs(a[0])
        m = re.search(r"impl (u\d+|i\d+|usize|isize)>::(div_euclid|rem_euclid|signum|min|max)$", c)
        if m:
            op = m.group(2)
            if op in ("div_euclid", "rem_euclid"):
                if a[1] == 0:
                    raise Panic("attempt to divide by zero")
                r = a[0] % abs(a[1])               # 0 <= r < |b|
                q = (a[0] - r) // a[1]
                return q if op == "div_euclid" else r
            if op == "signum":
                return (a[0] > 0) - (a[0] < 0)
            return min(a[0], a[1]) if op == "min" else max(a[0], a[1])
        if re.search(r"Option::<.*>::is_none$", c):
            return deref(a[0]).variant == "None"
        if re.search(r"Option::<.*>::is_some$", c):
            return deref(a[0]).variant == "Some"
        if re.search(r"Option::<.*>::and_then::<", c):
            return self.call_closure(a[1], [a[0].payload[0]]) if a[0].variant == "Some" else Enum("None")
        if re.search(r"Option::<.*>::map::<", c):
            return Enum("Some", [self.call_closure(a[1], [a[0].payload[0]])]) if a[0].variant == "Some" else Enum("None")
        if re.search(r"Option::<.*>::unwrap_or$", c):
            return a[0].payload[0] if a[0].variant == "Some" else a[1]
        if re.search(r"Option::<.*>::unwrap$", c):
            if a[0].variant != "Some":
                raise Panic("unwrap of None")
            return a[0].payload[0]
        m = re.search(r"Option::<.*>::(ok_or_else|ok_or|unwrap_or_default|unwrap_or_else|map_or|is_some_and|filter|or_else|or|zip|take|copied|cloned)(::<.*)?$", c)
        if m:
            o, k = deref(a[0]) if m.group(1) in ("take",) else a[0], m.group(1)
            some = o.variant == "Some"
            if k == "ok_or_else":
                return Enum("Ok", list(o.payload)) if some else Enum("Err", [self.call_closure(a[1], [])])
            if k == "ok_or":
                return Enum("Ok", list(o.payload)) if some else Enum("Err", [a[1]])
            if k == "unwrap_or_default":
                if some:
                    return o.payload[0]
                ty = re.search(r"Option::<(\w+)>", c)
                if ty and ty.group(1) in INT_BITS:
                    return 0
                if ty and ty.group(1) == "bool":
                    return False
                if ty and ty.group(1) == "f64":
                    return 0.0
                raise Unsupported(f"default of `{c[:50]}`")
            if k == "unwrap_or_else":
                return o.payload[0] if some else self.call_closure(a[1], [])
            if k == "map_or":
                return self.call_closure(a[2], [o.payload[0]]) if some else a[1]
            if k == "is_some_and":
                return bool(some and self.call_closure(a[1], [o.payload[0]]))
            if k == "filter":
                return o if some and self.call_closure(a[1], [Ref([o.payload[0]], 0)]) else Enum("None")
            if k == "or_else":
                return o if some else self.call_closure(a[1], [])
            if k == "or":
                return o if some else a[1]
            if k in ("copied", "cloned"):
                return Enum("Some", [deref(o.payload[0])]) if some else Enum("None")
        m = re.search(r"Result::<.*>::(map_err|ok|is_ok|is_err|unwrap_or|map|and_then|unwrap_or_else)(::<.*)?$", c)
        if m:
            r_, k = a[0], m.group(1)
            if k == "map_err":
                return r_ if r_.variant == "Ok" else Enum("Err", [self.call_closure(a[1], [r_.payload[0]])])
            if k == "ok":
                return Enum("Some", list(r_.payload)) if r_.variant == "Ok" else Enum("None")
            if k in ("is_ok", "is_err"):
                return (deref(r_).variant == "Ok") == (k == "is_ok")
            if k == "unwrap_or":
                return r_.payload[0] if r_.variant == "Ok" else a[1]
            if k == "map":
                return Enum("Ok", [self.call_closure(a[1], [r_.payload[0]])]) if r_.variant == "Ok" else r_
            if k == "and_then":
                return self.call_closure(a[1], [r_.payload[0]]) if r_.variant == "Ok" else r_
            if k == "unwrap_or_else":
                return r_.payload[0] if r_.variant == "Ok" else self.call_closure(a[1], [r_.payload[0]])
        m = re.search(r"^<(\w+) as Ord>::(max|min|clamp)$", c)
        if m:
            x = [self._num(v) for v in a]
            return max(x) if m.group(2) == "max" else min(x) if m.group(2) == "min" else max(x[1], min(x[2], x[0]))
        m = re.search(r"^<(.+) as Fn(?:Mut|Once)?<\(.*\)>>::call(?:_mut|_once)?$", c)
        if m:
            # calling a local closure (or a function item): the second argument is the tuple of its arguments
            try:
                clo = deref(a[0])
            except KeyError:
                clo = None                # a closure without captures is zero-sized: rustc never writes its local
            if not isinstance(clo, (Closure, FnItem)):
                mk = re.match(r"^(?:&(?:mut )?)?\{closure@([^}]*)\}$", m.group(1).strip())
                clo = Closure(mk.group(1).strip(), []) if mk else clo
            if isinstance(clo, (Closure, FnItem)):
                return self.call_closure(clo, list(a[1]) if isinstance(a[1], list) else [a[1]])
        m = re.search(r"^<(\w+) as Default>::default$", c)
        if m:
            if m.group(1) in INT_BITS:
                return 0
            if m.group(1) in ("bool", "f64", "String", "str"):
                return {"bool": False, "f64": 0.0}.get(m.group(1), "")
        if re.search(r"^<Option<.*> as Default>::default$", c):
            return Enum("None")
        r_it = self._iter_model(c, a)
        if r_it is not _NOT_ITER:
            return r_it
        if re.search(r"array::<impl \[.*\]>::map::<", c):
            return [self.call_closure(a[1], [x]) for x in a[0]]
        if re.search(r"impl bool>::then::<", c):
            return Enum("Some", [self.call_closure(a[1], [])]) if a[0] else Enum("None")
        raise Unsupported(f"call of `{callee[:70]}` (not modelled)")

    def _iter_model(self, c: str, a: list[Any]):
        """iterators of the standard library over ranges, arrays and slices, materialised as `Iter` (items, position); `from_fn` stays lazy"""
        deref = lambda r: r.get() if isinstance(r, Ref) else r      # noqa: E731

        def as_iter(v):
            v = deref(v)
            if isinstance(v, Iter):
                return v
            if isinstance(v, Struct) and v.name in ("Range", "RangeInclusive") or isinstance(v, Struct) and set(v.names) == {"start", "end"}:
                lo, hi = v.vals[v.names.index("start")], v.vals[v.names.index("end")]
                return Iter(list(range(lo, hi + (1 if v.name == "RangeInclusive" else 0))))
            if isinstance(v, list):
                return Iter(list(v))
            raise Unsupported(f"iterator over {type(v).__name__}")
        if re.search(r"iter::from_fn::<", c):
            return Iter(None, 0, a[0])
        m = re.search(r" as (?:Iterator|IntoIterator|DoubleEndedIterator)>::(\w+)(::<.*)?$", c) or re.search(r"(?:slice::<impl \[.*\]>|array::<impl \[.*\]>)::(iter|iter_mut|len|first|last|get|contains)(::<.*)?$", c)
        if not m:
            if re.search(r" as Index<std::ops::Range(From|To|Inclusive|Full)?<usize>>>::index$", c):
                seq, r_ = deref(a[0]), a[1]
                lo = r_.vals[r_.names.index("start")] if "start" in r_.names else 0
                hi = (r_.vals[r_.names.index("end")] + (1 if r_.name == "RangeInclusive" else 0)) if "end" in r_.names else len(seq)
                if not 0 <= lo <= hi <= len(seq):
                    raise Panic("slice index out of range")
                return Ref([SliceView(seq, lo, hi)], 0)
            return _NOT_ITER
        k = m.group(1)
        if "Range<" in c and k in ("next", "into_iter", "find", "position", "any", "all") and not isinstance(deref(a[0]), Iter):
            return _NOT_ITER           # plain ranges keep their struct model (a `for` loop mutates the range in place)
        if k in ("into_iter", "iter", "iter_mut"):
            v = deref(a[0])
            if isinstance(v, SliceView):
                return Iter([Ref(v.seq, i) for i in range(v.lo, v.hi)] if k != "into_iter" or True else None)
            if isinstance(v, list) and k in ("iter", "iter_mut"):
                return Iter([Ref(v, i) for i in range(len(v))])
            return as_iter(a[0])
        if k == "len":
            v = deref(a[0])
            return (v.hi - v.lo) if isinstance(v, SliceView) else len(v)
        it = as_iter(a[0]) if k != "next" or not isinstance(deref(a[0]), Iter) else deref(a[0])
        if k == "rev":
            return Iter(list(reversed(it.rest())))
        if k == "next":
            return it.next(self)
        if k in ("find", "position", "any", "all", "take_while", "skip_while", "filter", "map", "fold", "sum", "count", "max", "min", "last", "enumerate", "zip", "for_each", "copied", "cloned", "collect", "step_by", "skip", "take"):
            if k == "map":
                return Iter([self.call_closure(a[1], [x]) for x in it.drain(self)])
            if k in ("copied", "cloned"):
                return Iter([deref(x) for x in it.drain(self)])
            if k == "enumerate":
                return Iter([[i, x] for i, x in enumerate(it.drain(self))])
            if k == "zip":
                return Iter([[x, y] for x, y in zip(it.drain(self), as_iter(a[1]).drain(self))])
            if k == "skip":
                return Iter(it.drain(self)[a[1]:])
            if k == "take":
                return Iter(it.drain(self)[:a[1]])
            if k == "step_by":
                return Iter(it.drain(self)[::a[1]])
            if k == "filter":
                return Iter([x for x in it.drain(self) if self.call_closure(a[1], [Ref([x], 0)])])
            if k == "take_while":
                out = []
                for x in it.drain(self):
                    if not self.call_closure(a[1], [Ref([x], 0)]):
                        break
                    out.append(x)
                return Iter(out)
            if k == "fold":
                acc = a[1]
                while True:
                    nx = it.next(self)
                    if nx.variant == "None":
                        return acc
                    acc = self.call_closure(a[2], [acc, nx.payload[0]])
            if k == "sum":
                return sum(self._num(deref(x)) for x in it.drain(self))
            if k == "count":
                return len(it.drain(self))
            if k in ("max", "min", "last"):
                xs = it.drain(self)
                if not xs:
                    return Enum("None")
                return Enum("Some", [xs[-1] if k == "last" else (max if k == "max" else min)(xs, key=lambda v: self._num(deref(v)))])
            if k == "for_each":
                for x in it.drain(self):
                    self.call_closure(a[1], [x])
                return Opaque()
            if k == "collect":
                return it.drain(self)
            idx = 0
            while True:
                nx = it.next(self)
                if nx.variant == "None":
                    return {"find": Enum("None"), "position": Enum("None"), "any": False, "all": True}[k]
                x = nx.payload[0]
                hit = self.call_closure(a[1], [Ref([x], 0)] if k == "find" else [x])
                if k == "find" and hit:
                    return Enum("Some", [x])
                if k == "position" and hit:
                    return Enum("Some", [idx])
                if k == "any" and hit:
                    return True
                if k == "all" and not hit:
                    return False
                idx += 1
        return _NOT_ITER

    def call(self, callee: str, args: list[Any]):
        if self.ext:
            cache = _EXT_CACHE.setdefault(id(self.ext), (self.ext, {}))[1]        # the list is kept alive with its cache: its id is never reused
            if callee not in cache:
                cache[callee] = next((fn for pat, fn in self.ext if re.search(pat, callee)), None)
            if cache[callee] is not None:
                return cache[callee](*args)
        f = self.find(callee, len(args))
        if f is not None and ("::" not in callee or not callee.startswith(("core::", "std::", "<"))):
            return self.run(f, args)
        m = re.match(r"^<(\w+)(?:<.*>)? as (\w+)(?:<.*>)?>::(\w+)$", callee)
        if m and m.group(1) not in INT_BITS and m.group(1) not in ("str", "String", "char", "bool", "f64"):
            # a trait method of a type of the crate (Default, a comparison, a conversion written or derived in the crate)
            cands = [g for g in self._by_tail.get(m.group(3), []) if m.group(1) in g.sig and len(re.findall(r"_\d+: ", g.sig.split(") ->")[0])) == len(args)]
            if len(cands) == 1:
                return self.run(cands[0], args)
        return self.std(callee, args)

    # ---- execution -----------------------------------------------------------------------------------------------------
    def run(self, f: MirFn, args: list[Any], depth: int = 0):
        if depth > 60:
            raise Unsupported("call depth")
        L: dict[str, Any] = {f"_{i + 1}": v for i, v in enumerate(args)}
        bb = 0
        while True:
            self.fuel -= 1
            if self.fuel <= 0:
                raise Unsupported("step budget of the evaluator exhausted")
            b = f.blocks[bb]
            nxt = None
            for st in b.stmts:
                if st.op == "assert":
                    m = re.match(r"^assert\((!?)(.*?), .*-> \[success: bb(\d+)", st.raw)
                    if not m:
                        raise Unsupported(f"assert `{st.raw[:60]}`")
                    v = bool(self.operand(m.group(2), L))
                    if v == bool(m.group(1)):
                        raise Panic(st.raw[:80])
                    nxt = int(m.group(3))
                    continue
                if st.op == "call":
                    v = self.call(st.callee, [self.operand(a, L) for a in st.args])
                    if st.dest is not None:
                        c, k = self.place(st.dest, L)
                        c[k] = v
                    m = re.search(r"-> \[return: bb(\d+)", st.raw)
                    nxt = int(m.group(1)) if m else None
                    continue
                if st.dest is None:
                    continue          # StorageLive / StorageDead / FakeRead / nop ...
                ty = f.types.get(st.dest, "") if re.fullmatch(r"_\d+", st.dest) else (re.search(r": ([^:()]+)\)$", st.dest).group(1) if re.search(r": ([^:()]+)\)$", st.dest) else "")
                if st.op == "use":
                    v = self.operand(st.raw.split(" = ", 1)[1].rstrip(";"), L)
                elif st.op in ("neg", "not"):
                    x = self.operand(st.raw.split("(", 1)[1].rsplit(")", 1)[0], L)
                    v = (wrap(-x, ty) if not isinstance(x, float) else -x) if st.op == "neg" else ((not x) if isinstance(x, bool) else wrap(~x, ty))
                elif st.op == "discr":
                    e = self.read(st.args[0], L)
                    if not isinstance(e, Enum):
                        raise Unsupported(f"discriminant of {e!r}")
                    v = e.idx
                elif st.op == "cast":
                    src = st.raw.split(" = ", 1)[1].rsplit(" as ", 1)[0]
                    v = self.cast(self.operand(src, L), st.args[1], st.args[2])
                elif st.op == "other":
                    v = self.aggregate(st.args[0], L)
                else:
                    inner = st.raw.split(" = ", 1)[1]
                    parts = split_ops(inner[inner.index("(") + 1:inner.rindex(")")])
                    if len(parts) != 2:
                        raise Unsupported(f"operands of `{st.raw[:70]}`")
                    a, b_ = parts
                    v = self.binop(st.op, self.operand(a, L), self.operand(b_, L), ty)
                c, k = self.place(st.dest, L)
                c[k] = v
            t = b.term
            if nxt is not None and (t.startswith("assert(") or "-> [return:" in t):
                bb = nxt
                continue
            if t == "return;":
                return L.get("_0")
            if t.startswith("goto -> bb"):
                bb = int(t[10:].rstrip(";"))
                continue
            if b.switch is not None:
                raw_op = re.match(r"^switchInt\((.*?)\) -> ", t).group(1)
                v = self._num(self.operand(raw_op, L))
                tg = b.switch[1]
                if str(v) not in tg and isinstance(v, int) and v < 0:
                    for bits in (8, 16, 32, 64, 128):
                        if str(v & ((1 << bits) - 1)) in tg:
                            v = v & ((1 << bits) - 1)
                            break
                bb = tg[str(v)] if str(v) in tg else tg["otherwise"]
                continue
            m = re.match(r"^drop\(.*\) -> \[return: bb(\d+)", t)
            if m:
                bb = int(m.group(1))
                continue
            if t == "unreachable;":
                raise Panic("unreachable reached")
            raise Unsupported(f"terminator `{t[:60]}`")


def field_of(v: Struct, name: str):
    return v.vals[v.names.index(name)]
