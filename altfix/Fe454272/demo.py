"""The two halves of an ISO 8601 interval are validated: ill-typed halves give ParserError,
well-typed intervals keep their (hand-computed) values."""
import datetime
import sys

import pendulum
from pendulum.parsing.exceptions import ParserError

failures = []
UTC = datetime.timezone.utc

invalid = [
    "P1D/P1D",
    "PT1H/P1D",
    "2020-01-01/12:00",
    "12:00/2020-01-01",
    "12:00/13:00",
    "2020-01-01/P1D",
    "P1D/2020-01-01",
    "12:00/P1D",
    "P1D/12:00",
    "2020-W05/P1W",
]
for text in invalid:
    for exact in (False, True):
        try:
            value = pendulum.parse(text, exact=exact)
        except ParserError:
            pass
        except BaseException as e:
            failures.append(f"{text!r} exact={exact}: {type(e).__name__}: {e}")
        else:
            failures.append(f"{text!r} exact={exact}: returned {value!r}")

base = datetime.datetime(2020, 1, 1, tzinfo=UTC)
valid = {
    "2020-01-01T00:00:00/P1DT2H": (base, base + datetime.timedelta(days=1, hours=2)),
    "P1DT2H/2020-01-01T00:00:00": (base - datetime.timedelta(days=1, hours=2), base),
    "2020-01-01T00:00:00/2020-01-05T12:30:00": (base, datetime.datetime(2020, 1, 5, 12, 30, tzinfo=UTC)),
    "2020-01-01/2020-01-05": (datetime.date(2020, 1, 1), datetime.date(2020, 1, 5)),
}
for text, (start, end) in valid.items():
    try:
        i = pendulum.parse(text)
        if (i.start, i.end) != (start, end):
            failures.append(f"{text!r}: {i!r}")
    except BaseException as e:
        failures.append(f"{text!r}: {type(e).__name__}: {e}")

for f in failures:
    print("FAIL", f)
print("ok" if not failures else f"{len(failures)} failure(s)")
sys.exit(1 if failures else 0)
