"""A closed calendar world for evaluating the weekday-navigation methods of pendulum's DateTime / Date with the checker's
interpreter (rules/minieval.py).  Instance stubs carry a real `datetime.date`, a wall time in minutes and a fold; their class
part is the analysed source (public and private methods of the class are interpreted, so a helper introduced by a
refactoring is simply followed), while the primitives every such method bottoms out in - set / on / at / replace / add /
subtract / start_of('day') / create - are given by this module with the semantics the other properties establish for
them (C01/C02: a wall time inside a skipped hour is moved forward for fold=1 and backward for fold=0, a repeated one
keeps its wall time and takes its offset from the fold; C03: add()/subtract() of calendar units re-create the wall time
with the default fold=1; C12: start_of('day') is the first existing instant of the day, fold=0 only when that instant is
repeated).  A scenario names the dates whose first hour [00:00, 01:00) is skipped or repeated.

Nothing of pendulum is imported or run; `datetime.date` and `calendar` of the standard library provide the calendar."""
from __future__ import annotations

import ast
import calendar as _calendar
import datetime as _dt
import re
from typing import Any

from .. import core
from . import minieval
from .minieval import ClassStub, Obj, Stub

class WD(int):
    """a member of the WeekDay IntEnum: equal to its number, but not the same object as a plain int (`x is 0` is false for it)"""

    def __repr__(self):
        return f"WeekDay({int(self)})"


WEEKDAYS = [WD(i) for i in range(7)]


def _weekday_member(v):
    if isinstance(v, bool) or not isinstance(v, int) or not 0 <= v <= 6:
        raise ValueError(f"{v!r} is not a valid WeekDay")
    return WEEKDAYS[v]


WEEKDAY = ClassStub(_new=_weekday_member, _isa=lambda v: isinstance(v, WD), MONDAY=WEEKDAYS[0], TUESDAY=WEEKDAYS[1], WEDNESDAY=WEEKDAYS[2], THURSDAY=WEEKDAYS[3],
                    FRIDAY=WEEKDAYS[4], SATURDAY=WEEKDAYS[5], SUNDAY=WEEKDAYS[6])


def _shift(d: _dt.date, years=0, months=0, weeks=0, days=0) -> _dt.date:
    y, mth = d.year + years, d.month + months
    y, mth = y + (mth - 1) // 12, (mth - 1) % 12 + 1
    try:
        day = min(d.day, _calendar.monthrange(y, mth)[1])
        return _dt.date(y, mth, day) + _dt.timedelta(days=days + 7 * weeks)
    except (ValueError, OverflowError) as e:
        # beyond the first / last date of the calendar: what the standard library raises there is an outcome of the analysed code (add() / subtract()
        # end in date arithmetic of the standard library)
        from .minieval import Raised
        raise Raised(f"raise reached: {type(e).__name__}: {e}", "OverflowError" if isinstance(e, OverflowError) or "out of range" in str(e) else type(e).__name__) from None


class World:
    _STATIC: dict[tuple[int, str], tuple] = {}

    def __init__(self, m: core.Mod, cls: str, skipped=frozenset(), repeated=frozenset(), extra: dict[str, ast.FunctionDef] | None = None, missing=frozenset()):
        self.m, self.cls = m, cls
        self.skipped, self.repeated = frozenset(skipped), frozenset(repeated)
        self.missing = frozenset(missing)        # whole days that do not exist in the zone (the date line moved: Pacific/Apia 2011-12-30): a wall time on one is the same wall time a day later
        key = (id(m), cls)
        if key not in World._STATIC:
            meths: dict[str, ast.FunctionDef] = dict(extra or {})
            meths.update(m.methods_mro(cls))
            props = {k for k, f in meths.items() if any(core.dotted(d) == "property" for d in f.decorator_list)}
            consts = minieval.module_consts(m)
            funcs = {st.name: st for st in m.top() if isinstance(st, ast.FunctionDef)}
            World._STATIC[key] = (m, meths, props, consts, funcs)
        _, self.meths, self.props, consts, funcs = World._STATIC[key]
        self.tz = Stub(name="Scenario/Zone", _eqkey="tz")
        self.ctor = ClassStub(_new=self._construct, _isa=lambda v: isinstance(v, Obj), create=self._create, instance=lambda v, *a, **k: v, _methods=lambda: self.meths, _funcs=None)
        self.glob: dict[str, Any] = dict(funcs)
        pend = Stub(datetime=self._create, date=lambda y, mo, d: self.date(_dt.date(y, mo, d)), instance=lambda v, *a, **k: v,
                    DateTime=self.ctor, Date=self.ctor)
        self.glob["$globals"] = {**consts, "WeekDay": WEEKDAY, "calendar": minieval.std_module("calendar"),
                                 "pendulum": pend, "ValueError": ValueError, "PendulumException": ValueError, "int": int, "str": str,
                                 "DateTime": self.ctor, "Date": self.ctor}

    # -- wall time resolution -------------------------------------------------------------------------------------
    def resolve(self, d: _dt.date, mins: int, fold: int) -> tuple[_dt.date, int]:
        if d in self.skipped and 0 <= mins < 60:
            if fold == 1:
                return d, mins + 60
            return d - _dt.timedelta(days=1), mins - 60 + 1440
        return d, mins

    def place(self, d: _dt.date, mins: int, fold: int, sub: tuple[int, int] = (0, 0)) -> Obj:
        """the value Timezone.convert leaves: a skipped wall time is moved with datetime arithmetic, which resets the fold to 0
        (`sub`: the seconds and microseconds below the minute, carried along)"""
        if self.cls == "DateTime" and d in self.missing:
            return self.datetime(d + _dt.timedelta(days=1), mins, 0, sub=sub)
        if d in self.skipped and 0 <= mins < 60:
            return self.datetime(*self.resolve(d, mins, fold), 0, sub=sub)
        return self.datetime(d, mins, fold, sub=sub)

    def sod(self, d: _dt.date) -> tuple[int, int]:
        """(wall minutes, fold) of the first existing instant of day d"""
        return (60 if d in self.skipped else 0), (0 if (d in self.repeated or d in self.skipped) else 1)

    # -- values ---------------------------------------------------------------------------------------------------
    def _construct(self, *a, **k):
        if self.cls == "Date":
            names = ["year", "month", "day"]
            f = dict(zip(names, a))
            f.update(k)
            return self.date(_dt.date(f["year"], f["month"], f["day"]))
        raise core.Unsupported("DateTime(...) constructed directly")

    def _create(self, year, month, day, hour=0, minute=0, second=0, microsecond=0, tz=None, fold=1, raise_on_unknown_times=False):
        return self.place(_dt.date(year, month, day), hour * 60 + minute, fold, (second, microsecond))

    def date(self, d: _dt.date) -> Obj:
        def set_(year=None, month=None, day=None):
            return self.date(_dt.date(d.year if year is None else year, d.month if month is None else month, d.day if day is None else day))

        def add(years=0, months=0, weeks=0, days=0):
            return self.date(_shift(d, years, months, weeks, days))

        def subtract(years=0, months=0, weeks=0, days=0):
            return self.date(_shift(d, -years, -months, -weeks, -days))

        def start_of(unit):
            if unit != "day":
                raise core.Unsupported(f"Date.start_of({unit!r}) in the scenario world")
            return self.date(d)
        return Obj(_methods=self.meths if self.cls == "Date" else {}, _props=self.props if self.cls == "Date" else set(), _ctor=self.ctor,
                   _natives={}, _date=d, _mins=None, _eqkey=(d.toordinal(), 0), _types=(_dt.date,),
                   year=d.year, month=d.month, day=d.day, day_of_week=WEEKDAYS[d.weekday()], quarter=(d.month - 1) // 3 + 1,
                   days_in_month=_calendar.monthrange(d.year, d.month)[1],
                   set=set_, replace=set_, on=set_, add=add, subtract=subtract, start_of=start_of, format=lambda f, *a, **k: _format(d, f),
                   weekday=d.weekday, isoweekday=d.isoweekday, toordinal=d.toordinal)

    def datetime(self, d: _dt.date, mins: int, fold: int, log: tuple = (), sub: tuple[int, int] = (0, 0)) -> Obj:
        w = self

        def fields(kw):
            bad = set(kw) - {"year", "month", "day", "hour", "minute", "second", "microsecond", "tz", "tzinfo", "fold"}
            if bad:
                raise core.Unsupported(f"fields {sorted(kw)} in the scenario world")
            g = lambda k, cur: cur if kw.get(k) is None else kw[k]        # noqa: E731
            return _dt.date(g("year", d.year), g("month", d.month), g("day", d.day)), g("hour", mins // 60) * 60 + g("minute", mins % 60), \
                (g("second", sub[0]), g("microsecond", sub[1]))

        def set_(year=None, month=None, day=None, hour=None, minute=None, second=None, microsecond=None, tz=None):
            nd, nm, ns = fields(dict(year=year, month=month, day=day, hour=hour, minute=minute, second=second, microsecond=microsecond))
            return w.place(nd, nm, fold, ns)

        def replace(year=None, month=None, day=None, hour=None, minute=None, second=None, microsecond=None, tzinfo=True, fold=None):
            f = vars(me)["fold"] if fold is None else fold
            nd, nm, ns = fields(dict(year=year, month=month, day=day, hour=hour, minute=minute, second=second, microsecond=microsecond))
            return w.place(nd, nm, f, ns)

        def on(year, month, day):
            return set_(year=year, month=month, day=day)

        def at(hour, minute=0, second=0, microsecond=0):
            return set_(hour=hour, minute=minute, second=second, microsecond=microsecond)

        def add(years=0, months=0, weeks=0, days=0, hours=0, minutes=0, seconds=0, microseconds=0):
            if hours or minutes or seconds or microseconds:
                raise core.Unsupported("clock units in the scenario world")
            return w.place(_shift(d, years, months, weeks, days), mins, 1, sub)

        def subtract(years=0, months=0, weeks=0, days=0, hours=0, minutes=0, seconds=0, microseconds=0):
            return add(-years, -months, -weeks, -days, -hours, -minutes, -seconds, -microseconds)

        def start_of(unit):
            if unit == "day":
                nd = d
            elif unit == "week":
                nd = d - _dt.timedelta(days=d.weekday())        # weeks start on Monday unless week_starts_at() says otherwise (C12)
            elif unit == "month":
                nd = d.replace(day=1)
            elif unit == "year":
                nd = d.replace(month=1, day=1)
            else:
                raise core.Unsupported(f"start_of({unit!r}) in the scenario world")
            sm, sf = w.sod(nd)
            return w.datetime(nd, sm, sf)

        def utcoffset():
            if d in w.repeated and mins < 60:
                return _dt.timedelta(hours=2 if fold == 0 else 1)
            raise core.Unsupported("utcoffset() away from a repeated hour in the scenario world")

        me = Obj(_methods=self.meths if self.cls == "DateTime" else {}, _props=self.props if self.cls == "DateTime" else set(), _ctor=self.ctor,
                 _natives={}, _date=d, _mins=mins, _sub=sub, _eqkey=(d.toordinal(), mins, sub), _types=(_dt.datetime,),
                 year=d.year, month=d.month, day=d.day, hour=mins // 60, minute=mins % 60, second=sub[0], microsecond=sub[1], fold=fold,
                 day_of_week=WEEKDAYS[d.weekday()], quarter=(d.month - 1) // 3 + 1, days_in_month=_calendar.monthrange(d.year, d.month)[1],
                 tz=self.tz, tzinfo=self.tz, timezone=self.tz, timezone_name="Scenario/Zone",
                 set=set_, replace=replace, on=on, at=at, add=add, subtract=subtract, start_of=start_of, utcoffset=utcoffset,
                 date=lambda: w.date(d), format=lambda f, *a, **k: _format(d, f), weekday=d.weekday, isoweekday=d.isoweekday,
                 naive=lambda: Stub(_eqkey=(d.toordinal(), mins, sub)))
        return me

    def call(self, recv: Obj, name: str, args: list[Any], kws: dict[str, Any] | None = None):
        return minieval.call(self.meths[name], [recv] + args, kws or {}, self.glob)


def _format(d: _dt.date, fmt: str) -> str:
    def tok(mo):
        t = mo.group(0)
        return {"YYYY": f"{d.year:04d}", "YY": f"{d.year % 100:02d}", "Y": str(d.year), "MM": f"{d.month:02d}", "M": str(d.month),
                "DD": f"{d.day:02d}", "D": str(d.day)}[t]
    return re.sub(r"YYYY|YY|Y|MM|M|DD|D", tok, fmt)


ERRORS = (core.Unsupported, KeyError, TypeError, AttributeError, IndexError, RecursionError, OverflowError, ZeroDivisionError)
