import json, subprocess, glob, os, shutil, tempfile
# where the first evaluation raised an alarm under another property than the one the refactoring was written for
extra = {"C03-w1":["C04","C06"],"C04-w1":["C06","C11"],"C11-w1":["C01","C02"],"C05-w1":["C06","C14","C19"],"C06-w1":["C05","C14"],"C17-w1":["C07","C13"],"C18-w1":["C08"]}
first = {"C01-w1":"C01 AWARE-INSTANT.kinds _safe_timezone/pytz (instance() through a conditional expression and an attrgetter: the routing through astimezone() was not recognised, and the value table had no tzinfo of the pytz kind)"}
import json as _json
n=0
for d in sorted(glob.glob('/tmp/wt/Z[0-9][0-9]/out/[0-9]*/')):
    pid = _json.load(open('/'.join(d.split('/')[:4])+'/PROPERTY.json'))['id']; k=d.split('/')[5]
    bid = f"{pid}-w{k}"
    tmp = tempfile.mkdtemp(prefix="pvs-store-")
    try:
        for sub in ("src/pendulum","rust/src"):
            shutil.copytree(f"/repo/{sub}", f"{tmp}/{sub}", ignore=shutil.ignore_patterns("*.so","__pycache__"))
        subprocess.run(["git","init","-q","."],cwd=tmp); subprocess.run(["git","add","-A"],cwd=tmp); subprocess.run(["git","-c","user.email=a@b","-c","user.name=x","commit","-qm","base"],cwd=tmp)
        r = subprocess.run(["git","apply",d+"patch.diff"],capture_output=True,text=True,cwd=tmp)
        if r.returncode: print(bid,"APPLY FAILED",r.stderr[:200]); continue
        diff = subprocess.run(["git","diff"],capture_output=True,text=True,cwd=tmp).stdout
        dst=f"/verif/benign/{bid}"; os.makedirs(dst, exist_ok=True)
        open(dst+"/patch.diff","w").write(diff)
        meta = json.load(open(d+"meta.json"))
        if os.path.exists(d+"equiv.py"): shutil.copy(d+"equiv.py", dst+"/equiv.py")
        out = {"property": pid, "round": 7, "kind": meta.get("kind"), "functions": meta.get("functions"), "why_equivalent": meta.get("why_equivalent"), "env": meta.get("env") or {},
               "author": "independent sub-agent given only the property text, the earlier refactorings to avoid, and a private worktree (nothing from /verif); asked for a refactoring of one named function: the functions the value rules of rounds 5-8 evaluate (instance, replace / set, create, _is_after, the parser chain, Interval.__init__, the week setters, ordinalize, the + / - delta helpers)",
               "verified_by_author": meta.get("verified"), "also_run_under": extra.get(bid, []), "first_evaluation": first.get(bid, "quiet"),
               "expected": "every check stays quiet (exit 0, no VIOLATION, no ANALYSIS-ERROR); UNVERIFIED lines are acceptable"}
        json.dump(out, open(dst+"/meta.json","w"), indent=1)
        n+=1
    finally:
        shutil.rmtree(tmp, ignore_errors=True)
print("stored",n)
