"""copy.copy / copy.deepcopy / pickle of an AbsoluteDuration built from a negative amount
must keep the sign (invert) and compare equal; positive ones and plain Durations keep working.
Expected values: the original object, hand-computed components and datetime.timedelta."""
import copy
import datetime as dt
import pickle
import sys

import pendulum
from pendulum.duration import AbsoluteDuration, Duration

failures = []


def check(label, got, want):
    if got != want:
        failures.append(f"{label}: got {got!r}, want {want!r}")


def components(d):
    return (
        d.years, d.months, d.weeks, d.remaining_days, d.hours, d.minutes,
        d.remaining_seconds, d.microseconds, d.seconds, d.total_seconds(), d.invert,
        dt.timedelta.__repr__(d).split("(", 1)[1],  # native (signed) fields
        repr(d),
    )


def copies(d):
    yield "copy.copy", copy.copy(d)
    yield "copy.deepcopy", copy.deepcopy(d)
    yield "deepcopy in list", copy.deepcopy([d])[0]
    for proto in range(pickle.HIGHEST_PROTOCOL + 1):
        yield f"pickle protocol {proto}", pickle.loads(pickle.dumps(d, proto))


# headline: Time.diff with an earlier time -> -2 h
d = pendulum.time(12).diff(pendulum.time(10))
check("headline type", type(d), AbsoluteDuration)
check("headline invert", d.invert, True)
check("headline native", dt.timedelta(days=d.days, seconds=dt.timedelta.seconds.__get__(d)), dt.timedelta(hours=-2))
for name, c in copies(d):
    check(f"headline {name} type", type(c), AbsoluteDuration)
    check(f"headline {name} invert", c.invert, True)
    check(f"headline {name} ==", c == d, True)
    check(f"headline {name} hours", (c.hours, c.minutes, c.remaining_seconds, c.total_seconds()), (2, 0, 0, 7200.0))
    check(f"headline {name} native", dt.timedelta(days=c.days, seconds=dt.timedelta.seconds.__get__(c)), dt.timedelta(hours=-2))

samples = [
    pendulum.time(23, 59, 59, 999999).diff(pendulum.time(0)),
    pendulum.time(0, 0, 1).diff(pendulum.time(0, 0, 0, 999999)),
    pendulum.time(10).diff(pendulum.time(12, 30, 15, 7)),  # positive
    AbsoluteDuration(microseconds=-1),
    AbsoluteDuration(days=-10, hours=-5, minutes=-4, seconds=-3, microseconds=-2),
    AbsoluteDuration(weeks=-3, days=2),
    AbsoluteDuration(years=2, months=3, days=-40, seconds=-1),
    AbsoluteDuration(years=2, months=3, weeks=1, days=4, hours=5, minutes=6, seconds=7, microseconds=8),
    AbsoluteDuration(),
    AbsoluteDuration(seconds=-86400),
    Duration(years=2, months=3, weeks=1, days=4, hours=5, minutes=6, seconds=7, microseconds=8),
    Duration(years=-2, months=-3, weeks=-1, days=-4, hours=-5, minutes=-6, seconds=-7, microseconds=-8),
    Duration(hours=-2),
    Duration(),
]
for i, d in enumerate(samples):
    want = components(d)
    for name, c in copies(d):
        check(f"sample {i} {d!r} {name} type", type(c), type(d))
        check(f"sample {i} {d!r} {name} ==", c == d, True)
        check(f"sample {i} {d!r} {name} components", components(c), want)

if failures:
    print(f"FAIL ({len(failures)})")
    for f in failures[:15]:
        print("  ", f)
    sys.exit(1)
print("OK")
