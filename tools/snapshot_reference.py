#!/venv/bin/python
"""Freeze the sources of the tree the rules were discharged on (the reference) under /verif/reference/.

The checks always analyse the *current* tree.  The snapshot is only consulted by pvs/sem.py: a function of the current
tree whose canonical path summaries equal those of the same function in the snapshot is analysed in its reference
form (renames, extracted helpers, inverted branches ... do not reach the shape rules); every other function is analysed
as it stands.  Re-run after each `fix:` commit:  tools/snapshot_reference.py [/repo]
"""
import json, shutil, subprocess, sys
from pathlib import Path
repo = Path(sys.argv[1] if len(sys.argv) > 1 else "/repo")
dst = Path(__file__).resolve().parent.parent / "reference"
for sub in ("src/pendulum", "rust/src"):
    if (dst / sub).exists():
        shutil.rmtree(dst / sub)
    shutil.copytree(repo / sub, dst / sub, ignore=shutil.ignore_patterns("*.so", "__pycache__", "*.pyc"))
head = subprocess.run(["git", "-C", str(repo), "rev-parse", "HEAD"], capture_output=True, text=True).stdout.strip()
dirty = subprocess.run(["git", "-C", str(repo), "status", "--porcelain", "--", "src", "rust/src"], capture_output=True, text=True).stdout.strip()
(dst / "REFERENCE.json").write_text(json.dumps({"commit": head, "dirty": bool(dirty)}, indent=1) + "\n")
print("reference snapshot of", head, "dirty" if dirty else "clean", "->", dst)
