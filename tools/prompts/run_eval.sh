#!/bin/bash
# evaluates every seed dir sequentially (shared verification worktree)
for d in /tmp/wt/C*/out/[0-9]*/; do
  id=$(echo $d | sed 's#/tmp/wt/\(C[0-9]*\)/out/\([0-9]*\)/#\1-\2#')
  [ -f /tmp/wt/results/$id.json ] && continue
  [ -f $d/meta.json ] && [ -f $d/patch.diff ] && [ -f $d/demo.py ] || continue
  /verif/tools/eval_seed.py $d > /tmp/wt/results/$id.json 2>/tmp/wt/results/$id.err
done
echo EVAL-DONE
