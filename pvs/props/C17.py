"""C17 — parse() is total: a supported value or a ValueError/ParserError, nothing else."""
from __future__ import annotations

import ast
import re

from .. import cfg, core, mirfront, rx
from ..core import nun, pmod, un
from ..rules import facts as F

EXPLANATION = (
    "Decided statically (exception-escape analysis restricted to four implicit-source classes that can be "
    "made exact, plus all explicit raises): (1) NULLABLE-GROUP: from the regex ASTs of COMMON, ISO8601_DT and "
    "ISO8601_DURATION the checker derives which named groups can be None and closes the dominating truthiness "
    "facts (if/elif/else, early exits, conditional expressions, aliases) under participation implications "
    "(mandatory inside an ancestor; the other alternative of a participating alternation); every int()/len()/"
    "slice/+/method use of a group value must be non-None; (2) UNBOUNDED-INT: digit groups without an upper "
    "bound flow into Duration/timedelta arithmetic that raises OverflowError - every such source on the call "
    "graph from pendulum.parse must lie under a handler for OverflowError; (3) CAST-UNION: at the "
    "construction of parsing._Interval every bound is None or proven to be a datetime (a date when no "
    "duration is present) and the duration proven a Duration on every path - cast() proves nothing; "
    "(4) the Rust arm maps every error to PyValueError, parser._parse's isinstance ladder covers the union so "
    "NotImplementedError is unreachable, the dateutil fall-back is reached only with strict=False and its "
    "documented OverflowError is handled; (5) every explicit raise in the parsing modules raises a ValueError "
    "subclass. With C13's MIR rule this also covers 'never a silently wrapped number'. NOT decided: that "
    "both back ends return the same value whenever both accept a string."
    " Also: the compiled Duration's fields are handed to pendulum.duration unit for unit."
    ' As built: CAST-UNION is decided by running _parse_iso8601_interval on every combination of half kinds (datetime / date / time / Duration stubs): only a date (a datetime next to a duration) may reach _Interval as a bound, only a Duration as the duration; the dominance-fact rule only decides for code outside the interpreter.'
)

USE_CALLS = {"int", "len", "float"}


def _group_of(expr: ast.AST, mname: str = "m") -> str | None:
    if isinstance(expr, ast.Call) and nun(expr.func) == f"{mname}.group" and len(expr.args) == 1 and isinstance(expr.args[0], ast.Constant):
        return expr.args[0].value
    return None


def _aliases(fn: ast.FunctionDef) -> dict[str, str]:
    """local name -> group, for names whose every plain assignment from m.group(...) names the same group"""
    out: dict[str, set[str]] = {}
    for n in core.walk_fn(fn):
        if isinstance(n, ast.Assign) and len(n.targets) == 1 and isinstance(n.targets[0], ast.Name):
            g = _group_of(n.value)
            if g is not None:
                out.setdefault(n.targets[0].id, set()).add(g)
    return {k: next(iter(v)) for k, v in out.items() if len(v) == 1}


def _participates(g: str, facts: set[tuple[str, bool]], G, B, alias_inv: dict[str, list[str]], depth: int = 0) -> bool:
    if depth > 8 or g not in G:
        return False
    grp = G[g]
    if grp.unconditional:
        return True
    atoms = [f"m.group('{g}')"] + alias_inv.get(g, [])
    if any((a, True) in facts or (f"{a} is None", False) in facts or (f"{a} is not None", True) in facts for a in atoms):
        return True
    if grp.parent is not None and not grp.optional_in_parent and _participates(grp.parent, facts, G, B, alias_inv, depth + 1):
        return True
    if grp.alt_cover is not None:
        bid, ai = grp.alt_cover
        br = B[bid]
        parent_ok = (br.parent is None and br.mandatory_in_parent) or \
            (br.parent is not None and br.mandatory_in_parent and _participates(br.parent, facts, G, B, alias_inv, depth + 1))
        if parent_ok:
            others = [j for j in range(br.n_alts) if j != ai]
            if others and all(j in br.covers and G[br.covers[j]].min_len > 0 and
                              any((a, False) in facts or (f"{a} is None", True) in facts or (f"{a} is not None", False) in facts
                                  for a in [f"m.group('{br.covers[j]}')"] + alias_inv.get(br.covers[j], []))
                              for j in others):
                return True
    return False


def _nullable_uses(ctx, modname: str, q: str, regex_name: str) -> None:
    m = pmod(modname)
    fn = m.func(q)
    try:
        pat = core.const(modname, regex_name)
    except core.Unsupported as e:
        ctx.unverified("NULLABLE-GROUP", f"{q}", str(e), m.rel)
        return
    G, B = rx.analyse(pat, re.VERBOSE)
    ctx.count("regex_groups", len(G))
    ctx.count("nullable_groups", sum(1 for g in G.values() if not g.unconditional))
    alias = _aliases(fn)
    # `_x = m.group('x') or 0` style aliases are never None
    safe_alias = set()
    for n in core.walk_fn(fn):
        if isinstance(n, ast.Assign) and isinstance(n.targets[0], ast.Name) and isinstance(n.value, ast.BoolOp) \
                and isinstance(n.value.op, ast.Or) and _group_of(n.value.values[0]) and isinstance(n.value.values[-1], ast.Constant):
            safe_alias.add(n.targets[0].id)
    alias_inv: dict[str, list[str]] = {}
    for k, v in alias.items():
        alias_inv.setdefault(v, []).append(k)
    for n in core.walk_fn(fn):
        subject = None
        kind = None
        if isinstance(n, ast.Call) and nun(n.func) in USE_CALLS and n.args:
            subject, kind = n.args[0], f"{nun(n.func)}()"
        elif isinstance(n, ast.BinOp) and isinstance(n.op, ast.Add):
            for side in (n.left, n.right):
                if _group_of(side) or (isinstance(side, ast.Name) and side.id in alias):
                    subject, kind = side, "+"
                    _check_use(ctx, m, q, n, subject, kind, alias, safe_alias, alias_inv, G, B)
            continue
        elif isinstance(n, ast.Subscript) and isinstance(n.ctx, ast.Load):
            subject, kind = n.value, "[...]"
        elif isinstance(n, ast.Call) and isinstance(n.func, ast.Attribute) and nun(n.func.value) != "m":
            subject, kind = n.func.value, f".{n.func.attr}()"
        if subject is not None:
            _check_use(ctx, m, q, n, subject, kind, alias, safe_alias, alias_inv, G, B)


def _check_use(ctx, m, q, node, subject, kind, alias, safe_alias, alias_inv, G, B) -> None:
    subject = core.strip_casts(subject)
    g = _group_of(subject)
    if g is None and isinstance(subject, ast.Name) and subject.id in alias and subject.id not in safe_alias:
        g = alias[subject.id]
        # an alias re-assigned from a str method of itself stays non-None only if it was non-None before
    if g is None or g not in G:
        return
    facts = F.facts_at(node)
    ok = _participates(g, facts, G, B, alias_inv)
    ctx.ob("NULLABLE-GROUP", f"{q}/{kind}@{g}", ok,
           f"`{un(node)[:60]}` uses group '{g}', which the pattern allows to be None here (facts: "
           f"{sorted(a for a, p in facts if p and 'group' in a)[:4]}); a None reaches {kind} and raises TypeError/AttributeError "
           f"instead of ParserError" if not ok else f"group '{g}' participates whenever this is reached", m.loc(node))


# ---------------------------------------------------------------------------


CHAIN = [("parser", "parse"), ("parser", "_parse"), ("parsing", "parse"), ("parsing", "_parse"),
         ("parsing.iso8601", "parse_iso8601"), ("parsing.iso8601", "_parse_iso8601_duration")]
CALLS = {  # (module, function) -> callees on the parse path, by the name used at the call site
    ("parser", "parse"): {"_parse": ("parser", "_parse")},
    ("parser", "_parse"): {"base_parse": ("parsing", "parse")},
    ("parsing", "parse"): {"_parse": ("parsing", "_parse"), "_normalize": ("parsing", "_normalize")},
    ("parsing", "_parse"): {"parse_iso8601": ("parsing.iso8601", "parse_iso8601"), "_parse_iso8601_interval": ("parsing", "_parse_iso8601_interval"),
                            "_parse_common": ("parsing", "_parse_common")},
    ("parsing", "_parse_iso8601_interval"): {"parse_iso8601": ("parsing.iso8601", "parse_iso8601")},
    ("parsing.iso8601", "parse_iso8601"): {"_parse_iso8601_duration": ("parsing.iso8601", "_parse_iso8601_duration"),
                                           "_get_iso_8601_week": ("parsing.iso8601", "_get_iso_8601_week")},
}
CATCHES_OVERFLOW = {"OverflowError", "ArithmeticError", "Exception", "BaseException"}


def _handled_from_entry(target: tuple[str, str]) -> tuple[bool, list[str]]:
    """Is every call chain entry -> target under a handler for OverflowError?  Returns (ok, unprotected chains)."""
    bad: list[str] = []

    def dfs(cur, chain, protected):
        if cur == target:
            if not protected:
                bad.append(" -> ".join(f"{a}.{b}" for a, b in chain))
            return
        fn = pmod(cur[0]).func(cur[1])
        for c in core.calls(fn):
            name = nun(c.func)
            nxt = CALLS.get(cur, {}).get(name)
            if nxt is None or nxt in chain:
                continue
            prot = protected or bool(set(F.enclosing_handlers(c)) & CATCHES_OVERFLOW)
            dfs(nxt, chain + [nxt], prot)
    dfs(("parser", "parse"), [("parser", "parse")], False)
    return not bad, bad


def _overflow(ctx) -> None:
    # sources: constructors / arithmetic fed by unbounded numbers
    G, _B = rx.analyse(core.const("parsing.iso8601", "ISO8601_DURATION"), re.VERBOSE)
    unbounded = sorted(g.name for g in G.values() if g.max_len is None and g.name in ("weeks", "years", "months", "days", "hours", "minutes", "seconds"))
    ctx.count("unbounded_digit_groups", len(unbounded))
    sources: list[tuple[tuple[str, str], ast.AST, str]] = []
    im = pmod("parsing.iso8601")
    for c in core.calls(im.func("_parse_iso8601_duration")):
        if nun(c.func) == "Duration":
            sources.append((("parsing.iso8601", "_parse_iso8601_duration"), c, f"Duration(...) built from the unbounded groups {unbounded}"))
    pm = pmod("parser")
    for c in core.calls(pm.func("_parse")):
        f = nun(c.func)
        if f in ("dt.add", "dt.subtract", "pendulum.duration"):
            sources.append((("parser", "_parse"), c, f"{f}(...) with components of a parsed duration"))
    gm = pmod("parsing")
    for c in core.calls(gm.func("_parse")):
        if nun(c.func) == "parser.parse":
            sources.append((("parsing", "_parse"), c, "dateutil's parser.parse (documents OverflowError)"))
    for home, call, what in sources:
        local = bool(set(F.enclosing_handlers(call)) & CATCHES_OVERFLOW)
        ok_chain, bad = _handled_from_entry(home)
        ok = local or ok_chain
        ctx.ob("UNBOUNDED-INT", f"{home[0]}.{home[1]}/{nun(call.func)}", ok,
               f"{what} can raise OverflowError; " + ("a handler for it lies on every call chain from pendulum.parse" if ok else
                                                     f"no handler on the chain(s) {bad[:2]}: it escapes parse() as OverflowError"),
               pmod(home[0]).loc(call))
    if len(sources) >= 4:
        ctx.ob("UNBOUNDED-INT.sources", "parse-path", True, f"{len(sources)} OverflowError sources identified on the parse path", "src/pendulum/parser.py")
    else:
        from .. import sem
        if sem.reference_available() and sem.changed_files():
            # the sites are written another way on this tree: the inventory is incomplete, which is no finding about the code
            ctx.unverified("UNBOUNDED-INT.sources", "parse-path", f"only {len(sources)} of the OverflowError sources known on the reference tree were recognised", "src/pendulum/parser.py")
        else:
            ctx.ob("UNBOUNDED-INT.sources", "parse-path", False, f"{len(sources)} OverflowError sources identified on the parse path", "src/pendulum/parser.py")
    # the handler converts to ParserError
    fn = pm.func("parse")
    hs = [h for n in core.walk_fn(fn) if isinstance(n, ast.Try) for h in n.handlers]
    for h in hs:
        if h.type is not None and un(h.type) in CATCHES_OVERFLOW:
            rz = [s for s in h.body if isinstance(s, ast.Raise)]
            ok = len(rz) == 1 and isinstance(rz[0].exc, ast.Call) and nun(rz[0].exc.func) in ("ParserError", "ValueError")
            ctx.ob("UNBOUNDED-INT.convert", "parser.parse/handler", ok, "the OverflowError handler must re-raise ParserError", pm.loc(h))


def _interval_types_tabulate(ctx, m, fn, accepts: bool = False) -> bool:
    """CAST-UNION, decided on values: _parse_iso8601_interval is evaluated with the checker's interpreter for every
    combination of what parse_iso8601() can hand back for the two halves (a `P...` half: a Duration; any other half: a
    datetime, a date or a time - stubs that only know their kind).  Every combination must end in ParserError or in
    _Interval(start, end, duration) whose bounds are dates (datetimes when a duration is applied to them) and whose
    duration is None or a Duration; the three well-formed shapes must be accepted.  False: outside the interpreter."""
    from ..rules import minieval
    KINDS = {"datetime": ("datetime", "date"), "date": ("date",), "time": ("time",), "Duration": ("Duration", "timedelta")}

    def klass(name):
        return minieval.ClassStub(_new=lambda *a, **k: (_ for _ in ()).throw(core.Unsupported(f"{name}() constructed")),
                                  _isa=lambda v, n=name: isinstance(v, minieval.Stub) and n in KINDS.get(getattr(v, "_kind", ""), ()))
    funcs = {st.name: st for st in m.top() if isinstance(st, ast.FunctionDef)}
    imeths = {k: f for k, f in (m.methods("_Interval") if m.has_cls("_Interval") else {}).items() if k not in ("__init__", "__new__")}
    texts = {"datetime": "2000-01-01T10:00:00", "date": "2000-01-01", "time": "10:00:00", "Duration": "P1D"}
    bad: dict[str, str] = {}
    accepted = set()
    n = 0
    try:
        for k1 in KINDS:
            for k2 in KINDS:
                t1, t2 = texts[k1], texts[k2].replace("2000", "2001").replace("P1D", "P2D")
                vals = {t1: minieval.Stub(_kind=k1, _text=t1), t2: minieval.Stub(_kind=k2, _text=t2)}
                built = []

                def mk(*a, **k):
                    built.append((a, k))
                    f_ = dict(zip(("start", "end", "duration"), a))
                    f_.update(k)
                    # the record class of the analysed module: its own methods (a validation step, ...) are interpreted on the instance
                    return minieval.Obj(_methods=imeths, _props=set(), _natives={}, _ctor=None, _interval=True, **{x: f_.get(x) for x in ("start", "end", "duration")})
                glob = {"parse_iso8601": minieval.ClassStub(_new=lambda t, *a, **k: vals[t], _isa=lambda v: False),
                        "_Interval": minieval.ClassStub(_new=mk, _isa=lambda v: False), "ParserError": ValueError, "ValueError": ValueError,
                        **{c: klass(c) for c in ("datetime", "date", "time", "Duration", "timedelta")}}
                n += 1
                try:
                    got = minieval.call(fn, [f"{t1}/{t2}"], {}, {**funcs, "$globals": glob})
                except ValueError as e:
                    if "raise reached" in str(e):
                        continue
                    raise
                if not (isinstance(got, minieval.Stub) and getattr(got, "_interval", False) and len(built) == 1):
                    raise core.Unsupported("does not return _Interval(...)")
                b = dict(zip(("start", "end", "duration"), built[0][0]))
                b.update(built[0][1])
                accepted.add((k1, k2))
                d = b.get("duration")
                if d is not None and getattr(d, "_kind", None) != "Duration":
                    bad.setdefault("duration", f"for a {k1} / {k2} pair a {getattr(d, '_kind', d)!r} reaches _Interval as the duration")
                for role in ("start", "end"):
                    v = b.get(role)
                    if v is None:
                        continue
                    kind = getattr(v, "_kind", None)
                    need = "datetime" if d is not None else "date"
                    if need not in KINDS.get(kind, ()):
                        bad.setdefault(role, f"for a {k1} / {k2} pair a {kind} reaches _Interval as the {role}" +
                                       (" next to a duration (which has to be added to it)" if d is not None else "") +
                                       ": AttributeError/TypeError later instead of ParserError")
    except (core.Unsupported, KeyError, TypeError, AttributeError, ValueError, IndexError, RecursionError) as e:
        ctx.unverified("CAST-UNION.tabulated", "_parse_iso8601_interval", f"outside the checker's interpreter: {type(e).__name__}: {str(e)[:160]}", m.loc(fn))
        return False
    if not bad:
        ctx.established(("CAST-UNION",), "_parse_iso8601_interval", "CAST-UNION.tabulated")
    for want in (("datetime", "datetime"), ("Duration", "datetime"), ("datetime", "Duration"), ("date", "date")):
        if want not in accepted:
            bad.setdefault("accepts", f"a well-formed {want[0]} / {want[1]} interval is refused")
    for role in ("start", "end", "duration"):
        ctx.ob("CAST-UNION", f"_parse_iso8601_interval/{role}", role not in bad,
               bad.get(role, f"{n} combinations of half kinds evaluated: only a date (datetime next to a duration) reaches _Interval as a bound, "
                             f"only a Duration as the duration"), m.loc(fn))
    if accepts:          # C13's clause (the three shapes parse); C17 only asks for ParserError or a well-typed Interval
        ctx.ob("INTERVAL.accepts", "_parse_iso8601_interval", "accepts" not in bad, bad.get("accepts", f"accepted: {sorted(accepted)}"), m.loc(fn))
    return True


def _interval_types(ctx, accepts: bool = False) -> None:
    m = pmod("parsing")
    fn = m.func("_parse_iso8601_interval")
    if _interval_types_tabulate(ctx, m, fn, accepts):
        sp = [n for n in core.walk_fn(fn) if isinstance(n, ast.Assign) and isinstance(n.targets[0], ast.Tuple) and ".split(" in un(n.value)]
        ctx.ob("CAST-UNION.split", "_parse_iso8601_interval/split", len(sp) == 1, "tuple-unpack of split('/') raises ValueError for != 2 parts (allowed)",
               m.loc(fn), nontrivial=False)
        return
    ctor = [c for c in core.calls(fn) if nun(c.func) == "_Interval"]
    if len(ctor) != 1:
        ctx.unverified("CAST-UNION", "_parse_iso8601_interval", "_Interval(...) construction not found", m.loc(fn))
        return
    c = ctor[0]
    b = core.bind(c, ["start", "end", "duration"])
    facts = F.facts_at(c)
    # validation loop `for bound in (start, end): if bound is not None and not isinstance(bound, T): raise`
    loop_checked: dict[str, str] = {}
    for n in core.walk_fn(fn):
        if isinstance(n, ast.For) and isinstance(n.target, ast.Name) and isinstance(n.iter, (ast.Tuple, ast.List)) and n.lineno < c.lineno:
            v = n.target.id
            for s in n.body:
                if isinstance(s, ast.If) and F.always_exits(s.body) and not s.orelse:
                    for conj in [cfg.decide(s.test, False)]:
                        common = set(conj[0]).intersection(*map(set, conj[1:])) if conj else set()
                        # after the if: (v is None) or isinstance(v, T)
                        pass
                    t = nun(s.test)
                    mm = re.match(rf"^{v} is not None and \(?not isinstance\({v}, (.+?)\)\)?$", t)
                    if mm:
                        for e in n.iter.elts:
                            loop_checked[nun(e)] = mm.group(1)
    for role in ("start", "end"):
        x = nun(core.strip_casts(b[role])) if role in b else None
        if x is None:
            continue
        proven = None
        if x in loop_checked:
            proven = loop_checked[x]
        for a, pol in facts:
            mm = re.match(rf"^isinstance\({x}, (.+)\)$", a)
            if mm and pol:
                proven = mm.group(1)
        ok = proven in ("datetime", "date if duration is None else datetime", "datetime if duration is not None else date")
        ctx.ob("CAST-UNION", f"_parse_iso8601_interval/{role}", ok,
               f"`{x}` comes from parse_iso8601() (datetime | date | time | Duration) and reaches _Interval as the {role}: "
               + (f"validated by isinstance({x}, {proven})" if ok else
                  f"no isinstance check (only {proven!r}) dominates the construction - a cast() proves nothing, a time or a "
                  f"Duration half raises AttributeError/TypeError later"), m.loc(c))
    x = nun(core.strip_casts(b["duration"])) if "duration" in b else None
    if x is not None:
        ok = any(re.match(rf"^{x} is None$", a) and pol is True for a, pol in facts) is False and \
            any((a == f"isinstance({x}, Duration)" and pol) or (a == f"{x} is None" and not pol) for a, pol in facts)
        # accepted idiom: `if duration is not None and not isinstance(duration, Duration): raise`
        idiom = any(isinstance(n, ast.If) and nun(n.test) == f"{x} is not None and (not isinstance({x}, Duration))" and F.always_exits(n.body)
                    and n.lineno < c.lineno for n in core.walk_fn(fn))
        idiom = idiom or any(isinstance(n, ast.If) and nun(n.test) == f"{x} is not None and not isinstance({x}, Duration)" and F.always_exits(n.body)
                             and n.lineno < c.lineno for n in core.walk_fn(fn))
        ctx.ob("CAST-UNION", "_parse_iso8601_interval/duration", ok or idiom,
               f"`{x}` reaches _Interval as the duration; it must be None or proven a Duration before", m.loc(c))
    # split arity: `first, last = text.split("/")` raises ValueError for another count - allowed
    sp = [n for n in core.walk_fn(fn) if isinstance(n, ast.Assign) and isinstance(n.targets[0], ast.Tuple) and ".split(" in un(n.value)]
    ctx.ob("CAST-UNION.split", "_parse_iso8601_interval/split", len(sp) == 1, "tuple-unpack of split('/') raises ValueError for != 2 parts (allowed)", m.loc(fn),
           nontrivial=False)


def _rust_and_ladder(ctx) -> None:
    from . import C13
    C13.parse_results_tabulate(ctx)
    pm = pmod("parser")
    fn = pm.func("_parse")
    classes = set()
    for n in core.walk_fn(fn):
        if isinstance(n, ast.Call) and nun(n.func) == "isinstance" and nun(n.args[0]) == "parsed":
            classes.add(nun(n.args[1]))
    need = {"datetime.datetime", "datetime.date", "datetime.time", "_Interval", "Duration", "RustDuration"}
    ctx.ob("LADDER.exhaustive", "parser._parse/isinstance-ladder", need <= classes,
           f"ladder tests {sorted(classes)}; the union returned by parsing.parse is {sorted(need)} - a missing arm reaches "
           f"`raise NotImplementedError`", pm.loc(fn))
    try:
        mir = mirfront.load()
    except mirfront.MirUnavailable as e:
        ctx.unverified("RUST.errors", "python/parsing.rs", f"MIR unavailable: {e}", "rust/")
        return
    f = mir.fn("parse_iso8601")
    errs = [s.callee for _b, s in f.calls() if "new_err" in s.callee]
    ok = bool(errs) and all("PyValueError" in e for e in errs)
    ctx.ob("RUST.errors", "rs:parse_iso8601/new_err", ok, f"error constructors used: {sorted(set(e[:60] for e in errs))}; every parse error must become ValueError",
           "rust/src/python/parsing.rs")
    ctx.count("rust_error_sites", len(errs))


def _chain_tabulate(ctx, m, fn) -> bool | None:
    """CHAIN.tabulated: parsing.parse -> parsing._parse run by the checker's interpreter with the three parsers, dateutil and the final normalisation replaced by stubs that answer or
    refuse as the case says: the first parser that accepts (ISO 8601, ISO 8601 interval, common formats - in this order) gives the
    result; a refusal (ValueError from the ISO parsers, ParserError from the common one) hands over; when all refuse, strict (the
    default) raises ParserError and dateutil is not consulted, non-strict returns dateutil's answer, and a ValueError / OverflowError of
    dateutil becomes ParserError."""
    from ..rules import minieval
    R = minieval.Raised
    bad, n = [], 0
    # through the entry point of the module (the options completed from the defaults; an error of dateutil may be turned into ParserError there)
    entry = m.func("parse") if m.has_func("parse") else fn
    try:
        for iso in ("ok", "ValueError", "ParserError"):
            for iv in ("ok", "ValueError", "ParserError"):
                for common in ("ok", "ParserError"):
                    for strict in (None, True, False):
                        for du in ("ok", "ValueError", "OverflowError"):
                            if (strict is not False or "ok" in (iso, iv, common)) and du != "ok":
                                continue
                            asked = []

                            def stub(tag, how, opts_wanted=False):
                                def f(text, **k):
                                    asked.append(tag)
                                    if opts_wanted and {"day_first", "year_first"} - set(k):
                                        raise core.Unsupported(f"{tag} is called without the options")
                                    if how != "ok":
                                        raise R(f"raise reached: {how}", how)
                                    return minieval.Stub(_from=tag)
                                return f

                            def dateutil(text, **k):
                                asked.append("dateutil")
                                if set(k) != {"dayfirst", "yearfirst"} or k["dayfirst"] != "DF" or k["yearfirst"] != "YF":
                                    raise core.Unsupported("dateutil is called with other options")
                                if du != "ok":
                                    raise R(f"raise reached: {du}", du)
                                return minieval.Stub(_from="dateutil")
                            funcs = {st.name: st for st in m.top() if isinstance(st, ast.FunctionDef) and st.name not in ("parse_iso8601", "_parse_iso8601_interval", "_parse_common", "_normalize")}
                            glob = {"parse_iso8601": stub("iso", iso), "_parse_iso8601_interval": stub("interval", iv), "_parse_common": stub("common", common, True),
                                    "parser": minieval.Stub(parse=dateutil), "contextlib": minieval.Stub(suppress=None), "suppress": None,
                                    "_normalize": lambda parsed, **o: parsed, "copy": minieval.Stub(copy=lambda d_: dict(d_), deepcopy=lambda d_: dict(d_)),
                                    "ParserError": minieval.Stub(_exc_name="ParserError"), "ValueError": ValueError, "OverflowError": OverflowError, "TypeError": TypeError}
                            opts = {"day_first": "DF", "year_first": "YF", **({} if strict is None else {"strict": strict})}
                            n += 1
                            label = f"ISO {iso}, interval {iv}, common {common}, strict={'default' if strict is None else strict}" + (f", dateutil {du}" if strict is False and "ok" not in (iso, iv, common) else "")
                            try:
                                got = ("value", getattr(minieval.call(entry, ["text"], opts, {**funcs, "$globals": glob}), "_from", "?"))
                            except R as e:
                                got = ("raises", e.exc_name)
                            if iso == "ok":
                                want, order = ("value", "iso"), ["iso"]
                            elif iv == "ok":
                                want, order = ("value", "interval"), ["iso", "interval"]
                            elif common == "ok":
                                want, order = ("value", "common"), ["iso", "interval", "common"]
                            elif strict is not False:
                                want, order = ("raises", "ParserError"), ["iso", "interval", "common"]
                            else:
                                want, order = (("value", "dateutil") if du == "ok" else ("raises", "ParserError")), ["iso", "interval", "common", "dateutil"]
                            if got != want:
                                bad.append(f"{label}: {got[0]} {got[1]} (expected: {want[0]} {want[1]})")
                            elif asked != order:
                                bad.append(f"{label}: the parsers are consulted in the order {asked} (expected {order})")
    except (core.Unsupported, KeyError, TypeError, AttributeError, ValueError, IndexError, RecursionError) as e:
        ctx.unverified("CHAIN.tabulated", "parsing._parse", f"outside the checker's interpreter: {type(e).__name__}: {str(e)[:160]}", m.loc(fn))
        return None
    ctx.ob("CHAIN.tabulated", "parsing._parse", not bad, f"{n} (parser outcomes, strict, dateutil outcome) cases: " + (f"wrong: {bad[:3]}" if bad else
           "first accepting parser in the order ISO 8601 / interval / common; all refusing: ParserError when strict, else dateutil (its errors as ParserError)"), m.loc(fn))
    if not bad:
        ctx.established(("STRICT.chain", "STRICT.gate", "STRICT.errors"), "parsing._parse", "CHAIN.tabulated")
    return not bad


def _strict_gate(ctx) -> None:
    m = pmod("parsing")
    fn = m.func("_parse")
    _chain_tabulate(ctx, m, fn)
    for c in core.calls(fn):
        if nun(c.func) == "parser.parse":
            facts = F.facts_at(c)
            ok = ("options.get('strict', True)", False) in facts
            ctx.ob("STRICT.gate", "parsing._parse/dateutil", ok,
                   f"the dateutil fall-back is reached under {sorted(facts)}; it must require strict to be false", m.loc(c))
            hs = set(F.enclosing_handlers(c))
            # OverflowError may be turned into ParserError at the call itself or further out on the only route to it:
            # around the `_parse(...)` call in pendulum.parsing.parse
            outer: set = set()
            try:
                pf = m.func("parse")
                for c2 in core.calls(pf):
                    if nun(c2.func) == "_parse":
                        outer |= set(F.enclosing_handlers(c2))
            except core.AnchorMissing:
                pass
            ctx.ob("STRICT.errors", "parsing._parse/dateutil-handlers", bool((hs | outer) & CATCHES_OVERFLOW),
                   f"handlers around dateutil: {sorted(hs)}, around _parse() in parsing.parse: {sorted(outer)}; dateutil documents OverflowError "
                   f"besides ValueError, it must not escape parse()", m.loc(c))
    d = core.const("parsing", "DEFAULT_OPTIONS")
    ctx.ob("STRICT.default", "DEFAULT_OPTIONS/strict", d.get("strict") is True, f"{d}", m.rel)
    # the three suppress blocks only swallow ValueError-family errors and each returns its parser's result
    sup = sorted((n for n in core.walk_fn(fn) if isinstance(n, ast.With)), key=lambda n: n.lineno)
    got = [(sorted(a for it in w.items for a in ([un(x) for x in it.context_expr.args] if isinstance(it.context_expr, ast.Call) else [])),
            nun(w.body[0])) for w in sup]
    ctx.ob("STRICT.chain", "parsing._parse/fallback-chain", [g[1] for g in got] ==
           ["return parse_iso8601(text)", "return _parse_iso8601_interval(text)", "return _parse_common(text, **options)"],
           f"fall-back chain {got}", m.loc(fn))


def _explicit_raises(ctx) -> None:
    allowed = {"ParserError", "ValueError"}
    table = {("parser", "_parse", "NotImplementedError"): "unreachable: the isinstance ladder is exhaustive (LADDER.exhaustive)"}
    n = 0
    for modname in ("parser", "parsing", "parsing.iso8601"):
        m = pmod(modname)
        for st in m.top():
            if not isinstance(st, ast.FunctionDef):
                continue
            for r in core.walk_fn(st):
                if isinstance(r, ast.Raise):
                    n += 1
                    if r.exc is None:
                        continue      # bare re-raise inside a handler
                    cls = nun(r.exc.func) if isinstance(r.exc, ast.Call) else nun(r.exc)
                    ok = cls in allowed or (modname, st.name, cls) in table
                    ctx.ob("EXC.explicit", f"{modname}.{st.name}/raise {cls}", ok,
                           table.get((modname, st.name, cls), f"raises {cls}" + ("" if ok else ": not a ValueError subclass and not in the "
                                                                               "infeasible-from-entry table")), m.loc(r), nontrivial=cls not in allowed)
    ctx.count("explicit_raises", n)
    pe = pmod("parsing.exceptions")
    ctx.ob("EXC.hierarchy", "ParserError", [un(b) for b in pe.cls("ParserError").bases] == ["ValueError"], "ParserError(ValueError)", pe.rel)


def _backend_agreement(ctx) -> None:
    """'whenever both back ends accept a string they return the same value': the structural sibling rules of C07
    (table searches, week dates, offsets) and C13 (durations) are the decidable part of this clause."""
    from . import C07, C13
    ctx.step(C07._py_iso_tabulate, ctx)           # the Python date-time parser: the value denoted, or a ValueError - never another exception (first: it dominates the way the searches are written)
    C07._py_forward(ctx)
    C07._py_backward(ctx)
    ctx.step(C13._py_duration_tabulate, ctx)      # the Python duration parser yields the exact value (the compiled one: C13's MIR rules)
    try:
        mir = mirfront.load()
        from .. import mirsym
        sf = mirsym.struct_fields_from_source((core.REPO / "rust/src/parsing.rs").read_text())
    except mirfront.MirUnavailable:
        ctx.step(C07._fraction, ctx, None)
        return
    ctx.step(C07._rs_iso_tabulate, ctx, mir)      # the compiled parsers on the same tables: the same values, the same refusals
    ctx.step(C13._rs_duration_tabulate, ctx)
    C07._rs_forward(ctx, mir, sf)
    C07._week(ctx, mir, sf)
    ctx.step(C07._fraction, ctx, mir)       # sub-second digits: cut to six and right-padded, in both parsers
    ctx.step(C07._offset, ctx, mir, sf)     # UTC offsets: the same value for every offset string, in both parsers
    ctx.step(C07._offset_starters, ctx, mir)
    ctx.step(C07._separators, ctx, mir)
    C13._interval_assembly(ctx)  # the compiled Duration's fields are handed to pendulum.duration unit for unit
    C13._rust_arith(ctx)        # 'never a value computed from silently wrapped-around numbers'
    ctx.step(C13._rust_fraction_radix, ctx)


def run(ctx) -> None:
    ctx.explanation = EXPLANATION
    ctx.step(_nullable_uses, ctx, "parsing", "_parse_common", "COMMON")
    ctx.step(_nullable_uses, ctx, "parsing.iso8601", "parse_iso8601", "ISO8601_DT")
    ctx.step(_nullable_uses, ctx, "parsing.iso8601", "_parse_iso8601_duration", "ISO8601_DURATION")
    ctx.step(_overflow, ctx)
    ctx.step(_interval_types, ctx)
    ctx.step(_rust_and_ladder, ctx)
    ctx.step(_strict_gate, ctx)
    ctx.step(_explicit_raises, ctx)
    ctx.step(_backend_agreement, ctx)
    ctx.expect_min("NULLABLE-GROUP", 25)
    ctx.expect_min("UNBOUNDED-INT", 5)
    ctx.expect_min("CAST-UNION", 3)
    ctx.expect_min("EXC.explicit", 8)
    ctx.assumptions += [
        "may-raise table: int(None)/len(None)/None[...]/None + str -> TypeError, None.method -> AttributeError; "
        "datetime()/date()/time() -> ValueError; timedelta/date arithmetic out of range -> OverflowError; "
        "tuple-unpack of split -> ValueError; dateutil.parser.parse -> ValueError | OverflowError (its documentation)",
        "only the four implicit-source classes named in the explanation are analysed; other implicit exceptions are outside the claim",
    ]
