"""
Pure-Python ISO 8601 duration parser: a decimal fraction is the decimal
fraction its digits denote.  Run with PENDULUM_EXTENSIONS=0.
"""
import os
import sys

from datetime import timedelta
from fractions import Fraction

if os.environ.get("PENDULUM_EXTENSIONS") != "0":
    print("this demo must be run with PENDULUM_EXTENSIONS=0")
    sys.exit(2)

import pendulum

from pendulum.parsing.iso8601 import parse_iso8601

failures = []

UNIT_SECONDS = {"W": 7 * 86400, "D": 86400, "H": 3600, "M": 60, "S": 1}


def expected_microseconds(whole, digits, unit):
    """exact value, rounded half up to the microsecond, with the stdlib only"""
    value = (whole + Fraction(int(digits), 10 ** len(digits))) * UNIT_SECONDS[unit]
    us = value * 1_000_000
    return (2 * us.numerator + us.denominator) // (2 * us.denominator)


def check(text, expected_td):
    for parse in (parse_iso8601, pendulum.parse):
        try:
            d = parse(text)
        except Exception as e:  # noqa: BLE001
            failures.append(f"{text}: raised {type(e).__name__}: {e}")
            return
        got = timedelta(
            weeks=d.weeks,
            days=d.remaining_days,
            hours=d.hours,
            minutes=d.minutes,
            seconds=d.remaining_seconds,
            microseconds=d.microseconds,
        )
        if got != expected_td or d.years or d.months:
            failures.append(f"{text}: got {d!r} ({got!r}), expected {expected_td!r}")


# hand-computed values
check("P1.25W", timedelta(weeks=1, days=1, hours=18))
check("P1.5W", timedelta(weeks=1, days=3, hours=12))
check("P0.01W", timedelta(hours=1, minutes=40, seconds=48))
check("P2,75W", timedelta(weeks=2, days=5, hours=6))
check("P1.25D", timedelta(days=1, hours=6))
check("P0.001D", timedelta(minutes=1, seconds=26, microseconds=400000))
check("PT1.25H", timedelta(hours=1, minutes=15))
check("PT1.5H", timedelta(hours=1, minutes=30))
check("PT0.125H", timedelta(minutes=7, seconds=30))
check("PT1.25M", timedelta(minutes=1, seconds=15))
check("PT2.50M", timedelta(minutes=2, seconds=30))
check("PT1.5S", timedelta(seconds=1, microseconds=500000))
check("PT1.1234567S", timedelta(seconds=1, microseconds=123457))
check("PT0.9999996S", timedelta(seconds=1))
check("PT1.000001S", timedelta(seconds=1, microseconds=1))
# carry of a fractional week below the hour: 0.142857 * 7 d = 0.999999 d
check("P1.142857W", timedelta(weeks=1, seconds=86399, microseconds=913600))

# systematic sweep against exact rational arithmetic
for unit, prefix in (("W", "P"), ("D", "P"), ("H", "PT"), ("M", "PT"), ("S", "PT")):
    for whole in (0, 3):
        for digits in ("1", "5", "25", "50", "05", "125", "333", "4567", "99999",
                       "000001", "1234564", "1234566", "98765432"):
            text = f"{prefix}{whole}.{digits}{unit}"
            check(text, timedelta(microseconds=expected_microseconds(whole, digits, unit)))

# a fraction in front of other components keeps them
d = parse_iso8601("P1Y2M3DT4.25H")
if (d.years, d.months, d.remaining_days, d.hours, d.minutes, d.remaining_seconds) != (
    1, 2, 3, 4, 15, 0,
):
    failures.append(f"P1Y2M3DT4.25H: got {d!r}")

if failures:
    print("\n".join(failures))
    sys.exit(1)
print("ok")
