"""C11 — DateTime/Date/Time are drop-in replacements (override inventory clauses)."""
from __future__ import annotations

import ast
import os
import re

from .. import cfg, core
from ..core import nun, pmod, un
from ..rules import recon

EXPLANATION = (
    "Decided statically: (1) every native method that would hand back a *native* date/time/datetime when "
    "inherited from the C base is overridden in the pendulum class (inventory fixed by the property: date, "
    "time, astimezone, replace, +, -, the alternate constructors ...) and every return of such an override "
    "goes through a pendulum constructor (cls / self.__class__ / instance / create / Date / Time); (2) "
    "replace() of the three classes accepts the parameters of the interpreter's own reference signature "
    "(Lib/_pydatetime.py) in the same order and an omitted field keeps the instance's value - including "
    "fold; the field-by-field copies in date(), time(), int_timestamp, Date/Time replace are faithful; "
    "(3) __eq__ and __hash__ are defined together; str()/for_json delegate to isoformat. NOT decided: "
    "value equality of each inherited accessor with the native object (that is the C base class at run time)."
    " Also: DateTime.combine installs an explicit tzinfo and never forwards the None default to the native constructor; __format__ answers any spec containing '%' with strftime and the empty spec with str(); __sub__/__rsub__ normalise a native operand field-faithfully and in the right direction."
    ' As built (added): NATIVE.tabulated - astimezone and Date.today / fromtimestamp / fromordinal evaluated with super() and the native classes answered by the standard library; the value constructed must be the native answer (a naive result for an aware answer is a different value).'
)

REQUIRED = {
    "DateTime": ["date", "time", "astimezone", "replace", "__add__", "__radd__", "__sub__", "__rsub__", "fromtimestamp",
                 "utcfromtimestamp", "fromordinal", "combine", "strptime", "now", "utcnow", "today"],
    "Date": ["replace", "__add__", "__sub__", "today", "fromtimestamp", "fromordinal"],
    "Time": ["replace", "__add__", "__sub__", "__rsub__"],
}
# accepted ways of producing the result of an override (callee of the returned expression)
PENDULUM_CTORS = {
    "cls", "self.__class__", "cls.instance", "cls.create", "self.__class__.create", "cls.now", "Date", "Time", "DateTime",
    "self.instance", "self._add_timedelta_", "self._subtract_timedelta", "self._add_timedelta", "self.add_timedelta",
    "self.subtract_timedelta", "self.__add__", "other.diff", "self.diff", "dt.diff", "other.__sub__", "super().__add__",
    "self.add", "self.subtract", "self.set",
}


NATIVE_CALLEES = ("super().", "datetime.datetime", "datetime.date", "datetime.time", "date", "time", "datetime", "datetime.datetime.", "date.", "time.")


def _returns_pendulum(m, cls: str, meths: dict, v: ast.AST, depth: int) -> bool | None:
    """True: the value is built by a pendulum constructor / helper (possibly through private helpers of the class, followed up to
    three levels); False: it is a native value (base-class method, native constructor); None: unknown"""
    v = core.strip_casts(v)
    if not isinstance(v, ast.Call):
        return None
    callee = nun(v.func)
    if callee in PENDULUM_CTORS or (callee.endswith(".time") and "EPOCH" in callee):
        return True
    if callee.startswith("super().") or callee in ("datetime.datetime", "datetime.date", "datetime.time", "date", "time", "datetime") \
            or callee.startswith(("datetime.datetime.", "datetime.date.", "datetime.time.")):
        return False
    # a method of the class itself: self.x(...), cls.x(...), self.__class__.x(...), possibly followed by a method of its result
    f = v.func
    chain = []
    while isinstance(f, ast.Attribute):
        chain.append(f.attr)
        f = f.value
        if isinstance(f, ast.Call):
            inner = _returns_pendulum(m, cls, meths, f, depth)
            # x(...).diff(...) / .add(...) ...: a method of a pendulum value that returns pendulum values
            return inner if chain[-1] in ("diff", "add", "subtract", "set", "on", "at", "replace", "start_of", "end_of", "time", "date", "naive", "in_timezone", "in_tz") or inner is not True else None
    base = nun(f) if isinstance(f, (ast.Name, ast.Attribute)) else ""
    if chain and base in ("self", "cls") and depth < 3:
        names = list(reversed(chain))
        if names[0] == "__class__":
            names = names[1:]
        if len(names) == 1 and names[0] in meths:
            rs = core.returns(meths[names[0]])
            vs = [_returns_pendulum(m, cls, meths, r.value, depth + 1) for r in rs if r.value is not None and un(core.strip_casts(r.value)) != "NotImplemented"]
            if vs and all(x is True for x in vs):
                return True
            if any(x is False for x in vs):
                return False
    return None


def _inventory(ctx) -> None:
    for cls, names in REQUIRED.items():
        m = pmod(core.CLASS_HOME[cls])
        meths = m.methods(cls)
        for name in names:
            have = name in meths
            ctx.ob("OVERRIDE.inventory", f"{cls}.{name}", have,
                   f"{cls} must override {name}(): inherited from the C base it answers with the native type", m.rel)
            if not have:
                continue
            fn = meths[name]
            for p in cfg.paths(fn):
                ex = p.exit()
                if ex[1] == "fall":
                    ctx.ob("OVERRIDE.returns", f"{cls}.{name}/fall-through", False, "a path returns None", m.loc(fn))
                    continue
                if ex[1] != "return":
                    continue
                v = core.strip_casts(ex[2].value)
                if un(v) == "NotImplemented":
                    continue
                callee = nun(v.func) if isinstance(v, ast.Call) else None
                if callee is None and isinstance(v, ast.Attribute):
                    pass
                # chained calls such as DateTime.EPOCH.at(...).add(...).time()
                ok = callee in PENDULUM_CTORS or (callee is not None and callee.endswith(".time") and "EPOCH" in callee)
                verdict = _returns_pendulum(m, cls, meths, v, 0) if not ok else True
                if verdict is None:
                    ctx.unverified("OVERRIDE.returns", f"{cls}.{name}/{callee}", f"returns `{un(v)[:70]}`: neither a known pendulum constructor / helper nor a native value", m.loc(ex[2]))
                    continue
                ctx.ob("OVERRIDE.returns", f"{cls}.{name}/{callee}", bool(verdict),
                       f"returns `{un(v)[:70]}`; the result of an overridden native method must be built by a pendulum "
                       f"constructor/helper, not handed through from the base class", m.loc(ex[2]))


def _reference_sig(cls: str, name: str) -> list[str] | None:
    ref_path = os.path.join(os.path.dirname(ast.__file__), "_pydatetime.py")
    if not os.path.exists(ref_path):
        return None
    tree = ast.parse(open(ref_path, encoding="utf-8").read())
    for n in tree.body:
        if isinstance(n, ast.ClassDef) and n.name == cls:
            for st in n.body:
                if isinstance(st, ast.FunctionDef) and st.name == name:
                    return core.params(st)
    return None


def _replace(ctx) -> None:
    for cls, native, fields in (("DateTime", "datetime", recon.DATE_F + recon.TIME_F + ["tzinfo", "fold"]),
                                ("Date", "date", recon.DATE_F), ("Time", "time", recon.TIME_F + ["tzinfo", "fold"])):
        m = pmod(core.CLASS_HOME[cls])
        fn = m.func(f"{cls}.replace")
        got = core.params(fn)
        ref = _reference_sig(native, "replace")
        if ref is None:
            ctx.unverified("LSP.signature", f"{cls}.replace", "Lib/_pydatetime.py not available", m.rel)
        else:
            ctx.ob("LSP.signature", f"{cls}.replace", got[:len(ref)] == ref,
                   f"replace{tuple(got)}; the native signature is replace{tuple(ref)}", m.loc(fn))
        # an omitted field keeps the instance's value
        d = core.defaults(fn)
        for f in fields:
            if f not in got:
                continue
            dv = nun(d.get(f))
            sentinel = "True" if f == "tzinfo" else "None"
            ctx.ob("REPLACE.default", f"{cls}.replace/{f}-default", dv == sentinel,
                   f"default of {f} is `{dv}`; the native method keeps the current value when {f} is omitted (sentinel {sentinel})",
                   m.loc(fn))
        if cls == "DateTime":
            continue    # DateTime.replace funnels into create(): checked path by path under C02
        ps = cfg.paths(fn)
        for p in ps:
            ex = p.exit()
            if ex[1] != "return":
                continue
            v = core.strip_casts(ex[2].value)
            if not (isinstance(v, ast.Call) and nun(v.func) == "self.__class__"):
                ctx.ob("REPLACE.keep", f"{cls}.replace/return", False, f"returns `{un(v)[:60]}`", m.loc(ex[2]))
                continue
            b = core.bind(v, recon.PARAMS["DATE" if cls == "Date" else "TIME"])
            for f in fields:
                arg = b.get(f)
                if arg is None:
                    continue    # reported by RECON.state
                eff = cfg.subst_path(p, arg, set())
                # result rebuilt from `t = super().replace(...)`: the native method installs what it is passed
                if isinstance(arg, ast.Attribute) and arg.attr == f and isinstance(arg.value, ast.Name):
                    src = cfg.reaching(p, arg.value.id)
                    src = core.strip_casts(src) if src is not None else None
                    if isinstance(src, ast.Call) and nun(src.func) == "super().replace":
                        bb = core.bind(src, recon.TIME_F + ["tzinfo", "fold"])
                        if f in bb:
                            eff = cfg.subst_path(cfg._before(p, arg.value.id), bb[f], set())
                        else:
                            eff = ast.parse(f"self.{f}", mode="eval").body
                sv = nun(eff)
                sentinel_test = "tzinfo is True" if f == "tzinfo" else f"{f} is None"
                omitted = p.holds(sentinel_test)
                cond_form = f"{f} if {f} is not None else self.{f}"
                if sv == cond_form:
                    ok, want = True, cond_form
                elif omitted is True:
                    ok, want = sv == f"self.{f}", f"self.{f}"
                elif omitted is False:
                    ok, want = sv == f, f
                else:
                    ok, want = False, f"{f} when given, self.{f} when omitted"
                ctx.ob("REPLACE.keep", f"{cls}.replace/{f}", ok,
                       f"with `{f}` {'omitted' if omitted else 'given' if omitted is False else 'given or omitted (no test)'} "
                       f"the new object gets {f}=`{sv}`; expected `{want}`", m.loc(ex[2]), nontrivial=omitted is not False)


def _recon(ctx) -> None:
    dm, tm, dam = pmod("datetime"), pmod("time"), pmod("date")
    sites = recon.sites_in(dm, ["DateTime.date", "DateTime.time", "DateTime.int_timestamp", "DateTime.naive", "DateTime.__sub__", "DateTime.__rsub__",
                                "DateTime.instance"]) \
        + recon.sites_in(tm, ["Time.replace", "Time.instance"]) \
        + recon.sites_in(dam, ["Date.today", "Date.fromtimestamp", "Date.fromordinal"]) \
        + recon.sites_in(pmod("interval"), ["Interval.__new__"])       # subtraction of datetimes
    for s in sites:
        recon.check_site(ctx, s)
    ctx.count("recon_sites", len(sites))


NATIVE_CLASSMETHODS = {"DateTime": ("datetime", ["fromtimestamp", "utcfromtimestamp", "fromordinal", "strptime", "combine"]),
                       "Date": ("date", ["today", "fromtimestamp", "fromordinal"])}


def _native_delegation(ctx) -> None:
    """NATIVE.delegate: an alternative constructor inherited from the native class and overridden only to return the pendulum
    type must take its value from the native constructor of the same name, given the override's own arguments in order
    (the fields are then copied - RECON): the native class defines what the answer is (local time zone of the process for
    fromtimestamp/today, proleptic ordinal, strptime's grammar)."""
    for cls, (native, names) in NATIVE_CLASSMETHODS.items():
        m = pmod(core.CLASS_HOME[cls])
        meths = m.methods(cls)
        for name in names:
            if name not in meths:
                continue        # not overridden: the native constructor itself answers (OVERRIDE.inventory watches removals)
            fn = meths[name]
            params = core.params(fn)        # without cls
            calls = [c for c in core.calls(fn) if isinstance(c.func, ast.Attribute) and c.func.attr == name
                     and (nun(c.func.value) == "super()" or nun(c.func.value).split(".")[-1] == native)]
            ok = False
            detail = f"no call of the native {native}.{name}() found"
            for c in calls:
                given = [nun(a) for a in c.args] + [nun(k.value) for k in c.keywords if k.arg in params]
                lead = [p_ for p_ in params if p_ in given]
                if params and given[:1] == params[:1] or not params:
                    ok = True
                detail = f"calls {nun(c)[:80]}"
                _ = lead
            ctx.ob("NATIVE.delegate", f"{cls}.{name}", ok,
                   f"{detail}; the value must come from {native}.{name}({', '.join(params)}) - the native class defines it", m.loc(fn))


def native_tabulate(ctx, rule: str = "NATIVE.tabulated", only: tuple[str, ...] | None = None) -> None:
    """NATIVE.tabulated: the overrides that answer with the native class's own result re-wrapped in the pendulum type (DateTime.astimezone;
    Date.today / fromtimestamp / fromordinal) are evaluated by the checker's interpreter: `super()` and the native classes are the standard
    library's, applied to standard-library values; the class being constructed is the standard library's datetime / date.  The value
    constructed must equal what the native method answers (same fields, same instant, same utcoffset - a naive result for an aware answer
    is a different value)."""
    import datetime as _dt
    from ..rules import minieval
    from ..rules.minieval import ClassStub, Obj, Stub
    LOCAL = _dt.timezone(_dt.timedelta(hours=5, minutes=45), "LOCAL")          # stands for the local zone of the process
    bases = [_dt.datetime(2021, 3, 7, 12, 30, 15, 250, tzinfo=_dt.timezone(_dt.timedelta(hours=2))), _dt.datetime(1999, 12, 31, 23, 59, 59, 999999, tzinfo=_dt.timezone.utc),
             _dt.datetime(2020, 2, 29, 0, 0, 0, 0, tzinfo=_dt.timezone(_dt.timedelta(hours=-9, minutes=-30)))]
    targets = [None, _dt.timezone.utc, _dt.timezone(_dt.timedelta(hours=-5)), _dt.timezone(_dt.timedelta(hours=13, minutes=45))]
    dm, am = pmod("datetime"), pmod("date")
    todo = []
    if dm.has_func("DateTime.astimezone"):
        todo.append(("DateTime.astimezone", dm, dm.func("DateTime.astimezone")))
    for name in ("today", "fromtimestamp", "fromordinal"):
        if am.has_func(f"Date.{name}"):
            todo.append((f"Date.{name}", am, am.func(f"Date.{name}")))
    for label, m, fn in todo:
        if only is not None and label not in only:
            continue
        glob = {"$globals": {**minieval.module_consts(m), "datetime": Stub(datetime=_dt.datetime, date=_dt.date, timezone=_dt.timezone, timedelta=_dt.timedelta, tzinfo=_dt.tzinfo),
                             "date": ClassStub(_new=_dt.date, _isa=lambda v: isinstance(v, _dt.date), today=lambda: _dt.date(2021, 3, 7),
                                               fromtimestamp=_dt.date.fromtimestamp, fromordinal=_dt.date.fromordinal)}}
        bad, n = [], 0
        try:
            if label == "DateTime.astimezone":
                for b in bases:
                    for t in targets:
                        want = b.astimezone(LOCAL if t is None else t)
                        me = Obj(_methods=dm.methods_mro("DateTime"), _props=set(), _natives={}, _ctor=ClassStub(_new=_dt.datetime, _isa=lambda v: isinstance(v, _dt.datetime)),
                                 _super_natives={"astimezone": lambda tz=None, b=b: b.astimezone(LOCAL if tz is None else tz)},
                                 tzinfo=b.tzinfo, tz=b.tzinfo, timezone=b.tzinfo, **{k: getattr(b, k) for k in ("year", "month", "day", "hour", "minute", "second", "microsecond", "fold")})
                        got = minieval.call(fn, [me] + ([] if t is None else [t]), {}, glob)
                        n += 1
                        same = isinstance(got, _dt.datetime) and got.tzinfo is not None and got == want and got.utcoffset() == want.utcoffset() and \
                            got.replace(tzinfo=None) == want.replace(tzinfo=None) and got.fold == want.fold
                        if not same:
                            bad.append(f"{b.isoformat()}.astimezone({'' if t is None else t}) -> {got.isoformat() if isinstance(got, _dt.datetime) else got!r} (native: {want.isoformat()})")
            else:
                args = {"Date.today": [[]], "Date.fromtimestamp": [[0], [1615120000.5], [-86400 * 365.25 * 30]], "Date.fromordinal": [[1], [737000], [3652059]]}[label]
                nat = {"Date.today": lambda: _dt.date(2021, 3, 7), "Date.fromtimestamp": _dt.date.fromtimestamp, "Date.fromordinal": _dt.date.fromordinal}[label]
                for a in args:
                    cls = ClassStub(_new=_dt.date, _isa=lambda v: isinstance(v, _dt.date), _super_natives={label.split(".")[1]: nat})
                    got = minieval.call(fn, [cls] + a, {}, glob)
                    want = nat(*a)
                    n += 1
                    if not (isinstance(got, _dt.date) and got == want):
                        bad.append(f"{label}({', '.join(map(str, a))}) -> {got!r} (native: {want!r})")
        except (core.Unsupported, KeyError, TypeError, AttributeError, IndexError, RecursionError, minieval.Raised) as e:
            ctx.unverified(rule, label, f"outside the checker's interpreter: {type(e).__name__}: {str(e)[:160]}", m.loc(fn))
            continue
        ctx.ob(rule, label, not bad, f"{n} calls: " + (f"wrong: {bad[:3]}" if bad else "the value constructed is the native answer"), m.loc(fn))


def _eq_hash_str(ctx) -> None:
    for rel in core.all_py_modules():
        if "/locales/" in rel:
            continue
        m = core.mod(rel)
        for st in m.top():
            if isinstance(st, ast.ClassDef):
                names = {x.name for x in st.body if isinstance(x, ast.FunctionDef)}
                if "__eq__" in names or "__hash__" in names:
                    ctx.ob("EQHASH.pair", f"{st.name}", {"__eq__", "__hash__"} <= names,
                           f"{st.name} defines {sorted(names & {'__eq__', '__hash__'})}; defining __eq__ without __hash__ makes "
                           f"instances unhashable, defining only __hash__ breaks a == b => hash(a) == hash(b)", m.loc(st))
    mm = pmod("mixins.default")
    for name, want in (("__str__", "self.isoformat()"), ("for_json", "self.isoformat()")):
        r = core.returns(mm.func(f"FormattableMixin.{name}"))
        ctx.ob("STR", f"FormattableMixin.{name}", len(r) == 1 and nun(r[0].value) == want, f"returns {[nun(x.value) for x in r]}", mm.rel)
    dm = pmod("datetime")
    r = core.returns(dm.func("DateTime.__str__"))
    ctx.ob("STR", "DateTime.__str__", len(r) == 1 and nun(r[0].value) == "self.isoformat(' ')", f"returns {[nun(x.value) for x in r]}", dm.rel)
    iv = pmod("interval")
    if not (iv.has_func("Interval.__eq__") and iv.has_func("Interval.__hash__")):
        return      # reported by EQHASH.pair
    eq = iv.func("Interval.__eq__")
    hs = iv.func("Interval.__hash__")
    key = "(self.start, self.end, self._absolute)"
    ok = f"hash({key})" in nun(hs) and key in nun(eq)
    ctx.ob("EQHASH.key", "Interval", ok, "Interval.__eq__ and __hash__ must use the same key (start, end, absolute)", iv.loc(eq))


def _combine(ctx) -> None:
    """datetime.combine(date, time, tzinfo=<time's own>): an explicit tzinfo replaces the time's, an omitted one keeps
    it.  The override's parameter defaults to None, so the native constructor may only receive it when it is not None."""
    from .. import cfg
    dm = pmod("datetime")
    fn = dm.func("DateTime.combine")
    ps = core.params(fn)
    if len(ps) != 3:
        ctx.unverified("CTOR.combine", "DateTime.combine", f"parameters {ps}", dm.loc(fn))
        return
    d, t, tz = ps
    nat = f"datetime.datetime.combine({d}, {t})"
    given = {f"{nat}.replace(tzinfo={tz})", f"datetime.datetime.combine({d}, {t}, {tz})", f"datetime.datetime.combine({d}, {t}, tzinfo={tz})"}
    for p in cfg.paths(fn):
        ex = p.exit()
        if ex[1] != "return":
            continue
        e = core.strip_casts(ex[2].value)
        if not (isinstance(e, ast.Call) and nun(e.func) in ("cls.instance", "cls") and e.args):
            ctx.unverified("CTOR.combine", "DateTime.combine", f"returns `{nun(e)[:80]}`", dm.loc(ex[2]))
            continue
        val = nun(core.strip_casts(cfg.subst_path(p, e.args[0], set(ps))))
        has = p.holds(f"{tz} is not None")
        if has is None:
            neg = p.holds(f"{tz} is None")
            has = None if neg is None else (not neg)
        cases = [("explicit tzinfo", given)] if has is True else [("tzinfo omitted", {nat})] if has is False else \
            [("explicit tzinfo", given), ("tzinfo omitted", {nat})]
        for label, okset in cases:
            known = val in given | {nat}
            if not known:
                ctx.unverified("CTOR.combine", f"DateTime.combine/{label}", f"native value built as `{val[:90]}`", dm.loc(ex[2]))
                continue
            ctx.ob("CTOR.combine", f"DateTime.combine/{label}", val in okset,
                   f"with {label} the native value is `{val}`; datetime.combine() attaches an explicit tzinfo whatever the time's own "
                   f"one and keeps the time's tzinfo when none is given (passing None on strips it)", dm.loc(ex[2]))
        kw = {k: nun(v) for k, v in core.kw(e).items()}
        ctx.ob("CTOR.combine", "DateTime.combine/instance-tz", kw.get("tz") == tz, f"instance(..., tz={kw.get('tz')}); a naive combination stays naive "
               f"only when the (None) tzinfo argument is passed as tz", dm.loc(ex[2]), nontrivial=False)


def _format_protocol(ctx) -> None:
    """format(x, spec): a spec containing a strftime directive anywhere is answered by strftime like the native object,
    the empty spec by str()"""
    from .. import cfg
    mm = pmod("mixins.default")
    fn = mm.func("FormattableMixin.__format__")
    sp = core.params(fn)[0]
    good = {f"'%' in {sp}", f"{sp}.find('%') >= 0", f"{sp}.find('%') != -1", f"{sp}.count('%')", f"{sp}.count('%') > 0"}
    positional = re.compile(rf"{re.escape(sp)}\.(startswith|endswith|index|rfind|rindex)\(|{re.escape(sp)}\[")
    seen = False
    for p in cfg.paths(fn):
        ex = p.exit()
        if ex[1] != "return":
            continue
        v = nun(ex[2].value)
        tests = [(t, pol) for t, pol in p.assumes()]
        if v == f"self.strftime({sp})":
            seen = True
            pct = [t for t, pol in tests if "%" in t]
            for t in pct:
                if t in good:
                    ctx.ob("FORMAT.route", "FormattableMixin.__format__/strftime", True, f"routed to strftime under `{t}`", mm.loc(ex[2]))
                elif positional.search(t):
                    ctx.ob("FORMAT.route", "FormattableMixin.__format__/strftime", False,
                           f"strftime is chosen under `{t}`, which depends on where the '%' stands: 'on %d.%m.%Y' is a strftime spec for "
                           f"the native object and must be for this one", mm.loc(ex[2]))
                else:
                    ctx.unverified("FORMAT.route", "FormattableMixin.__format__/strftime", f"routed under `{t}`", mm.loc(ex[2]))
            if not pct:
                ctx.unverified("FORMAT.route", "FormattableMixin.__format__/strftime", f"no '%' test on the path: {tests}", mm.loc(ex[2]))
        elif v == "str(self)":
            empt = any((t in (f"len({sp}) > 0", sp, f"{sp} != ''") and pol is False) or (t in (f"not {sp}", f"{sp} == ''", f"len({sp}) == 0") and pol) for t, pol in tests)
            ctx.ob("FORMAT.route", "FormattableMixin.__format__/empty", empt, f"str(self) is returned under {tests}; must be exactly the empty spec", mm.loc(ex[2]))
    if not seen:
        ctx.ob("FORMAT.route", "FormattableMixin.__format__/strftime", False, "no path answers with self.strftime(spec)", mm.loc(fn))


def run(ctx) -> None:
    ctx.explanation = EXPLANATION
    bad = core.check_bases()
    if bad:
        raise core.AnchorMissing("class hierarchy changed: " + "; ".join(bad))
    ctx.step(_inventory, ctx)
    ctx.step(_replace, ctx)
    ctx.step(_recon, ctx)
    ctx.step(_native_delegation, ctx)
    ctx.step(native_tabulate, ctx)
    from . import C05
    ctx.step(C05._length_tabulate, ctx, True)      # a - b has exactly the length of the native subtraction (naive, UTC and date pairs of any span)
    from . import C02
    ctx.step(C02._funnel, ctx)        # replace()/set() like the native replace(): every field, tzinfo and fold reach the constructor
    ctx.step(_eq_hash_str, ctx)
    ctx.step(_combine, ctx)
    ctx.step(_format_protocol, ctx)
    ctx.expect_min("CTOR.combine", 2)
    ctx.expect_min("FORMAT.route", 2)
    from . import C05
    ctx.step(C05._direction, ctx)         # 'subtraction of datetimes': operand normalisation and direction of __sub__/__rsub__
    from . import C04
    ctx.step(C04._siblings, ctx, pmod("date"), "Date", "_add_timedelta", "_subtract_timedelta", ["years", "months", "weeks", "days"])   # Date +/- timedelta like the native date
    ctx.expect_min("OVERRIDE.inventory", 26)
    ctx.expect_min("OVERRIDE.returns", 30)
    ctx.expect_min("REPLACE", 10)
    ctx.expect_min("RECON.slot", 25)
    ctx.assumptions += ["the override inventory in pvs/props/C11.py lists the native methods whose C implementation returns base-class instances"]
